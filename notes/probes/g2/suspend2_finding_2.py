"""In-memory fake backend + driver for the durable execution SDK (scratch harness)."""

from __future__ import annotations

import dataclasses
import datetime
import json
import threading
import time
from unittest.mock import Mock

from aws_durable_execution_sdk_python.execution import (
    DurableExecutionInvocationInputWithClient,
    InitialExecutionState,
)
from aws_durable_execution_sdk_python.lambda_service import (
    CallbackDetails,
    ChainedInvokeDetails,
    CheckpointOutput,
    CheckpointUpdatedExecutionState,
    ContextDetails,
    ExecutionDetails,
    Operation,
    OperationAction,
    OperationStatus,
    OperationType,
    StateOutput,
    StepDetails,
    WaitDetails,
)

UTC = datetime.UTC


class FakeBackend:
    def __init__(self, input_payload="{}", clock_offset=0.0, page_size=None):
        self.lock = threading.RLock()
        self.ops: dict[str, Operation] = {}
        self.dirty: set[str] = set()
        self.token = 0
        self.log: list = []  # (t, [updates]) per checkpoint call
        self.clock_offset = clock_offset
        self.page_size = page_size
        self.checkpoint_hook = None  # callable(updates) run before applying
        self.after_hook = None
        self.ops["exec"] = Operation(
            operation_id="exec",
            operation_type=OperationType.EXECUTION,
            status=OperationStatus.STARTED,
            execution_details=ExecutionDetails(input_payload=input_payload),
        )
        self.cb_counter = 0
        self.n_checkpoints = 0

    def now(self):
        return datetime.datetime.now(tz=UTC) + datetime.timedelta(
            seconds=self.clock_offset
        )

    # ---- events of the outside world
    def tick(self):
        fired = []
        with self.lock:
            now = self.now()
            for op in list(self.ops.values()):
                if (
                    op.operation_type is OperationType.WAIT
                    and op.status is OperationStatus.STARTED
                    and op.wait_details.scheduled_end_timestamp <= now
                ):
                    self._put(dataclasses.replace(op, status=OperationStatus.SUCCEEDED))
                    fired.append(op.operation_id)
                elif (
                    op.operation_type is OperationType.STEP
                    and op.status is OperationStatus.PENDING
                    and op.step_details.next_attempt_timestamp <= now
                ):
                    self._put(dataclasses.replace(op, status=OperationStatus.READY))
                    fired.append(op.operation_id)
        return fired

    def next_timer(self):
        with self.lock:
            ts = []
            for op in self.ops.values():
                if (
                    op.operation_type is OperationType.WAIT
                    and op.status is OperationStatus.STARTED
                ):
                    ts.append(op.wait_details.scheduled_end_timestamp)
                elif (
                    op.operation_type is OperationType.STEP
                    and op.status is OperationStatus.PENDING
                ):
                    ts.append(op.step_details.next_attempt_timestamp)
            return min(ts) if ts else None

    def complete_callback(self, callback_id, result="ok"):
        with self.lock:
            for op in self.ops.values():
                if (
                    op.operation_type is OperationType.CALLBACK
                    and op.callback_details.callback_id == callback_id
                    and op.status is OperationStatus.STARTED
                ):
                    self._put(
                        dataclasses.replace(
                            op,
                            status=OperationStatus.SUCCEEDED,
                            callback_details=CallbackDetails(
                                callback_id=callback_id, result=result
                            ),
                        )
                    )
                    return True
        return False

    def complete_invoke(self, op_id=None, result='"r"'):
        with self.lock:
            for op in self.ops.values():
                if (
                    op.operation_type is OperationType.CHAINED_INVOKE
                    and op.status is OperationStatus.STARTED
                    and (op_id is None or op.operation_id == op_id)
                ):
                    self._put(
                        dataclasses.replace(
                            op,
                            status=OperationStatus.SUCCEEDED,
                            chained_invoke_details=ChainedInvokeDetails(result=result),
                        )
                    )
                    return op.operation_id
        return None

    def outstanding(self):
        """Operations registered with the backend that will produce a wake-up later."""
        with self.lock:
            out = []
            for op in self.ops.values():
                if op.operation_type in (
                    OperationType.WAIT,
                    OperationType.CALLBACK,
                    OperationType.CHAINED_INVOKE,
                ) and op.status is OperationStatus.STARTED:
                    out.append(op)
                elif (
                    op.operation_type is OperationType.STEP
                    and op.status is OperationStatus.PENDING
                ):
                    out.append(op)
            return out

    def _put(self, op):
        self.ops[op.operation_id] = op
        self.dirty.add(op.operation_id)

    # ---- service client protocol
    def checkpoint(self, durable_execution_arn, checkpoint_token, updates, client_token):
        if self.checkpoint_hook:
            self.checkpoint_hook(updates)
        with self.lock:
            self.n_checkpoints += 1
            self.tick()
            self.log.append((time.time(), list(updates)))
            for u in updates:
                self._apply(u)
            changed = [self.ops[i] for i in self.ops if i in self.dirty]
            self.dirty.clear()
            self.token += 1
            out = CheckpointOutput(
                checkpoint_token=f"t{self.token}",
                new_execution_state=CheckpointUpdatedExecutionState(
                    operations=changed, next_marker=None
                ),
            )
        if self.after_hook:
            self.after_hook(updates, out)
        return out

    def get_execution_state(
        self, durable_execution_arn, checkpoint_token, next_marker, max_items=1000
    ):
        with self.lock:
            start = int(next_marker)
            allops = self._history
            page = allops[start : start + self.page_size]
            nxt = start + self.page_size
            return StateOutput(
                operations=page, next_marker=str(nxt) if nxt < len(allops) else None
            )

    def _apply(self, u):
        now = self.now()
        old = self.ops.get(u.operation_id)
        t, a = u.operation_type, u.action
        base = dict(
            operation_id=u.operation_id,
            operation_type=t,
            parent_id=u.parent_id,
            name=u.name,
            sub_type=u.sub_type,
        )
        if old is not None and old.status in (
            OperationStatus.SUCCEEDED,
            OperationStatus.FAILED,
        ) and t is not OperationType.EXECUTION:
            raise AssertionError(
                f"update {a} for terminal operation {u.name or u.operation_id} ({old.status})"
            )
        if t is OperationType.STEP:
            attempt = old.step_details.attempt if old and old.step_details else 0
            prev_result = old.step_details.result if old and old.step_details else None
            if a is OperationAction.START:
                op = Operation(
                    **base,
                    status=OperationStatus.STARTED,
                    step_details=StepDetails(attempt=attempt, result=prev_result),
                )
            elif a is OperationAction.SUCCEED:
                op = Operation(
                    **base,
                    status=OperationStatus.SUCCEEDED,
                    step_details=StepDetails(attempt=attempt + 1, result=u.payload),
                )
            elif a is OperationAction.FAIL:
                op = Operation(
                    **base,
                    status=OperationStatus.FAILED,
                    step_details=StepDetails(attempt=attempt + 1, error=u.error),
                )
            elif a is OperationAction.RETRY:
                op = Operation(
                    **base,
                    status=OperationStatus.PENDING,
                    step_details=StepDetails(
                        attempt=attempt + 1,
                        next_attempt_timestamp=now
                        + datetime.timedelta(
                            seconds=u.step_options.next_attempt_delay_seconds
                        ),
                        result=u.payload,
                        error=u.error,
                    ),
                )
            else:
                raise AssertionError(a)
        elif t is OperationType.WAIT:
            assert a is OperationAction.START, a
            op = Operation(
                **base,
                status=OperationStatus.STARTED,
                wait_details=WaitDetails(
                    scheduled_end_timestamp=now
                    + datetime.timedelta(seconds=u.wait_options.wait_seconds)
                ),
            )
        elif t is OperationType.CALLBACK:
            assert a is OperationAction.START, a
            self.cb_counter += 1
            op = Operation(
                **base,
                status=OperationStatus.STARTED,
                callback_details=CallbackDetails(callback_id=f"cb-{self.cb_counter}"),
            )
        elif t is OperationType.CHAINED_INVOKE:
            assert a is OperationAction.START, a
            if old is not None:
                raise AssertionError("invoke started twice")
            op = Operation(
                **base,
                status=OperationStatus.STARTED,
                chained_invoke_details=ChainedInvokeDetails(),
            )
        elif t is OperationType.CONTEXT:
            if a is OperationAction.START:
                op = Operation(**base, status=OperationStatus.STARTED)
            elif a is OperationAction.SUCCEED:
                op = Operation(
                    **base,
                    status=OperationStatus.SUCCEEDED,
                    context_details=ContextDetails(
                        replay_children=bool(
                            u.context_options and u.context_options.replay_children
                        ),
                        result=u.payload,
                    ),
                )
            elif a is OperationAction.FAIL:
                op = Operation(
                    **base,
                    status=OperationStatus.FAILED,
                    context_details=ContextDetails(error=u.error),
                )
            else:
                raise AssertionError(a)
        elif t is OperationType.EXECUTION:
            op = dataclasses.replace(
                self.ops["exec"],
                status=OperationStatus.SUCCEEDED
                if a is OperationAction.SUCCEED
                else OperationStatus.FAILED,
            )
        else:
            raise AssertionError(t)
        self._put(op)

    # ---- invocation
    def make_event(self):
        with self.lock:
            self.tick()
            self._history = list(self.ops.values())
            self.dirty.clear()  # the whole history is handed over
            self.token += 1
            if self.page_size:
                first = self._history[: self.page_size]
                marker = (
                    str(self.page_size) if len(self._history) > self.page_size else ""
                )
            else:
                first, marker = self._history, ""
            return DurableExecutionInvocationInputWithClient(
                durable_execution_arn="arn:test",
                checkpoint_token=f"t{self.token}",
                initial_execution_state=InitialExecutionState(
                    operations=first, next_marker=marker
                ),
                service_client=self,
            )


def lambda_context():
    ctx = Mock()
    ctx.aws_request_id = "req"
    ctx.get_remaining_time_in_millis = lambda: 900000
    return ctx


def invoke_once(handler, backend, timeout=60):
    """Run one invocation in a thread; returns the response dict or raises TimeoutError / the error."""
    box = {}

    def run():
        try:
            box["out"] = handler(backend.make_event(), lambda_context())
        except BaseException as e:  # noqa: BLE001
            box["err"] = e

    t = threading.Thread(target=run, daemon=True)
    t.start()
    t.join(timeout)
    if t.is_alive():
        raise TimeoutError(f"invocation still running after {timeout}s")
    if "err" in box:
        raise box["err"]
    return box["out"]


class Stuck(AssertionError):
    pass


def drive(handler, backend, world=None, max_invocations=20, timeout=60, verbose=True):
    """Strict backend model: completions handed over in a checkpoint response (or in the
    history of an invocation) are consumed; after PENDING the execution is woken only by
    (a) a completion that happened but was not handed over yet, (b) a timer that is still
    registered, (c) a callback / invoke that is still outstanding (delivered by `world`)."""
    outs = []
    for n in range(max_invocations):
        out = invoke_once(handler, backend, timeout)
        outs.append(out)
        if verbose:
            print(f"invocation {n + 1}: {out.get('Status')}", flush=True)
        if out["Status"] != "PENDING":
            return outs
        with backend.lock:
            undelivered = set(backend.dirty)
        if undelivered:
            continue
        nt = backend.next_timer()
        pend = [
            op
            for op in backend.outstanding()
            if op.operation_type
            in (OperationType.CALLBACK, OperationType.CHAINED_INVOKE)
        ]
        if nt is not None:
            delay = (nt - backend.now()).total_seconds()
            if delay > 0:
                time.sleep(delay + 0.01)
            backend.tick()
            continue
        if pend and world is not None and world(backend, pend):
            continue
        raise Stuck(
            "PENDING with nothing registered that could wake the execution: outstanding="
            + str([(o.operation_type.value, o.name, o.status.value) for o in backend.outstanding()])
        )
    raise AssertionError("too many invocations")


def dump(backend):
    for op in backend.ops.values():
        print("  ", op.operation_type.value, op.name, op.status.value, op.operation_id[:8], "parent", (op.parent_id or "")[:8])


# =====================================================================================
# finding 2 - commit f4da58e (operation/wait.py: WaitOperationExecutor.execute), incomplete repair
#
# The commit parks a wait that is found STARTED until max(ScheduledEndTimestamp, now + 1 s). When
# the wait is replayed LESS THAN A SECOND before its end (an invocation caused by a callback that
# arrives shortly before the timer), the branch is parked until up to a second AFTER the backend
# completes the wait. Inside that second exactly the defect of the commit message happens again: a
# sibling's checkpoint brings the completion, the suspend verdict still counts the branch as
# parked, the invocation answers PENDING and nothing is left registered with the backend.
# (The floor is only needed when the end time has already passed.)
# =====================================================================================
import logging
import sys

from aws_durable_execution_sdk_python.config import Duration
from aws_durable_execution_sdk_python.execution import durable_execution

logging.disable(logging.CRITICAL)

if "--fix" in sys.argv:
    # minimal correction: keep the recorded end time when it lies ahead; the floor only applies
    # once the end time has passed
    from aws_durable_execution_sdk_python.operation import wait as wait_module

    def _fixed_execute(self, checkpointed_result):
        end = checkpointed_result.operation.wait_details.scheduled_end_timestamp
        now = datetime.datetime.now(tz=UTC)
        wait_module.suspend_with_optional_resume_timestamp(
            "fixed", end if end > now else now + datetime.timedelta(seconds=1)
        )

    wait_module.WaitOperationExecutor.execute = _fixed_execute

backend = FakeBackend()
WAIT_SECONDS = 3
LEAD = 0.1  # the callback arrives this long before the wait is over
delivered_in_response = []


def after_hook(updates, out):
    for op in out.new_execution_state.operations:
        if op.status is OperationStatus.SUCCEEDED:
            delivered_in_response.append(op.name)


backend.after_hook = after_hook


def wait_end():
    for op in backend.ops.values():
        if op.operation_type is OperationType.WAIT:
            return op.wait_details.scheduled_end_timestamp
    raise AssertionError("no wait recorded")


def branch_a(ctx):
    ctx.wait(Duration.from_seconds(WAIT_SECONDS), name="w")
    return ctx.step(lambda _: "a", name="after-wait")


def branch_b(ctx):
    cb = ctx.create_callback(name="cb")
    r = cb.result()

    def slow(_):
        # user code that is still running when the backend's timer of the sibling's wait fires
        d = (wait_end() - backend.now()).total_seconds() + 0.05
        if d > 0:
            time.sleep(d)
        backend.tick()  # the backend fires its timer on time
        return "b"

    return ctx.step(slow, name="slow") + ":" + str(r)


@durable_execution
def handler(event, ctx):
    return ctx.parallel([branch_a, branch_b], name="par").get_results()


out = invoke_once(handler, backend)
print("invocation 1:", out)
assert out["Status"] == "PENDING", out
assert {o.name for o in backend.outstanding()} == {"w", "cb"}

# the outside world answers the callback shortly before the wait is over -> invocation 2
d = (wait_end() - backend.now()).total_seconds() - LEAD
assert d > 0
time.sleep(d)
cb_op = next(o for o in backend.outstanding() if o.operation_type is OperationType.CALLBACK)
assert backend.complete_callback(cb_op.callback_details.callback_id, "cbres")

out = invoke_once(handler, backend)
print("invocation 2:", out)
print("SUCCEEDED operations handed over in checkpoint responses:", delivered_in_response)
print("still registered with the backend:", [(o.operation_type.value, o.name) for o in backend.outstanding()])
print("completions not handed over yet:", sorted(backend.dirty))
if out["Status"] == "PENDING":
    assert "w" in delivered_in_response, "scenario did not run as intended (timing)"
    assert backend.outstanding() or backend.dirty, (
        "FINDING 2: invocation 2 replayed wait 'w' %.1f s before its end, parked the branch until a second "
        "later (now + 1 s floor), received the wait's completion in the response to the sibling's checkpoint "
        "and answered PENDING while the branch still counted as parked: no timer, callback or invoke is "
        "registered any more - nothing will ever wake this execution" % LEAD
    )
assert out["Status"] == "SUCCEEDED", out
assert json.loads(out["Result"]) == ["a", "b:cbres"], out
print("ok")
