"""finding_1: 089b20e is incomplete - a retry strategy that fails by RETURNING something unusable
(None from a forgotten `return`, a decision whose delay is not a Duration) still leaves the step
without any terminal record.

089b20e wrapped only the call `retry_strategy(error, n)` of StepOperationExecutor.retry_handler in
try/except.  The decision is used after the try: `retry_decision.should_retry`,
`retry_decision.delay_seconds` (-> `delay.to_seconds()`), `delay_seconds < 1`.  A strategy that
"fails" there raises AttributeError/TypeError out of retry_handler exactly like the raising strategy
the commit repaired: ctx.step() raises to user code, neither RETRY nor FAIL has been sent.  User
code that handles the failed step and goes on sees an error in one invocation and - the step
function running again although the strategy never granted a retry - a result in the next
(C03: user code ran past the call with no accepted terminal record; C12: "when the strategy
declines, the failure is durably recorded and raised, and the step is never attempted again").
wait_for_condition does not have the problem: its strategy AND the use of the decision sit inside the
try that records FAIL.

Run:  PYTHONPATH=/tmp/wt/g2_steps2/src /venv/bin/python /tmp/wt/g2_steps2/finding_1.py
"""

from __future__ import annotations

import dataclasses
import datetime
import logging
import sys
import threading

from aws_durable_execution_sdk_python.config import Duration, StepConfig, StepSemantics
from aws_durable_execution_sdk_python.execution import (
    DurableExecutionInvocationInputWithClient,
    InitialExecutionState,
    durable_execution,
)
from aws_durable_execution_sdk_python.lambda_service import (
    CheckpointOutput,
    CheckpointUpdatedExecutionState,
    ExecutionDetails,
    Operation,
    OperationAction,
    OperationStatus,
    OperationType,
    StateOutput,
    StepDetails,
    WaitDetails,
)
from aws_durable_execution_sdk_python.retries import RetryDecision

logging.disable(logging.CRITICAL)
UTC = datetime.timezone.utc


class Backend:
    """In-memory backend: records checkpoints, plays them back as history."""

    def __init__(self) -> None:
        self.ops: dict[str, Operation] = {}
        self.log: list[tuple[str | None, str]] = []
        self.lock = threading.Lock()
        self.offset = 0.0
        self.token = 0
        self.ops["exec"] = Operation(
            operation_id="exec",
            operation_type=OperationType.EXECUTION,
            status=OperationStatus.STARTED,
            execution_details=ExecutionDetails(input_payload="{}"),
        )

    def now(self):
        return datetime.datetime.now(UTC) + datetime.timedelta(seconds=self.offset)

    def tick(self):
        for oid, op in list(self.ops.items()):
            if (
                op.operation_type is OperationType.STEP
                and op.status is OperationStatus.PENDING
                and op.step_details.next_attempt_timestamp <= self.now()
            ):
                self.ops[oid] = dataclasses.replace(op, status=OperationStatus.READY)
            if (
                op.operation_type is OperationType.WAIT
                and op.status is OperationStatus.STARTED
                and op.wait_details.scheduled_end_timestamp <= self.now()
            ):
                self.ops[oid] = dataclasses.replace(op, status=OperationStatus.SUCCEEDED)

    def checkpoint(self, durable_execution_arn, checkpoint_token, updates, client_token=None):
        with self.lock:
            changed = []
            for u in updates:
                self.log.append((u.name, u.action.value))
                old = self.ops.get(u.operation_id)
                if u.operation_type is OperationType.STEP:
                    sd = old.step_details if old and old.step_details else StepDetails()
                    if u.action is OperationAction.START:
                        status, sd = OperationStatus.STARTED, StepDetails(attempt=sd.attempt)
                    elif u.action is OperationAction.RETRY:
                        status = OperationStatus.PENDING
                        sd = StepDetails(
                            attempt=sd.attempt + 1,
                            next_attempt_timestamp=self.now()
                            + datetime.timedelta(seconds=u.step_options.next_attempt_delay_seconds),
                            error=u.error,
                        )
                    elif u.action is OperationAction.SUCCEED:
                        status, sd = OperationStatus.SUCCEEDED, StepDetails(attempt=sd.attempt + 1, result=u.payload)
                    else:
                        status, sd = OperationStatus.FAILED, StepDetails(attempt=sd.attempt + 1, error=u.error)
                    op = Operation(u.operation_id, u.operation_type, status, parent_id=u.parent_id, name=u.name, step_details=sd)
                elif u.operation_type is OperationType.WAIT:
                    op = Operation(
                        u.operation_id, u.operation_type, OperationStatus.STARTED, parent_id=u.parent_id, name=u.name,
                        wait_details=WaitDetails(
                            scheduled_end_timestamp=self.now() + datetime.timedelta(seconds=u.wait_options.wait_seconds)
                        ),
                    )
                else:
                    raise NotImplementedError(u.operation_type)
                self.ops[u.operation_id] = op
                changed.append(u.operation_id)
            self.token += 1
            return CheckpointOutput(
                checkpoint_token=f"t{self.token}",
                new_execution_state=CheckpointUpdatedExecutionState(operations=[self.ops[i] for i in changed]),
            )

    def get_execution_state(self, durable_execution_arn, checkpoint_token, next_marker, max_items=1000):
        return StateOutput(operations=[], next_marker=None)

    def invoke(self, handler):
        self.tick()
        event = DurableExecutionInvocationInputWithClient(
            durable_execution_arn="arn",
            checkpoint_token=f"t{self.token}",
            initial_execution_state=InitialExecutionState(operations=list(self.ops.values()), next_marker=""),
            service_client=self,
        )
        return handler(event, None)

    def step(self, name):
        return next((op for op in self.ops.values() if op.name == name), None)

    def status(self, name):
        op = self.step(name)
        return op.status.name if op else "(nothing recorded)"


def scenario(label: str, strategy, semantics: StepSemantics) -> list[str]:
    """A step that fails once; user code handles the failure, waits, and finishes."""
    entered: list[int] = []
    seen_by_user_code: list[str] = []

    def charge_card(_ctx):
        entered.append(1)
        if len(entered) == 1:
            raise ValueError("card declined")
        return "charged"

    @durable_execution
    def handler(_event, ctx):
        try:
            outcome = "result:" + ctx.step(
                charge_card, name="charge", config=StepConfig(retry_strategy=strategy, step_semantics=semantics)
            )
        except Exception as e:  # noqa: BLE001 - "code that handles the failed step and goes on"
            outcome = "error:" + type(e).__name__
        seen_by_user_code.append(outcome)
        if outcome.startswith("error:"):
            # the step is the call user code has just run past: what has the backend accepted for it?
            status_when_user_code_went_on.append(backend.status("charge"))
        ctx.wait(Duration.from_seconds(1), name="pause")
        return outcome

    backend = Backend()
    status_when_user_code_went_on: list[str] = []
    answers = []
    for _ in range(4):
        answer = backend.invoke(handler)
        answers.append(answer)
        if answer["Status"] != "PENDING":
            break
        backend.offset += 5
    print(f"--- {label} / {semantics.name}")
    print("    checkpoints        :", backend.log)
    print("    user code saw      :", seen_by_user_code)
    print("    function entered   :", len(entered), "time(s)")
    print("    record of the step :", backend.status("charge"))
    print("    final answer       :", answers[-1])

    problems = []
    if any(s not in ("FAILED",) for s in status_when_user_code_went_on):
        problems.append(
            f"{label}/{semantics.name}: ctx.step() raised to user code while the backend held status "
            f"{status_when_user_code_went_on} for the step - no FAIL (or RETRY) record was sent (C03/C12)"
        )
    if len(entered) != 1:
        problems.append(
            f"{label}/{semantics.name}: the strategy never granted a retry, yet the step function was entered "
            f"{len(entered)} times (C12: never attempted again after the strategy declines)"
        )
    if len({o.split(":")[0] for o in seen_by_user_code}) > 1:
        problems.append(
            f"{label}/{semantics.name}: replay is inconsistent - user code saw {seen_by_user_code} for the same step"
        )
    return problems


def raising_strategy(error, attempts_made):
    # what 089b20e repaired (reads error.response of a non-botocore error): must pass
    return RetryDecision.no_retry() if error.response["Error"]["Code"] != "Throttling" else None


def forgotten_return_strategy(error, attempts_made):
    # retries TimeoutError only; "everything else is not retried" - but the `return` was forgotten
    if isinstance(error, TimeoutError) and attempts_made < 3:
        return RetryDecision.retry(Duration.from_seconds(2))
    # return RetryDecision.no_retry()   <- missing: the strategy returns None


def bare_seconds_strategy(error, attempts_made):
    # delay given as a number instead of a Duration: RetryDecision.delay_seconds raises AttributeError
    return RetryDecision(should_retry=True, delay=2)


if __name__ == "__main__":
    all_problems: list[str] = []
    # control: the case the commit message describes is repaired
    control = scenario("strategy raises (control, repaired by 089b20e)", raising_strategy, StepSemantics.AT_LEAST_ONCE_PER_RETRY)
    assert not control, f"control scenario unexpectedly failed: {control}"
    for semantics in (StepSemantics.AT_LEAST_ONCE_PER_RETRY, StepSemantics.AT_MOST_ONCE_PER_RETRY):
        all_problems += scenario("strategy returns None", forgotten_return_strategy, semantics)
        all_problems += scenario("strategy returns delay=2 (no Duration)", bare_seconds_strategy, semantics)
    print()
    for p in all_problems:
        print("PROBLEM:", p)
    assert not all_problems, (
        "089b20e incomplete: a retry strategy that fails by returning an unusable decision still lets ctx.step() "
        f"raise without any terminal record ({len(all_problems)} violations, first: {all_problems[0]})"
    )
    print("OK")
    sys.exit(0)
