"""finding_3: the suspension execute() honours can be stale for a second reason a134671 does not look at.

a134671 re-reads the *policy* (counters.should_complete()) before ConcurrentExecutor.execute()
raises a recorded suspension.  The premise of that suspension - "no branch is PENDING or RUNNING"
(should_execution_suspend) - is not looked at again.  A done-callback that has computed the
suspension and is preempted before it stores it / sets the event (or execute() that wakes up a
moment later) can be overtaken by the resume timer, which takes the timed-out branch, resets it to
PENDING, refreshes the state and submits it again (the TimerScheduler is shut down only when
execute() leaves its `with` block; scheduler.shutdown() then even joins the timer thread, i.e.
waits for the resubmission to happen).  execute() then raises the stale TimedSuspendExecution:

    the invocation answers PENDING while the resumed branch is executing a user function,

its wait has already fired and been consumed (nothing is registered for it any more), the step's
result is lost when checkpointing stops, and the only thing left that can wake the execution is the
sibling's callback (C07: PENDING only when every unfinished part is parked on a registered timer /
event, never while a user function is running; "never stuck").

This is NOT introduced by a134671 (it behaves the same before it, and before 91ae657 / 6dc6077);
it is reported because it is the statement a134671 repaired and the re-check it added is the place
where it belongs.  Since 91ae657 the window closes as soon as execute() has set the scheduler's
shutdown flag.

The interleaving is forced by delaying (only) the done-callback between computing and storing its
decision until the resume timer has restarted branch 0.

Run:  PYTHONPATH=/tmp/wt/g2_orphan2/src /venv/bin/python finding_3.py     (exits non-zero on the defect)
"""

from __future__ import annotations

import datetime
import logging
import sys
import threading
import time
from dataclasses import replace
from unittest.mock import Mock

from aws_durable_execution_sdk_python.concurrency import executor as executor_module
from aws_durable_execution_sdk_python.config import Duration
from aws_durable_execution_sdk_python.execution import (
    DurableExecutionInvocationInputWithClient,
    InitialExecutionState,
    durable_execution,
)
from aws_durable_execution_sdk_python.lambda_service import (
    CallbackDetails,
    CheckpointOutput,
    CheckpointUpdatedExecutionState,
    ContextDetails,
    ExecutionDetails,
    Operation,
    OperationAction,
    OperationStatus,
    OperationType,
    StateOutput,
    StepDetails,
    WaitDetails,
)

logging.disable(logging.CRITICAL)


# --------------------------------------------------------------------------- fake backend
class Backend:
    """Keeps the operations, applies updates, answers every checkpoint with the changed operations."""

    def __init__(self):
        self.lock = threading.RLock()
        self.ops: dict[str, Operation] = {}
        self.order: list[str] = []
        self.names: dict[str, str] = {}
        self.log: list[tuple[str, str]] = []
        self.callbacks = 0
        self._put(
            Operation(
                operation_id="exec",
                operation_type=OperationType.EXECUTION,
                status=OperationStatus.STARTED,
                execution_details=ExecutionDetails(input_payload="{}"),
            )
        )

    def _put(self, op):
        if op.operation_id not in self.ops:
            self.order.append(op.operation_id)
        self.ops[op.operation_id] = op

    def fire_timers(self):
        fired = []
        with self.lock:
            for oid in self.order:
                op = self.ops[oid]
                if (
                    op.operation_type is OperationType.WAIT
                    and op.status is OperationStatus.STARTED
                    and op.wait_details.scheduled_end_timestamp <= datetime.datetime.now(tz=datetime.UTC)
                ):
                    self._put(replace(op, status=OperationStatus.SUCCEEDED))
                    fired.append(oid)
        return fired

    def wait_end(self):
        with self.lock:
            for op in self.ops.values():
                if op.operation_type is OperationType.WAIT:
                    return op.wait_details.scheduled_end_timestamp
        return None

    def registered_wakeups(self):
        """what the backend could use to wake the execution up again"""
        with self.lock:
            return [
                (op.operation_type.value, self.names.get(oid))
                for oid, op in self.ops.items()
                if op.status is OperationStatus.STARTED
                and op.operation_type in (OperationType.WAIT, OperationType.CALLBACK)
            ]

    def checkpoint(self, durable_execution_arn, checkpoint_token, updates, client_token):
        changed = self.fire_timers()  # timers that are due fire, their completion travels with the answer
        with self.lock:
            for u in updates:
                if u.operation_type is OperationType.EXECUTION:
                    continue
                self.names[u.operation_id] = u.name or u.operation_id[:8]
                self.log.append((u.action.value, self.names[u.operation_id]))
                base = dict(
                    operation_id=u.operation_id,
                    operation_type=u.operation_type,
                    parent_id=u.parent_id,
                    name=u.name,
                    sub_type=u.sub_type,
                )
                if u.operation_type is OperationType.CONTEXT:
                    if u.action is OperationAction.START:
                        op = Operation(status=OperationStatus.STARTED, **base)
                    elif u.action is OperationAction.SUCCEED:
                        op = Operation(
                            status=OperationStatus.SUCCEEDED,
                            context_details=ContextDetails(
                                replay_children=bool(u.context_options and u.context_options.replay_children),
                                result=u.payload,
                            ),
                            **base,
                        )
                    else:
                        op = Operation(
                            status=OperationStatus.FAILED, context_details=ContextDetails(error=u.error), **base
                        )
                elif u.operation_type is OperationType.STEP:
                    if u.action is OperationAction.START:
                        op = Operation(status=OperationStatus.STARTED, step_details=StepDetails(), **base)
                    elif u.action is OperationAction.SUCCEED:
                        op = Operation(
                            status=OperationStatus.SUCCEEDED,
                            step_details=StepDetails(attempt=1, result=u.payload),
                            **base,
                        )
                    else:
                        op = Operation(
                            status=OperationStatus.FAILED, step_details=StepDetails(attempt=1, error=u.error), **base
                        )
                elif u.operation_type is OperationType.WAIT:
                    op = Operation(
                        status=OperationStatus.STARTED,
                        wait_details=WaitDetails(
                            scheduled_end_timestamp=datetime.datetime.now(tz=datetime.UTC)
                            + datetime.timedelta(seconds=u.wait_options.wait_seconds)
                        ),
                        **base,
                    )
                elif u.operation_type is OperationType.CALLBACK:
                    self.callbacks += 1
                    op = Operation(
                        status=OperationStatus.STARTED,
                        callback_details=CallbackDetails(callback_id=f"cb-{self.callbacks}"),
                        **base,
                    )
                else:
                    raise AssertionError(u.operation_type)
                self._put(op)
                changed.append(u.operation_id)
            ops = [self.ops[i] for i in dict.fromkeys(changed)]
        return CheckpointOutput(
            checkpoint_token="tok", new_execution_state=CheckpointUpdatedExecutionState(operations=ops)
        )

    def get_execution_state(self, durable_execution_arn, checkpoint_token, next_marker, max_items=1000):
        return StateOutput(operations=[], next_marker="")

    def invoke(self, handler):
        self.fire_timers()
        with self.lock:
            ops = [self.ops[i] for i in self.order]
        event = DurableExecutionInvocationInputWithClient(
            durable_execution_arn="arn",
            checkpoint_token="t0",
            initial_execution_state=InitialExecutionState(operations=ops, next_marker=""),
            service_client=self,
        )
        lambda_context = Mock()
        lambda_context.aws_request_id = "r"
        lambda_context.client_context = None
        lambda_context.identity = None
        lambda_context._epoch_deadline_time_in_ms = 0  # noqa: SLF001
        lambda_context.invoked_function_arn = "arn"
        lambda_context.tenant_id = None
        return handler(event, lambda_context)

    def status_of(self, name):
        with self.lock:
            for oid, op in self.ops.items():
                if self.names.get(oid) == name:
                    return op.status
        return None


# --------------------------------------------------------------------------- forced interleaving
events: list[str] = []
events_lock = threading.Lock()
user_function_started = threading.Event()
forced = {"held": False}


def note(text):
    with events_lock:
        events.append(text)


_orig_should_execution_suspend = executor_module.ConcurrentExecutor.should_execution_suspend


def preempted_should_execution_suspend(self):
    decision = _orig_should_execution_suspend(self)
    if decision.should_suspend and not forced["held"]:
        # The done-callback has computed "everything is parked" and is preempted before it stores
        # the decision: meanwhile the resume timer restarts the branch whose wait has ended.
        forced["held"] = True
        note("done-callback computed: suspend (all branches parked)")
        user_function_started.wait(5)
        note("done-callback stores its decision")
    return decision


executor_module.ConcurrentExecutor.should_execution_suspend = preempted_should_execution_suspend

backend = Backend()


# --------------------------------------------------------------------------- the workflow
@durable_execution
def handler(event, ctx):
    def waits_then_works(c):
        c.wait(Duration.from_seconds(1), name="w")

        def work(_):
            note("branch 0: user function starts")
            user_function_started.set()
            time.sleep(1.0)
            note("branch 0: user function ends")
            return "worked"

        return c.step(work, name="work")

    def waits_for_callback(c):
        def submit(callback_id, _):
            # park shortly before the sibling's wait ends
            while backend.wait_end() is None:
                time.sleep(0.01)
            delay = (backend.wait_end() - datetime.datetime.now(tz=datetime.UTC)).total_seconds() - 0.15
            if delay > 0:
                time.sleep(delay)

        return c.wait_for_callback(submit, name="wfc")

    result = ctx.parallel([waits_then_works, waits_for_callback], name="P")
    return [(item.status.value, item.result) for item in result.all]


def main() -> int:
    box = {}

    def run():
        try:
            box["out"] = backend.invoke(handler)
        except BaseException as e:  # noqa: BLE001
            box["err"] = e

    t = threading.Thread(target=run, daemon=True)
    t.start()
    t.join(30)
    assert not t.is_alive(), "invocation hangs"
    assert "err" not in box, f"invocation raised {box.get('err')!r}"
    out = box["out"]
    note(f"invocation answered {out}")
    wakeups = backend.registered_wakeups()
    branch0 = backend.status_of("parallel-branch-0")
    time.sleep(1.5)
    for e in events:
        print("   ", e)
    print("    records:", backend.log)
    print("    registered with the backend when the invocation answered:", wakeups)

    if not forced["held"]:
        print("SETUP FAILED: the suspension was never computed")
        return 2
    if out["Status"] != "PENDING":
        print("OK: the invocation did not answer PENDING:", out)
        return 0
    answered = next(i for i, e in enumerate(events) if e.startswith("invocation answered"))
    started_before = "branch 0: user function starts" in events[:answered]
    ended_before = "branch 0: user function ends" in events[:answered]
    assert not (started_before and not ended_before), (
        "the invocation answered PENDING while branch 0 - resumed in-process by the resume timer - was "
        "executing its user function; execute() raised a recorded suspension whose premise (no branch "
        "PENDING/RUNNING) no longer held. Branch 0 is " + str(branch0) + " and the only things registered "
        f"with the backend are {wakeups} (its wait has fired and been consumed): the step's work is lost "
        "and only the sibling's callback can wake the execution."
    )
    print("OK: PENDING was answered with every branch parked")
    return 0


if __name__ == "__main__":
    sys.exit(main())
