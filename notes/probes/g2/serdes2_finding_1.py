"""finding_1: a811a5d / 2d5fcf1 are incomplete - a checkpointed step result is still lost to RecursionError.

Both commits equalise the number of stack frames the default decoder and encoder need, so that "the
decoder reaches every nesting depth the encoder accepts".  That only holds while decoder and encoder
are called from the SAME stack depth.  ConcurrentExecutor.replay() (concurrency/executor.py) breaks
this: a map / parallel branch first runs in a pool thread (shallow stack), but when the map / parallel
result was summarised (ReplayChildren, > 256 KB) every later invocation re-traverses the branch bodies
sequentially in the handler thread, beneath
  handler -> context.map -> child_handler -> process -> execute -> map_handler -> replay
  -> _execute_item_in_child_context -> child_handler -> process -> execute -> branch body -> context.step
i.e. about 9 frames deeper.  A step inside such a branch whose result nests ~325 levels deep is serialized
and checkpointed in invocation 1 and can never be deserialized again: every replay ends FAILED with
'Deserialization failed' although the step SUCCEEDED durably (C15, C16: "every replay rebuilds an equal
result").

Run:  PYTHONPATH=/tmp/wt/g2_serdes2/src /venv/bin/python finding_1.py
"""
from __future__ import annotations

import datetime
import logging
import sys
import threading
from collections import OrderedDict
from dataclasses import replace

from aws_durable_execution_sdk_python.config import Duration
from aws_durable_execution_sdk_python.execution import (
    DurableExecutionInvocationInputWithClient,
    InitialExecutionState,
    durable_execution,
)
from aws_durable_execution_sdk_python.lambda_service import (
    CheckpointOutput,
    CheckpointUpdatedExecutionState,
    ContextDetails,
    ExecutionDetails,
    Operation,
    OperationAction,
    OperationStatus,
    OperationType,
    StateOutput,
    StepDetails,
    WaitDetails,
)

logging.disable(logging.CRITICAL)
UTC = datetime.timezone.utc


class Backend:
    """In-memory backend: applies checkpoint updates, plays the operations back as history."""

    def __init__(self):
        self.lock = threading.Lock()
        self.ops: OrderedDict[str, Operation] = OrderedDict()
        self.ops["exec-0"] = Operation(
            operation_id="exec-0",
            operation_type=OperationType.EXECUTION,
            status=OperationStatus.STARTED,
            execution_details=ExecutionDetails(input_payload="{}"),
        )
        self.updates = []

    def checkpoint(self, durable_execution_arn, checkpoint_token, updates, client_token=None):
        with self.lock:
            changed = []
            for u in updates:
                self.updates.append(u)
                changed.append(self._apply(u))
            return CheckpointOutput(
                checkpoint_token=f"tok-{len(self.updates)}",
                new_execution_state=CheckpointUpdatedExecutionState(operations=changed),
            )

    def get_execution_state(self, durable_execution_arn, checkpoint_token, next_marker, max_items=1000):
        return StateOutput(operations=[], next_marker=None)

    def _apply(self, u) -> Operation:
        now = datetime.datetime.now(UTC)
        base = self.ops.get(u.operation_id) or Operation(
            operation_id=u.operation_id,
            operation_type=u.operation_type,
            status=OperationStatus.STARTED,
            parent_id=u.parent_id,
            name=u.name,
            sub_type=u.sub_type,
            start_timestamp=now,
        )
        t, a = u.operation_type, u.action
        if t is OperationType.STEP:
            prev = base.step_details or StepDetails()
            if a is OperationAction.START:
                op = replace(base, status=OperationStatus.STARTED, step_details=prev)
            elif a is OperationAction.SUCCEED:
                op = replace(base, status=OperationStatus.SUCCEEDED, end_timestamp=now,
                             step_details=replace(prev, result=u.payload, attempt=prev.attempt + 1))
            elif a is OperationAction.FAIL:
                op = replace(base, status=OperationStatus.FAILED, end_timestamp=now,
                             step_details=replace(prev, error=u.error, attempt=prev.attempt + 1))
            else:  # RETRY
                op = replace(base, status=OperationStatus.PENDING,
                             step_details=replace(prev, error=u.error, attempt=prev.attempt + 1,
                                                  next_attempt_timestamp=now + datetime.timedelta(seconds=1)))
        elif t is OperationType.CONTEXT:
            if a is OperationAction.START:
                op = replace(base, status=OperationStatus.STARTED)
            elif a is OperationAction.SUCCEED:
                rc = u.context_options.replay_children if u.context_options else False
                op = replace(base, status=OperationStatus.SUCCEEDED, end_timestamp=now,
                             context_details=ContextDetails(replay_children=rc, result=u.payload))
            else:
                op = replace(base, status=OperationStatus.FAILED, end_timestamp=now,
                             context_details=ContextDetails(error=u.error))
        elif t is OperationType.WAIT:
            op = replace(base, status=OperationStatus.STARTED,
                         wait_details=WaitDetails(scheduled_end_timestamp=now + datetime.timedelta(seconds=1)))
        else:
            op = replace(base, status=OperationStatus.SUCCEEDED if a is OperationAction.SUCCEED else OperationStatus.FAILED)
        self.ops[u.operation_id] = op
        return op

    def let_time_pass(self):
        with self.lock:
            for k, op in list(self.ops.items()):
                if op.operation_type is OperationType.WAIT and op.status is OperationStatus.STARTED:
                    self.ops[k] = replace(op, status=OperationStatus.SUCCEEDED)

    def invocation_input(self):
        with self.lock:
            ops = list(self.ops.values())
        return DurableExecutionInvocationInputWithClient(
            durable_execution_arn="arn:test",
            checkpoint_token="tok-init",
            initial_execution_state=InitialExecutionState(operations=ops, next_marker=""),
            service_client=self,
        )


class LambdaCtx:
    aws_request_id = "req"
    log_group_name = "lg"
    log_stream_name = "ls"
    function_name = "fn"
    memory_limit_in_mb = "128"
    function_version = "1"
    invoked_function_arn = "arn:fn"
    tenant_id = None
    client_context = None
    identity = None

    def get_remaining_time_in_millis(self):
        return 900000

    def log(self, msg):
        pass


def invoke(handler, backend, timeout=120):
    box = {}

    def run():
        try:
            box["r"] = handler(backend.invocation_input(), LambdaCtx())
        except BaseException as e:  # noqa: BLE001
            box["r"] = {"Status": f"RAISED {e!r}"}

    t = threading.Thread(target=run, daemon=True)
    t.start()
    t.join(timeout)
    assert not t.is_alive(), "invocation hangs"
    return box["r"]


def nested(depth, leaf):
    value = leaf
    for _ in range(depth):
        value = (value,)
    return value


def nesting_of(value):
    n = 0
    while isinstance(value, tuple):
        value = value[0]
        n += 1
    return n, value


def scenario(depth: int, use_parallel: bool):
    """Returns (status of invocation 1, status of invocation 2, error of invocation 2, executions of the step)."""
    executions = {"n": 0}
    leaf = b"payload"

    def make(step_context):
        executions["n"] += 1
        return nested(depth, leaf)

    def branch_body(child):
        value = child.step(make, name="deep")
        assert nesting_of(value) == (depth, leaf), "step result altered"
        # > 256 KB: the branch and the whole map / parallel are summarised (ReplayChildren)
        return "A" * 300_000

    def handler(event, context):
        if use_parallel:
            context.parallel([branch_body], name="p").throw_if_error()
        else:
            context.map([0], lambda child, item, index, items: branch_body(child), name="m").throw_if_error()
        context.wait(Duration.from_seconds(1), name="w")  # forces a second invocation, i.e. a replay
        return "done"

    backend = Backend()
    wrapped = durable_execution(handler)
    first = invoke(wrapped, backend)
    backend.let_time_pass()
    second = invoke(wrapped, backend)
    return (
        first.get("Status"),
        second.get("Status"),
        (second.get("Error") or {}).get("ErrorMessage"),
        executions["n"],
    )


def main() -> int:
    lost = []
    for use_parallel in (False, True):
        for depth in range(300, 340):
            first, second, error, executions = scenario(depth, use_parallel)
            kind = "parallel" if use_parallel else "map"
            if first != "PENDING":
                # the encoder refused the value in invocation 1 (serialization error): that is the
                # promised rejection, and deeper values are refused as well
                print(f"{kind}: nesting {depth}: rejected at serialization time ({first}) - fine")
                break
            # invocation 1 checkpointed the step's result and the summarised branch / map: the replay
            # must rebuild everything from the records
            if second != "SUCCEEDED" or executions != 1:
                lost.append((kind, depth, second, error, executions))
                print(f"{kind}: nesting {depth}: invocation 1 -> PENDING (step result checkpointed), "
                      f"invocation 2 -> {second}: {error!r}, step executions: {executions}   <== LOST")
    assert not lost, (
        "a step result that was serialized and checkpointed inside a map/parallel branch cannot be "
        "deserialized when the summarised branch is re-traversed by ConcurrentExecutor.replay() "
        f"(deeper caller stack than the pool thread that encoded it): {lost}"
    )
    print("no checkpointed value was lost")
    return 0


if __name__ == "__main__":
    sys.exit(main())
