"""finding_2 (low severity): 8c6aeba made the overflow fallback wrong for a negative backoff rate
at even exponents - an input for which the code before the commit was right.

retries.py:create_retry_strategy.retry_strategy / waits.py:create_wait_strategy.wait_strategy

    except OverflowError:
        base_delay = cap if initial_delay > 0 and backoff_rate > 0 else 0
        # "... or the rate is negative (the product does not grow towards the cap)"

That comment is only true for odd exponents.  rate ** (attempts - 1) with a negative rate is
positive for every even exponent: initial * (-2.0) ** 1022 is +2.2e308 -> min(.., cap) = cap, and
that is what the strategy returns for attempt 1023 (no overflow yet).  Two attempts later
(-2.0) ** 1024 overflows, the exact product is still far beyond the cap, but the fallback now
answers 0 -> the 1 s minimum.  Before 8c6aeba the fallback answered the cap here (right for the even
exponents, wrong for the odd ones); after it, it is right for the odd ones and wrong for the even
ones.  backoff_rate is not validated anywhere, the delay stays inside [1 s, max delay], and a
negative rate is a nonsensical configuration - hence low severity - but "follows the configured
backoff" (C12) is what the fallback exists for, and it still does not for this input.

Correction: the sign of the product decides, not the sign of the rate:
    positive = config.backoff_rate > 0 or (attempts_made - 1) % 2 == 0
    base_delay = config.max_delay_seconds if config.initial_delay_seconds > 0 and positive else 0
(or reject backoff_rate <= 0 when the config is created).

Run:  PYTHONPATH=/tmp/wt/g2_steps2/src /venv/bin/python /tmp/wt/g2_steps2/finding_2.py
"""

from __future__ import annotations

import math
from fractions import Fraction

from aws_durable_execution_sdk_python.config import Duration, JitterStrategy
from aws_durable_execution_sdk_python.retries import RetryStrategyConfig, create_retry_strategy
from aws_durable_execution_sdk_python.waits import WaitStrategyConfig, create_wait_strategy

INITIAL, RATE, CAP = 5, -2.0, 300


def exact(attempts_made: int) -> int:
    """min(initial * rate ** (n - 1), cap), jitter NONE, rounded up, at least 1 - in exact arithmetic."""
    product = Fraction(INITIAL) * Fraction(RATE) ** (attempts_made - 1)
    return max(1, math.ceil(min(product, CAP)))


retry = create_retry_strategy(
    RetryStrategyConfig(
        max_attempts=10**6,
        initial_delay=Duration.from_seconds(INITIAL),
        max_delay=Duration.from_seconds(CAP),
        backoff_rate=RATE,
        jitter_strategy=JitterStrategy.NONE,
    )
)
wait = create_wait_strategy(
    WaitStrategyConfig(
        should_continue_polling=lambda _r: True,
        max_attempts=10**6,
        initial_delay=Duration.from_seconds(INITIAL),
        max_delay=Duration.from_seconds(CAP),
        backoff_rate=RATE,
        jitter_strategy=JitterStrategy.NONE,
    )
)

wrong = []
# 1024 is skipped on purpose: 5 * (-2.0) ** 1023 silently becomes -inf and math.ceil(-inf) raises -
# that is older than the commit under review.
for attempts in (3, 4, 1021, 1022, 1023, 1025, 1026, 1027, 1028, 2001, 2002):
    got_retry = retry(Exception("x"), attempts).delay_seconds
    got_wait = wait(None, attempts).delay_seconds
    want = exact(attempts)
    flag = "" if got_retry == want == got_wait else "   <-- does not follow the configured backoff"
    print(f"attempts_made={attempts:5d}  exact={want:4d}  retry strategy={got_retry:4d}  wait strategy={got_wait:4d}{flag}")
    if flag:
        wrong.append((attempts, want, got_retry, got_wait))

assert not wrong, (
    "8c6aeba: with backoff_rate=-2.0 the overflow fallback returns the 1 s minimum where the product "
    f"initial * rate ** (n - 1) is positive and beyond the cap: (attempts, exact, retry, wait) = {wrong}"
)
print("OK")
