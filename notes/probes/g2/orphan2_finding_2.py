"""finding_2: 0ae22a8 does not stop an orphaned branch whose own record is SUCCEEDED (summarised).

0ae22a8 ("stop an orphaned branch at every operation") puts the orphan question to "the nearest
enclosing context that is still open", and takes every enclosing context whose *record* is
SUCCEEDED for replay (ExecutionState.raise_if_in_orphaned_branch walks upwards past them).
A branch that ConcurrentExecutor.execute() is running can itself be recorded SUCCEEDED: it
completed - with a summarised (ReplayChildren) result - in an earlier invocation in which its
map/parallel did not complete, so the re-invocation runs its body again.  When the map/parallel
reaches its completion policy through the siblings first, that branch is left behind, the
map/parallel is handed its completion record - and, as soon as the answer to that checkpoint has
been merged (the parallel is recorded SUCCEEDED too), the walk finds no open context at all and
returns: the left-behind branch goes on through its operations, runs the user code between them
and runs the body of a nested summarised context again - the very symptom the commit describes
(C10: "a still-running orphaned branch is stopped at its next durable operation before that
operation's user function runs").  Whether it is stopped depends on timing: between the enqueue
of the completion record and the merge of its answer the parallel is still recorded STARTED and
the branch *is* stopped.

Invocation 1: parallel([big, cb, cb], min_successful=2): `big` completes (summarised), the two
              callback branches park -> PENDING.
Invocation 2: both callbacks have arrived; the callback branches finish first, the parallel is
              decided and recorded; `big` (still traversing its summarised body) continues.

Run:  PYTHONPATH=/tmp/wt/g2_orphan2/src /venv/bin/python finding_2.py     (exits non-zero on the defect)
"""

from __future__ import annotations

import logging
import sys
import threading
import time
from dataclasses import replace
from unittest.mock import Mock

from aws_durable_execution_sdk_python.config import CompletionConfig, ParallelConfig
from aws_durable_execution_sdk_python.execution import (
    DurableExecutionInvocationInputWithClient,
    InitialExecutionState,
    durable_execution,
)
from aws_durable_execution_sdk_python.lambda_service import (
    CallbackDetails,
    CheckpointOutput,
    CheckpointUpdatedExecutionState,
    ContextDetails,
    ExecutionDetails,
    Operation,
    OperationAction,
    OperationStatus,
    OperationType,
    StateOutput,
    StepDetails,
)

logging.disable(logging.CRITICAL)
BIG = "x" * (300 * 1024)  # more than the 256 KB checkpoint limit -> summarised context


# --------------------------------------------------------------------------- fake backend
class Backend:
    """Keeps the operations, applies updates, answers every checkpoint with the changed operations."""

    def __init__(self):
        self.lock = threading.RLock()
        self.ops: dict[str, Operation] = {}
        self.order: list[str] = []
        self.names: dict[str, str] = {}
        self.log: list[tuple[str, str]] = []
        self.callbacks = 0
        self._put(
            Operation(
                operation_id="exec",
                operation_type=OperationType.EXECUTION,
                status=OperationStatus.STARTED,
                execution_details=ExecutionDetails(input_payload="{}"),
            )
        )

    def _put(self, op):
        if op.operation_id not in self.ops:
            self.order.append(op.operation_id)
        self.ops[op.operation_id] = op

    def checkpoint(self, durable_execution_arn, checkpoint_token, updates, client_token):
        changed = []
        with self.lock:
            for u in updates:
                if u.operation_type is OperationType.EXECUTION:
                    continue
                self.names[u.operation_id] = u.name or u.operation_id[:8]
                self.log.append((u.action.value, self.names[u.operation_id]))
                base = dict(
                    operation_id=u.operation_id,
                    operation_type=u.operation_type,
                    parent_id=u.parent_id,
                    name=u.name,
                    sub_type=u.sub_type,
                )
                if u.operation_type is OperationType.CONTEXT:
                    if u.action is OperationAction.START:
                        op = Operation(status=OperationStatus.STARTED, **base)
                    elif u.action is OperationAction.SUCCEED:
                        op = Operation(
                            status=OperationStatus.SUCCEEDED,
                            context_details=ContextDetails(
                                replay_children=bool(u.context_options and u.context_options.replay_children),
                                result=u.payload,
                            ),
                            **base,
                        )
                    else:
                        op = Operation(
                            status=OperationStatus.FAILED, context_details=ContextDetails(error=u.error), **base
                        )
                elif u.operation_type is OperationType.STEP:
                    if u.action is OperationAction.START:
                        op = Operation(status=OperationStatus.STARTED, step_details=StepDetails(), **base)
                    elif u.action is OperationAction.SUCCEED:
                        op = Operation(
                            status=OperationStatus.SUCCEEDED,
                            step_details=StepDetails(attempt=1, result=u.payload),
                            **base,
                        )
                    else:
                        op = Operation(
                            status=OperationStatus.FAILED, step_details=StepDetails(attempt=1, error=u.error), **base
                        )
                elif u.operation_type is OperationType.CALLBACK:
                    self.callbacks += 1
                    op = Operation(
                        status=OperationStatus.STARTED,
                        callback_details=CallbackDetails(callback_id=f"cb-{self.callbacks}"),
                        **base,
                    )
                else:
                    raise AssertionError(u.operation_type)
                self._put(op)
                changed.append(u.operation_id)
            ops = [self.ops[i] for i in dict.fromkeys(changed)]
        return CheckpointOutput(
            checkpoint_token="tok", new_execution_state=CheckpointUpdatedExecutionState(operations=ops)
        )

    def get_execution_state(self, durable_execution_arn, checkpoint_token, next_marker, max_items=1000):
        return StateOutput(operations=[], next_marker="")

    def invoke(self, handler):
        with self.lock:
            ops = [self.ops[i] for i in self.order]
        event = DurableExecutionInvocationInputWithClient(
            durable_execution_arn="arn",
            checkpoint_token="t0",
            initial_execution_state=InitialExecutionState(operations=ops, next_marker=""),
            service_client=self,
        )
        lambda_context = Mock()
        lambda_context.aws_request_id = "r"
        lambda_context.client_context = None
        lambda_context.identity = None
        lambda_context._epoch_deadline_time_in_ms = 0  # noqa: SLF001
        lambda_context.invoked_function_arn = "arn"
        lambda_context.tenant_id = None
        return handler(event, lambda_context)

    def complete_open_callbacks(self, result='"done"'):
        with self.lock:
            for oid in self.order:
                op = self.ops[oid]
                if op.operation_type is OperationType.CALLBACK and op.status is OperationStatus.STARTED:
                    self._put(
                        replace(
                            op,
                            status=OperationStatus.SUCCEEDED,
                            callback_details=CallbackDetails(
                                callback_id=op.callback_details.callback_id, result=result
                            ),
                        )
                    )

    def status_of(self, name):
        with self.lock:
            for oid, op in self.ops.items():
                if self.names.get(oid) == name:
                    return op.status
        return None


# --------------------------------------------------------------------------- the workflow
events: list[str] = []
events_lock = threading.Lock()
invocation = {"n": 0}
parallel_recorded = threading.Event()  # invocation 2: P was handed its completion record


def note(text):
    with events_lock:
        events.append(f"inv{invocation['n']}: {text}")


@durable_execution
def handler(event, ctx):
    invocation["n"] += 1

    def big(c):
        first = c.step(lambda _: note("step s0 executes") or BIG, name="s0")
        if invocation["n"] == 2:
            # user code of the branch between two durable operations: slow enough for the siblings
            # to decide the parallel first
            parallel_recorded.wait(10)
            time.sleep(0.3)
            note("branch `big` runs user code AFTER the parallel was recorded")

        def nested_body(cc):
            note("body of nested summarised context runs")
            return cc.step(lambda _: note("step s1 executes") or BIG, name="s1")

        second = c.run_in_child_context(nested_body, name="nested-big")
        note("branch `big` got past its next durable operation")
        return first + second

    def waits(c):
        return c.wait_for_callback(lambda callback_id, _: None, name="wfc")

    result = ctx.parallel(
        [big, waits, waits],
        name="P",
        config=ParallelConfig(completion_config=CompletionConfig(min_successful=2)),
    )
    # ctx.parallel returned: the CONTEXT SUCCEED of P was sent synchronously and its answer merged
    note("P returned " + str([item.status.value for item in result.all]))
    parallel_recorded.set()
    ctx.step(lambda _: time.sleep(1.0), name="main-continues")
    return [item.status.value for item in result.all]


def invoke_with_timeout(backend):
    box = {}

    def run():
        try:
            box["out"] = backend.invoke(handler)
        except BaseException as e:  # noqa: BLE001
            box["err"] = e

    t = threading.Thread(target=run, daemon=True)
    t.start()
    t.join(30)
    assert not t.is_alive(), "invocation hangs"
    assert "err" not in box, f"invocation raised {box.get('err')!r}"
    return box["out"]


def main() -> int:
    backend = Backend()

    out1 = invoke_with_timeout(backend)
    print("invocation 1:", out1)
    assert out1["Status"] == "PENDING", out1
    assert backend.status_of("parallel-branch-0") is OperationStatus.SUCCEEDED, "setup: `big` must be recorded"
    assert backend.status_of("P") is OperationStatus.STARTED, "setup: P must still be open"

    backend.complete_open_callbacks()
    sent_before = len(backend.log)
    out2 = invoke_with_timeout(backend)
    time.sleep(1.0)  # give the left-behind branch time to do whatever it does
    print("invocation 2:", out2)
    for e in events:
        print("   ", e)
    assert out2["Status"] == "SUCCEEDED", out2
    assert backend.status_of("P") is OperationStatus.SUCCEEDED

    returned = next(i for i, e in enumerate(events) if e.startswith("inv2: P returned"))
    assert "STARTED" in events[returned], f"setup: `big` was not left behind: {events[returned]}"
    after = events[returned + 1 :]
    # nothing may be recorded by the left-behind branch (holds) ...
    late = [entry for entry in backend.log[sent_before:] if entry[1] in ("s0", "s1", "nested-big", "parallel-branch-0")]
    assert not late, f"the left-behind branch sent records: {late}"
    # ... and it must be stopped at its next durable operation, before that operation's user function runs
    offending = [e for e in after if "body of nested summarised context runs" in e or "got past" in e]
    assert not offending, (
        "P (min_successful=2) was handed its completion record in invocation 2 with branch `big` reported "
        "STARTED, yet the left-behind branch was not stopped at its next durable operation: "
        f"{offending}. raise_if_in_orphaned_branch() skipped the branch's own context and the parallel "
        "because both are recorded SUCCEEDED, and found nothing left to ask (0ae22a8)."
    )
    print("OK: the left-behind branch was stopped at its next durable operation")
    return 0


if __name__ == "__main__":
    sys.exit(main())
