import logging, sys, time
logging.disable(logging.CRITICAL)
from e2e_harness import *

def scenario_wide():
    be = Backend(delay=0.01)
    @durable_execution
    def handler(event, ctx):
        def item(c, x, i, items):
            c.step(lambda _: "q"*3000, name=f"s{i}", config=StepConfig(step_semantics=StepSemantics.AT_LEAST_ONCE_PER_RETRY))
            return i
        r = ctx.map(list(range(900)), item)
        return r.success_count
    n0 = len(HANDED)
    out = invoke(handler, be)
    errs = check_stream(be, n0, "wide")
    sizes = [len(u) for _, u in be.calls if u]
    print("wide calls", len(be.calls), "max ops", max(sizes), out.get("r"))
    if out.get("hang") or "e" in out or out["r"]["Status"] != "SUCCEEDED":
        errs.append(f"wide: {out}")
    return errs
errs = scenario_wide()
print(errs or "no errors")
