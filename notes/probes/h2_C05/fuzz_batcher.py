"""Randomised stress harness for the checkpoint batcher (scratch tool, not a finding)."""

from __future__ import annotations

import json
import random
import sys
import threading
import time

from aws_durable_execution_sdk_python.exceptions import BackgroundThreadError
from aws_durable_execution_sdk_python.lambda_service import (
    CheckpointOutput,
    CheckpointUpdatedExecutionState,
    OperationAction,
    OperationType,
    OperationUpdate,
    StateOutput,
)
from aws_durable_execution_sdk_python.state import (
    CheckpointBatcherConfig,
    ExecutionState,
    QueuedOperation,
)


class FakeClient:
    def __init__(self, delay=0.0, fail_at=None):
        self.calls = []  # (token, [ids])
        self.n = 0
        self.delay = delay
        self.fail_at = fail_at
        self.lock = threading.Lock()

    def checkpoint(self, durable_execution_arn, checkpoint_token, updates, client_token):
        with self.lock:
            self.n += 1
            n = self.n
        if self.delay:
            time.sleep(self.delay)
        if self.fail_at is not None and n == self.fail_at:
            self.calls.append((checkpoint_token, None, n))
            raise RuntimeError("boom")
        self.calls.append((checkpoint_token, list(updates), n))
        return CheckpointOutput(
            checkpoint_token=f"tok{n}",
            new_execution_state=CheckpointUpdatedExecutionState(),
        )

    def get_execution_state(self, *a, **k):
        return StateOutput()


def size_of(u):
    return len(json.dumps(u.to_dict()).encode())


def run_once(seed):
    rnd = random.Random(seed)
    max_ops = rnd.choice([1, 2, 3, 5, 250])
    max_bytes = rnd.choice([0, 150, 300, 1000, 750 * 1024])
    max_time = rnd.choice([0.0, 0.001, 0.01, 0.05])
    cfg = CheckpointBatcherConfig(
        max_batch_size_bytes=max_bytes,
        max_batch_time_seconds=max_time,
        max_batch_operations=max_ops,
    )
    fail_at = rnd.choice([None, None, None, rnd.randint(1, 10)])
    client = FakeClient(delay=rnd.choice([0, 0, 0.001, 0.005]), fail_at=fail_at)
    st = ExecutionState("arn", "tok0", {}, client, cfg)

    put_order = []
    put_lock = threading.Lock()
    orig_put = st._checkpoint_queue.put

    def rec_put(item, *a, **k):
        with put_lock:
            put_order.append(item)
            orig_put(item, *a, **k)

    st._checkpoint_queue.put = rec_put

    bg = threading.Thread(target=st.checkpoint_batches_forever, daemon=True)
    bg.start()

    nthreads = rnd.choice([1, 2, 4, 8])
    per = rnd.choice([3, 10, 25])
    errors = []
    sync_returns = []  # (update id, len(put_order) at put?, delivered snapshot)
    outcome = {}

    def producer(t):
        r = random.Random(seed * 1000 + t)
        for i in range(per):
            kind = r.random()
            if kind < 0.1:
                u = None
            else:
                pl = "x" * r.choice([0, 1, 10, 100, 200, 400, 2000])
                u = OperationUpdate(
                    operation_id=f"t{t}-{i}",
                    operation_type=OperationType.STEP,
                    action=OperationAction.SUCCEED,
                    payload=pl,
                )
            is_sync = r.random() < 0.5
            try:
                st.create_checkpoint(u, is_sync=is_sync)
                if is_sync and u is not None:
                    # at return: must be delivered
                    delivered = [x.operation_id for c in list(client.calls) if c[1] is not None for x in c[1]]
                    if u.operation_id not in delivered:
                        errors.append(f"sync returned before delivery {u.operation_id}")
                    sync_returns.append((u.operation_id, set(delivered)))
                outcome[(t, i)] = "ok"
            except BackgroundThreadError as e:
                outcome[(t, i)] = "err"
                return
            if r.random() < 0.3:
                time.sleep(r.choice([0, 0.0005, 0.002, 0.02]))

    ths = [threading.Thread(target=producer, args=(t,), daemon=True) for t in range(nthreads)]
    for th in ths:
        th.start()
    deadline = time.time() + 30
    for th in ths:
        th.join(max(0, deadline - time.time()))
    hung = [th for th in ths if th.is_alive()]
    if hung:
        errors.append(f"HANG: {len(hung)} producers blocked; cfg={cfg} fail_at={fail_at}")
    # final flush
    if not hung and fail_at is None:
        st.create_checkpoint(None, is_sync=True)
    st.stop_checkpointing()
    bg.join(5)
    if bg.is_alive():
        errors.append("bg thread alive")

    # invariants
    prev = "tok0"
    delivered = []
    for tok, ups, n in client.calls:
        if tok != prev:
            errors.append(f"token chain broken at call {n}: {tok} != {prev}")
        if ups is None:
            break
        prev = f"tok{n}"
        if len(ups) > max_ops:
            errors.append(f"ops limit exceeded {len(ups)} > {max_ops}")
        tot = sum(size_of(u) for u in ups)
        if tot > max_bytes and len(ups) > 1:
            errors.append(f"size limit exceeded {tot} > {max_bytes} with {len(ups)} updates")
        delivered.extend(u.operation_id for u in ups)
    if len(delivered) != len(set(delivered)):
        errors.append("duplicate delivery")
    handed = [q.operation_update.operation_id for q in put_order if q.operation_update is not None]
    if fail_at is None and not hung:
        if delivered != handed:
            errors.append(f"order/loss: delivered != handed\n {delivered}\n {handed}")
    else:
        if delivered != handed[: len(delivered)]:
            errors.append("order mismatch (prefix)")
    # sync-return: all handed before it delivered
    pos = {oid: i for i, oid in enumerate(handed)}
    for oid, dset in sync_returns:
        for earlier in handed[: pos[oid]]:
            if earlier not in dset:
                errors.append(f"{earlier} handed before sync {oid} but not delivered when it returned")
                break
    return errors, cfg, nthreads, per, fail_at, len(client.calls)


if __name__ == "__main__":
    start = int(sys.argv[1]) if len(sys.argv) > 1 else 0
    count = int(sys.argv[2]) if len(sys.argv) > 2 else 200
    bad = 0
    for s in range(start, start + count):
        errs, cfg, nt, per, fa, ncalls = run_once(s)
        if errs:
            bad += 1
            print("SEED", s, cfg, nt, per, fa, ncalls)
            for e in errs[:5]:
                print("   ", e)
    print("done, bad =", bad)
