"""Forced interleavings around the failure / stop drains of the checkpoint batcher (scratch tool)."""

from __future__ import annotations

import logging
import sys
import threading
import time

from aws_durable_execution_sdk_python.exceptions import BackgroundThreadError
from aws_durable_execution_sdk_python.lambda_service import (
    CheckpointOutput,
    CheckpointUpdatedExecutionState,
    OperationAction,
    OperationType,
    OperationUpdate,
    StateOutput,
)
from aws_durable_execution_sdk_python.state import CheckpointBatcherConfig, ExecutionState

logging.disable(logging.CRITICAL)


def upd(i, size=0):
    return OperationUpdate(operation_id=f"op{i}", operation_type=OperationType.STEP, action=OperationAction.SUCCEED, payload="x" * size)


class Client:
    def __init__(self):
        self.calls = []
        self.fail_next = False
        self.entered = threading.Event()
        self.release = threading.Event()
        self.release.set()

    def checkpoint(self, durable_execution_arn, checkpoint_token, updates, client_token):
        self.entered.set()
        self.release.wait(10)
        if self.fail_next:
            raise RuntimeError("boom")
        self.calls.append((checkpoint_token, [u.operation_id for u in updates]))
        return CheckpointOutput(f"t{len(self.calls)}", CheckpointUpdatedExecutionState())

    def get_execution_state(self, *a, **k):
        return StateOutput()


def run_thread(fn):
    res = {}

    def w():
        try:
            fn()
            res["ok"] = True
        except BaseException as e:  # noqa: BLE001
            res["err"] = e

    t = threading.Thread(target=w, daemon=True)
    t.start()
    return t, res


errors = []


def expect(cond, msg):
    if not cond:
        errors.append(msg)
        print("FAIL:", msg)


def gated_put(st):
    """Make the next put() on the main queue wait for a gate (the producer is 'pre-empted' before its put)."""
    gate = threading.Event()
    reached = threading.Event()
    orig = st._checkpoint_queue.put
    armed = [True]

    def put(item, *a, **k):
        if armed[0] and threading.current_thread().name == "victim":
            armed[0] = False
            reached.set()
            gate.wait(10)
        return orig(item, *a, **k)

    st._checkpoint_queue.put = put
    return gate, reached


# (a) producer passes the failure check, bg fails and drains, then the producer puts
def scenario_a():
    c = Client()
    st = ExecutionState("arn", "t0", {}, c, CheckpointBatcherConfig(max_batch_time_seconds=0.0))
    gate, reached = gated_put(st)
    bg = threading.Thread(target=st.checkpoint_batches_forever, daemon=True)
    bg.start()
    res = {}

    def victim():
        try:
            st.create_checkpoint(upd(1))
            res["ok"] = True
        except BaseException as e:  # noqa: BLE001
            res["err"] = e

    v = threading.Thread(target=victim, name="victim", daemon=True)
    v.start()
    reached.wait(5)
    c.fail_next = True
    t2, r2 = run_thread(lambda: st.create_checkpoint(upd(2)))
    t2.join(5)
    bg.join(5)
    expect(not bg.is_alive(), "(a) bg thread should have ended after failure")
    gate.set()
    v.join(5)
    expect(not v.is_alive(), "(a) victim blocked forever after failure drain")
    expect(isinstance(res.get("err"), BackgroundThreadError), f"(a) victim outcome {res}")


# (b) same with an orderly stop
def scenario_b():
    c = Client()
    st = ExecutionState("arn", "t0", {}, c, CheckpointBatcherConfig(max_batch_time_seconds=0.0))
    gate, reached = gated_put(st)
    bg = threading.Thread(target=st.checkpoint_batches_forever, daemon=True)
    bg.start()
    res = {}

    def victim():
        try:
            st.create_checkpoint(upd(1))
            res["ok"] = True
        except BaseException as e:  # noqa: BLE001
            res["err"] = e

    v = threading.Thread(target=victim, name="victim", daemon=True)
    v.start()
    reached.wait(5)
    st.stop_checkpointing()
    bg.join(5)
    gate.set()
    v.join(5)
    expect(not v.is_alive(), "(b) victim blocked forever after stop drain")
    expect(isinstance(res.get("err"), BackgroundThreadError), f"(b) victim outcome {res}")
    expect(c.calls == [], "(b) nothing should have been sent")


# (c) sync caller parked in the overflow queue while the running call fails / while stop arrives
def scenario_c(mode):
    c = Client()
    st = ExecutionState("arn", "t0", {}, c, CheckpointBatcherConfig(max_batch_size_bytes=300, max_batch_time_seconds=0.3))
    bg = threading.Thread(target=st.checkpoint_batches_forever, daemon=True)
    c.release.clear()
    t1, r1 = run_thread(lambda: st.create_checkpoint(upd(1, 100)))
    time.sleep(0.02)
    t2, r2 = run_thread(lambda: st.create_checkpoint(upd(2, 250)))  # goes to overflow
    time.sleep(0.02)
    t3, r3 = run_thread(lambda: st.create_checkpoint(upd(3, 10)))  # stays in the main queue
    time.sleep(0.02)
    bg.start()
    c.entered.wait(5)
    expect(st._overflow_queue.qsize() == 1, f"(c) expected op2 in overflow, got {st._overflow_queue.qsize()}")
    if mode == "fail":
        c.fail_next = True
    else:
        st.stop_checkpointing()
    c.release.set()
    for t in (t1, t2, t3):
        t.join(5)
    expect(not any(t.is_alive() for t in (t1, t2, t3)), f"(c/{mode}) a caller is blocked forever")
    if mode == "fail":
        expect(all("err" in r for r in (r1, r2, r3)), f"(c/fail) outcomes {r1} {r2} {r3}")
    else:
        expect("ok" in r1 and "err" in r2 and "err" in r3, f"(c/stop) outcomes {r1} {r2} {r3}")
        expect(c.calls == [("t0", ["op1"])], f"(c/stop) calls {c.calls}")
    bg.join(5)
    expect(not bg.is_alive(), "(c) bg alive")


# (d) order across overflow boundary with oversized updates
def scenario_d():
    c = Client()
    st = ExecutionState("arn", "t0", {}, c, CheckpointBatcherConfig(max_batch_size_bytes=300, max_batch_time_seconds=0.2, max_batch_operations=3))
    sizes = [10, 10, 500, 10, 600, 700, 10, 10, 10, 10, 250, 10]
    for i, s in enumerate(sizes):
        st.create_checkpoint(upd(i, s), is_sync=False)
    bg = threading.Thread(target=st.checkpoint_batches_forever, daemon=True)
    bg.start()
    st.create_checkpoint(upd(99, 1))
    flat = [x for _, ids in c.calls for x in ids]
    expect(flat == [f"op{i}" for i in range(len(sizes))] + ["op99"], f"(d) order {c.calls}")
    toks = [t for t, _ in c.calls]
    expect(toks == [f"t{i}" for i in range(len(toks))], f"(d) tokens {toks}")
    expect(all(len(ids) <= 3 for _, ids in c.calls), f"(d) op limit {c.calls}")
    st.stop_checkpointing()
    bg.join(5)
    print("(d) batches:", [ids for _, ids in c.calls])


scenario_a()
scenario_b()
scenario_c("fail")
scenario_c("stop")
scenario_d()
print("errors:" if errors else "all forced schedules behave as the property demands", errors)
sys.exit(1 if errors else 0)
