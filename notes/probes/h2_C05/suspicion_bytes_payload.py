"""Suspicion check (NOT a finding: the trigger violates the declared type of OperationUpdate.payload / SerDes.serialize)."""
import logging, threading
logging.disable(logging.CRITICAL)
from aws_durable_execution_sdk_python.lambda_service import *
from aws_durable_execution_sdk_python.state import ExecutionState
class C:
    def checkpoint(self, **k):
        return CheckpointOutput("t", CheckpointUpdatedExecutionState())
    def get_execution_state(self, **k):
        return StateOutput()
st = ExecutionState("arn", "t0", {}, C())
bg = threading.Thread(target=st.checkpoint_batches_forever, daemon=True); bg.start()
r = {}
def p():
    try:
        st.create_checkpoint(OperationUpdate("a", OperationType.STEP, OperationAction.SUCCEED, payload=b"bytes"))
        r["ok"] = 1
    except BaseException as e:
        r["err"] = e
t = threading.Thread(target=p, daemon=True); t.start(); t.join(3)
print("caller blocked:", t.is_alive(), "bg alive:", bg.is_alive(), r)
