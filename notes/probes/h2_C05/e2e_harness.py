"""End-to-end stream checks through durable_execution with an in-memory backend (scratch tool)."""

from __future__ import annotations

import datetime
import json
import sys
import threading
import time

from aws_durable_execution_sdk_python import state as state_mod
from aws_durable_execution_sdk_python.config import (
    CompletionConfig,
    Duration,
    MapConfig,
    ParallelConfig,
    StepConfig,
    StepSemantics,
)
from aws_durable_execution_sdk_python.context import DurableContext
from aws_durable_execution_sdk_python.execution import (
    DurableExecutionInvocationInputWithClient,
    InitialExecutionState,
    durable_execution,
)
from aws_durable_execution_sdk_python.lambda_service import (
    CallbackDetails,
    CheckpointOutput,
    CheckpointUpdatedExecutionState,
    ContextDetails,
    ExecutionDetails,
    Operation,
    OperationAction,
    OperationStatus,
    OperationType,
    StateOutput,
    StepDetails,
    WaitDetails,
)

MAX_OPS = 250
MAX_BYTES = 750 * 1024


class Backend:
    def __init__(self, fail_at=None, delay=0.0):
        self.ops: dict[str, Operation] = {
            "exec": Operation(
                operation_id="exec",
                operation_type=OperationType.EXECUTION,
                status=OperationStatus.STARTED,
                execution_details=ExecutionDetails(input_payload="{}"),
            )
        }
        self.calls = []  # (token, updates)
        self.token_n = 0
        self.token = "tok0"
        self.fail_at = fail_at
        self.delay = delay
        self.errors = []

    def checkpoint(self, durable_execution_arn, checkpoint_token, updates, client_token):
        n = len(self.calls) + 1
        if self.delay:
            time.sleep(self.delay)
        if checkpoint_token != self.token:
            self.errors.append(f"call {n}: token {checkpoint_token} != expected {self.token}")
        if self.fail_at == n:
            self.calls.append((checkpoint_token, None))
            raise RuntimeError("backend down")
        self.calls.append((checkpoint_token, list(updates)))
        if len(updates) > MAX_OPS:
            self.errors.append(f"call {n}: {len(updates)} updates > {MAX_OPS}")
        tot = sum(len(json.dumps(u.to_dict()).encode()) for u in updates)
        if tot > MAX_BYTES and len(updates) > 1:
            self.errors.append(f"call {n}: {tot} bytes > {MAX_BYTES} in {len(updates)} updates")
        changed = []
        for u in updates:
            prev = self.ops.get(u.operation_id)
            if u.parent_id and u.parent_id not in self.ops:
                self.errors.append(f"call {n}: {u.operation_id} {u.action} arrives before its parent {u.parent_id} was started")
            if u.parent_id and self.ops.get(u.parent_id) and self.ops[u.parent_id].status in (
                OperationStatus.SUCCEEDED,
                OperationStatus.FAILED,
            ):
                self.errors.append(f"call {n}: {u.operation_id} {u.action} arrives after parent {u.parent_id} completed")
            if prev and prev.status in (OperationStatus.SUCCEEDED, OperationStatus.FAILED):
                self.errors.append(f"call {n}: {u.operation_id} {u.action} after terminal {prev.status}")
            if u.action is OperationAction.START and prev and prev.status is OperationStatus.STARTED:
                self.errors.append(f"call {n}: duplicate START {u.operation_id}")
            if u.action is not OperationAction.START and prev is None and u.operation_type in (OperationType.CONTEXT,):
                self.errors.append(f"call {n}: {u.operation_id} {u.action} without START")
            status = {
                OperationAction.START: OperationStatus.STARTED,
                OperationAction.SUCCEED: OperationStatus.SUCCEEDED,
                OperationAction.FAIL: OperationStatus.FAILED,
                OperationAction.RETRY: OperationStatus.PENDING,
            }[u.action]
            kw = {}
            if u.operation_type is OperationType.STEP:
                att = prev.step_details.attempt if prev and prev.step_details else 0
                if u.action in (OperationAction.RETRY, OperationAction.SUCCEED, OperationAction.FAIL):
                    att += 1
                nts = None
                if u.action is OperationAction.RETRY:
                    nts = datetime.datetime.now(tz=datetime.UTC) + datetime.timedelta(
                        seconds=u.step_options.next_attempt_delay_seconds
                    )
                kw["step_details"] = StepDetails(attempt=att, next_attempt_timestamp=nts, result=u.payload, error=u.error)
            elif u.operation_type is OperationType.CONTEXT:
                kw["context_details"] = ContextDetails(
                    replay_children=bool(u.context_options and u.context_options.replay_children),
                    result=u.payload,
                    error=u.error,
                )
            elif u.operation_type is OperationType.WAIT:
                kw["wait_details"] = WaitDetails(
                    scheduled_end_timestamp=datetime.datetime.now(tz=datetime.UTC)
                    + datetime.timedelta(seconds=u.wait_options.wait_seconds)
                )
            elif u.operation_type is OperationType.CALLBACK:
                kw["callback_details"] = CallbackDetails(callback_id="cb-" + u.operation_id[:8])
            op = Operation(
                operation_id=u.operation_id,
                operation_type=u.operation_type,
                status=status,
                parent_id=u.parent_id,
                name=u.name,
                sub_type=u.sub_type,
                **kw,
            )
            self.ops[u.operation_id] = op
            changed.append(op)
        self.token_n += 1
        self.token = f"tok{self.token_n}"
        return CheckpointOutput(
            checkpoint_token=self.token,
            new_execution_state=CheckpointUpdatedExecutionState(operations=changed),
        )

    def get_execution_state(self, durable_execution_arn, checkpoint_token, next_marker, max_items=1000):
        return StateOutput()

    # time passes: waits complete, pending steps become ready
    def advance(self):
        for k, op in list(self.ops.items()):
            if op.operation_type is OperationType.WAIT and op.status is OperationStatus.STARTED:
                self.ops[k] = Operation(op.operation_id, op.operation_type, OperationStatus.SUCCEEDED, parent_id=op.parent_id, name=op.name, wait_details=op.wait_details)
            if op.operation_type is OperationType.STEP and op.status is OperationStatus.PENDING:
                self.ops[k] = Operation(op.operation_id, op.operation_type, OperationStatus.READY, parent_id=op.parent_id, name=op.name, step_details=StepDetails(attempt=op.step_details.attempt, error=op.step_details.error))


# record hand-over order
HANDED = []
_handed_lock = threading.Lock()
_orig_enqueue = state_mod.ExecutionState._enqueue_checkpoint


def _rec_enqueue(self, operation_update, is_sync):
    with _handed_lock:
        ev = _orig_enqueue(self, operation_update, is_sync)
        if operation_update is not None:
            HANDED.append((operation_update.operation_id, operation_update.action))
        return ev


state_mod.ExecutionState._enqueue_checkpoint = _rec_enqueue


class LC:
    aws_request_id = "r"
    log_group_name = "g"
    log_stream_name = "s"
    function_name = "f"
    memory_limit_in_mb = "128"
    function_version = "1"
    invoked_function_arn = "arn"
    tenant_id = None
    client_context = None
    identity = None

    def get_remaining_time_in_millis(self):
        return 100000

    def log(self, *a):
        pass


def invoke(handler, backend: Backend, timeout=120):
    ev = DurableExecutionInvocationInputWithClient(
        durable_execution_arn="arn:x",
        checkpoint_token=backend.token,
        initial_execution_state=InitialExecutionState(operations=list(backend.ops.values()), next_marker=""),
        service_client=backend,
    )
    out = {}

    def run():
        try:
            out["r"] = handler(ev, LC())
        except BaseException as e:  # noqa: BLE001
            out["e"] = e

    t = threading.Thread(target=run, daemon=True)
    t.start()
    t.join(timeout)
    if t.is_alive():
        out["hang"] = True
    return out


def check_stream(backend: Backend, start_idx=0, label="", expect_all=True):
    errs = list(backend.errors)
    delivered = [(u.operation_id, u.action) for tok, ups in backend.calls if ups for u in ups]
    handed = HANDED[start_idx:]
    if expect_all:
        if delivered[-len(handed):] != handed if handed else False:
            errs.append(f"{label}: delivered sequence differs from handed sequence (handed {len(handed)}, delivered {len(delivered)})")
    if len(set(delivered)) != len(delivered):
        # RETRY / START of several attempts are legitimately repeated; only terminal dups matter
        seen = set()
        for d in delivered:
            if d in seen and d[1] in (OperationAction.SUCCEED, OperationAction.FAIL):
                errs.append(f"{label}: duplicate {d}")
            seen.add(d)
    return errs


def scenario_big_map():
    be = Backend()

    @durable_execution
    def handler(event, ctx: DurableContext):
        def item(c: DurableContext, x, i, items):
            a = c.step(lambda _: "v" * 8000, name=f"s{i}", config=StepConfig(step_semantics=StepSemantics.AT_LEAST_ONCE_PER_RETRY))
            b = c.step(lambda _: i, name=f"t{i}")
            return b

        r = ctx.map(list(range(600)), item, config=MapConfig(max_concurrency=32))
        return r.success_count

    n0 = len(HANDED)
    out = invoke(handler, be)
    errs = check_stream(be, n0, "big_map")
    if out.get("hang") or "e" in out or out["r"]["Status"] != "SUCCEEDED":
        errs.append(f"big_map: outcome {out}")
    sizes = [len(u) for _, u in be.calls if u]
    print("big_map calls", len(be.calls), "max ops", max(sizes), "result", out.get("r"))
    return errs


def scenario_oversize_mix():
    be = Backend(delay=0.002)

    @durable_execution
    def handler(event, ctx: DurableContext):
        def mk(i):
            def br(c: DurableContext):
                for j in range(4):
                    size = 800 * 1024 if (i + j) % 3 == 0 else 200 * 1024 if (i + j) % 3 == 1 else 10
                    c.step(lambda _: "z" * size, name=f"b{i}-{j}", config=StepConfig(step_semantics=StepSemantics.AT_LEAST_ONCE_PER_RETRY))
                return i
            return br

        r = ctx.parallel([mk(i) for i in range(12)])
        return r.success_count

    n0 = len(HANDED)
    out = invoke(handler, be)
    errs = check_stream(be, n0, "oversize_mix")
    if out.get("hang") or "e" in out or out["r"]["Status"] != "SUCCEEDED":
        errs.append(f"oversize_mix: outcome {str(out)[:300]}")
    print("oversize_mix calls", len(be.calls), "result", out.get("r"))
    return errs


def scenario_failure(fail_at):
    be = Backend(fail_at=fail_at, delay=0.001)

    @durable_execution
    def handler(event, ctx: DurableContext):
        def item(c: DurableContext, x, i, items):
            c.step(lambda _: "v" * 100, name=f"s{i}")
            c.wait(Duration.from_seconds(1))
            return i

        r = ctx.map(list(range(40)), item, config=MapConfig(max_concurrency=8))
        return r.success_count

    n0 = len(HANDED)
    out = invoke(handler, be, timeout=60)
    errs = check_stream(be, n0, f"failure@{fail_at}", expect_all=False)
    if out.get("hang"):
        errs.append(f"failure@{fail_at}: HANG")
    if "r" in out and out["r"]["Status"] in ("SUCCEEDED", "PENDING"):
        errs.append(f"failure@{fail_at}: reported {out['r']} after failed checkpoint")
    print(f"failure@{fail_at}", "calls", len(be.calls), "outcome", str(out)[:120])
    return errs


def scenario_early_completion_nested():
    be = Backend(delay=0.001)
    gate = threading.Event()

    @durable_execution
    def handler(event, ctx: DurableContext):
        def slow(c: DurableContext):
            c.step(lambda _: "a", name="slow-1")
            gate.wait(5)
            # parent completed meanwhile: everything below must be rejected, nothing may reach the backend
            c.step(lambda _: "b", name="slow-2")

            def inner(cc: DurableContext, x, i, items):
                return cc.step(lambda _: i, name=f"in{i}")

            c.map([1, 2, 3], inner)
            return "slow"

        def fast(c: DurableContext):
            return c.step(lambda _: "fast", name="fast-1")

        r = ctx.parallel([slow, fast], config=ParallelConfig(completion_config=CompletionConfig(min_successful=1)))
        gate.set()
        ctx.step(lambda _: "after", name="after")
        time.sleep(0.3)
        return r.success_count

    n0 = len(HANDED)
    out = invoke(handler, be)
    time.sleep(0.5)
    errs = check_stream(be, n0, "early_nested")
    if out.get("hang") or "e" in out or out["r"]["Status"] != "SUCCEEDED":
        errs.append(f"early_nested: outcome {out}")
    print("early_nested calls", len(be.calls), "result", out.get("r"))
    return errs


def scenario_multi_invocation_waits():
    be = Backend()

    @durable_execution
    def handler(event, ctx: DurableContext):
        def item(c: DurableContext, x, i, items):
            c.step(lambda _: i, name=f"s{i}")
            c.wait(Duration.from_seconds(1 + i % 2))
            return c.step(lambda _: i * 2, name=f"u{i}")

        r = ctx.map(list(range(20)), item, config=MapConfig(max_concurrency=5))
        return r.success_count

    errs = []
    for inv in range(6):
        n0 = len(HANDED)
        out = invoke(handler, be)
        if out.get("hang") or "e" in out:
            errs.append(f"multi_inv {inv}: {out}")
            break
        print("multi_inv", inv, out["r"]["Status"], "calls", len(be.calls))
        if out["r"]["Status"] != "PENDING":
            break
        be.advance()
    errs += check_stream(be, 0, "multi_inv", expect_all=False)
    if out["r"]["Status"] != "SUCCEEDED":
        errs.append(f"multi_inv: final {out['r']}")
    return errs


if __name__ == "__main__":
    import logging

    logging.disable(logging.CRITICAL)
    all_errs = []
    which = sys.argv[1:] or ["big", "over", "fail", "early", "multi"]
    if "big" in which:
        all_errs += scenario_big_map()
    if "over" in which:
        all_errs += scenario_oversize_mix()
    if "fail" in which:
        for k in (1, 2, 3, 5, 8):
            all_errs += scenario_failure(k)
    if "early" in which:
        for _ in range(5):
            all_errs += scenario_early_completion_nested()
    if "multi" in which:
        all_errs += scenario_multi_invocation_waits()
    print("ERRORS:" if all_errs else "no errors")
    for e in all_errs[:40]:
        print("  ", e)
    sys.exit(1 if all_errs else 0)
