"""C10 finding 1: an orphaned branch is NOT stopped at its next durable operation when that
operation is already recorded as STARTED in the history of the re-invocation - its user function runs.

Clause violated:
    "a still-running orphaned branch is stopped at its next durable operation before that
     operation's user function runs"  (history handed to a re-invocation / crash point /
     parent completes while the surviving branch is between two operations).

Workflow (legal public API only):

    ctx.parallel([fast_branch, slow_branch], config=ParallelConfig(completion_config=first_successful()))

    fast_branch : ctx.step(fast)
    slow_branch : <plain python between operations> ; then ONE durable operation X

Invocation 1 is cut (sandbox crash / Lambda timeout) while `fast` and X's user function are both running,
so the backend holds: parallel STARTED, both branch contexts STARTED, fast STARTED, X STARTED.
Invocation 2 is handed exactly that history.  `fast` is re-run and succeeds, the parallel reaches
min_successful=1 and is handed its completion record (CONTEXT SUCCEED accepted by the backend).
Only THEN does the slow branch (still busy between two operations) reach X.

Expected by C10: X raises OrphanedChildException before X's user function is entered.
Observed: for X in {step (default AT_LEAST_ONCE), wait_for_condition, run_in_child_context}
the user function runs, because the only orphan gate is ExecutionState.create_checkpoint and these
code paths issue no checkpoint before calling the user function when the operation is STARTED in history
(step.py: StepOperationExecutor.check_result_status "Ready to execute if STARTED + AT_LEAST_ONCE",
 wait_for_condition.py: check_result_status "if not checkpointed_result.is_started()",
 child.py: ChildOperationExecutor.check_result_status "if not checkpointed_result.is_existent()").

A control variant (X not in history) shows the gate works when a START checkpoint is issued.

Run:  PYTHONPATH=/tmp/wt/h1_C10/src /venv/bin/python /tmp/wt/h1_C10/finding_1.py
"""

from __future__ import annotations

import copy
import datetime
import os
import sys
import threading
import time
from types import SimpleNamespace

from aws_durable_execution_sdk_python.config import CompletionConfig, ParallelConfig
from aws_durable_execution_sdk_python.execution import (
    DurableExecutionInvocationInputWithClient,
    InitialExecutionState,
    durable_execution,
)
from aws_durable_execution_sdk_python.lambda_service import (
    CheckpointOutput,
    CheckpointUpdatedExecutionState,
    ContextDetails,
    ExecutionDetails,
    Operation,
    OperationAction,
    OperationStatus,
    OperationType,
    StateOutput,
    StepDetails,
    WaitDetails,
)
from aws_durable_execution_sdk_python.config import Duration
from aws_durable_execution_sdk_python.waits import (
    WaitForConditionConfig,
    WaitForConditionDecision,
)

TIMEOUT = 20.0


# --------------------------------------------------------------------------- fake backend
class FakeBackend:
    """In-memory backend: records every update in arrival order and keeps the operation table."""

    def __init__(self, operations: dict[str, Operation] | None = None):
        self.lock = threading.Lock()
        self.ops: dict[str, Operation] = dict(operations or {})
        self.log: list = []  # OperationUpdate in arrival order
        self.token = 0
        self.seen = threading.Condition(self.lock)

    def checkpoint(self, durable_execution_arn, checkpoint_token, updates, client_token):
        with self.lock:
            changed = []
            for u in updates:
                self.log.append(u)
                changed.append(self._apply(u))
            self.token += 1
            self.seen.notify_all()
            return CheckpointOutput(
                checkpoint_token=f"tok-{self.token}",
                new_execution_state=CheckpointUpdatedExecutionState(
                    operations=changed, next_marker=None
                ),
            )

    def get_execution_state(self, durable_execution_arn, checkpoint_token, next_marker, max_items=1000):
        return StateOutput(operations=[], next_marker=None)

    def _apply(self, u) -> Operation:
        old = self.ops.get(u.operation_id)
        status = {
            OperationAction.START: OperationStatus.STARTED,
            OperationAction.SUCCEED: OperationStatus.SUCCEEDED,
            OperationAction.FAIL: OperationStatus.FAILED,
            OperationAction.RETRY: OperationStatus.PENDING,
            OperationAction.CANCEL: OperationStatus.CANCELLED,
        }[u.action]
        kw = dict(
            operation_id=u.operation_id,
            operation_type=u.operation_type,
            status=status,
            parent_id=u.parent_id,
            name=u.name,
            sub_type=u.sub_type,
            start_timestamp=(old.start_timestamp if old else datetime.datetime.now(datetime.UTC)),
        )
        if u.operation_type is OperationType.STEP:
            attempt = old.step_details.attempt if old and old.step_details else 0
            kw["step_details"] = StepDetails(attempt=attempt, result=u.payload, error=u.error)
        elif u.operation_type is OperationType.CONTEXT:
            kw["context_details"] = ContextDetails(
                replay_children=bool(u.context_options and u.context_options.replay_children),
                result=u.payload,
                error=u.error,
            )
        elif u.operation_type is OperationType.WAIT:
            kw["wait_details"] = WaitDetails(
                scheduled_end_timestamp=datetime.datetime.now(datetime.UTC)
                + datetime.timedelta(seconds=u.wait_options.wait_seconds if u.wait_options else 1)
            )
        op = Operation(**kw)
        self.ops[u.operation_id] = op
        return op

    # helpers -----------------------------------------------------------------------------
    def wait_for(self, predicate, timeout=TIMEOUT) -> bool:
        with self.lock:
            return self.seen.wait_for(lambda: predicate(self), timeout=timeout)

    def find(self, name, action=None):
        return [u for u in self.log if u.name == name and (action is None or u.action is action)]


EXECUTION_OP = Operation(
    operation_id="exec-0",
    operation_type=OperationType.EXECUTION,
    status=OperationStatus.STARTED,
    execution_details=ExecutionDetails(input_payload="{}"),
)


def invoke(handler, backend: FakeBackend, history: list[Operation]):
    """Drive the real durable_execution wrapper in a thread; returns (thread, result-holder)."""
    event = DurableExecutionInvocationInputWithClient(
        durable_execution_arn="arn:c10",
        checkpoint_token="tok-0",  # noqa: S106
        initial_execution_state=InitialExecutionState(operations=history, next_marker=""),
        service_client=backend,
    )
    out: dict = {}

    def run():
        try:
            out["result"] = durable_execution(handler)(event, SimpleNamespace(aws_request_id="r"))
        except BaseException as e:  # noqa: BLE001
            out["error"] = e

    t = threading.Thread(target=run, daemon=True)
    t.start()
    return t, out


# --------------------------------------------------------------------------- the scenario
class Scenario:
    """One variant = one durable operation X placed in the slow branch."""

    def __init__(self, name: str, make_x, x_in_history: bool):
        self.name = name
        self.make_x = make_x
        self.x_in_history = x_in_history
        self.phase = 1
        self.crash = threading.Event()  # never set before the end: invocation 1 is "killed" while blocked
        self.parent_done = threading.Event()  # invocation 2: backend accepted the parallel's SUCCEED
        self.slow_branch_finished = threading.Event()
        self.calls: list[tuple[int, str, bool]] = []  # (phase, which user function, parent already completed?)
        self.slow_exit: list[str] = []

    # user functions ------------------------------------------------------------------
    def user(self, which: str, phase: int):
        self.calls.append((phase, which, self.parent_done.is_set()))
        if phase == 1:
            self.crash.wait()  # the sandbox dies while we are in here
        return which

    def handler(self, event, ctx):
        phase = self.phase
        sc = self

        def fast_branch(c):
            return c.step(lambda _s: sc.user("fast", phase), name="fast")

        def slow_branch(c):
            try:
                # ---- plain python between two durable operations ----
                if phase == 1 and not sc.x_in_history:
                    sc.crash.wait()  # control: invocation 1 dies before X is ever started
                if phase == 2:
                    # still busy here while the parallel is handed its completion record
                    if not sc.parent_done.wait(TIMEOUT):
                        sc.slow_exit.append("INCONCLUSIVE: parent never completed")
                        return None
                # ---- the branch's next durable operation ----
                r = sc.make_x(sc, c, phase)
                sc.slow_exit.append("returned")
                return r
            except BaseException as e:
                sc.slow_exit.append(type(e).__name__)
                raise
            finally:
                if phase == 2:
                    sc.slow_branch_finished.set()

        res = ctx.parallel(
            [fast_branch, slow_branch],
            name="par",
            config=ParallelConfig(completion_config=CompletionConfig.first_successful()),
        )
        return {"success": res.success_count, "started": res.started_count}

    # driver --------------------------------------------------------------------------
    def run(self) -> tuple[bool, str]:
        # ---------------- invocation 1: cut while user functions are running ----------------
        b1 = FakeBackend({EXECUTION_OP.operation_id: EXECUTION_OP})
        self.phase = 1
        invoke(self.handler, b1, [EXECUTION_OP])

        def inv1_ready(b):
            started = {u.name for u in b.log if u.action is OperationAction.START}
            need = {"par", "parallel-branch-0", "parallel-branch-1", "fast"}
            if self.x_in_history:
                need.add("X")
            return need <= started

        if not b1.wait_for(inv1_ready):
            return False, f"INCONCLUSIVE: invocation 1 did not reach the crash point: {[(u.name, u.action.name) for u in b1.log]}"
        time.sleep(0.2)
        with b1.lock:
            history = [copy.deepcopy(op) for op in b1.ops.values()]  # exec op first (insertion order)
        statuses = {op.name: op.status.name for op in history if op.name}
        assert all(s == "STARTED" for s in statuses.values()), statuses

        # ---------------- invocation 2: re-invoked with that history ----------------
        b2 = FakeBackend({op.operation_id: op for op in history})
        par_id = next(op.operation_id for op in history if op.name == "par")

        def watch_parent():
            b2.wait_for(
                lambda b: any(
                    u.operation_id == par_id and u.action is OperationAction.SUCCEED for u in b.log
                ),
                timeout=TIMEOUT,
            ) and self.parent_done.set()

        threading.Thread(target=watch_parent, daemon=True).start()
        self.phase = 2
        t2, out2 = invoke(self.handler, b2, history)
        t2.join(TIMEOUT)
        if t2.is_alive() or "error" in out2:
            return False, f"INCONCLUSIVE: invocation 2 did not finish: {out2}"
        if not self.slow_branch_finished.wait(TIMEOUT):
            return False, "INCONCLUSIVE: orphaned branch never finished"

        late_calls = [c for c in self.calls if c[0] == 2 and c[1].startswith("X") and c[2]]
        log2 = [(u.name, u.action.name) for u in b2.log]
        after_parent = log2[log2.index(("par", "SUCCEED")) + 1 :]
        detail = (
            f"invocation-2 result={out2.get('result')}; backend log={log2}; "
            f"orphan branch ended with {self.slow_exit}; user calls after parent completion={late_calls}"
        )
        assert not after_parent, f"updates reached the backend after the parent's completion: {after_parent}"
        return (not late_calls), detail


# X variants ---------------------------------------------------------------------------
def x_step(sc: Scenario, c, phase):
    return c.step(lambda _s: sc.user("X.step-function", phase), name="X")


def x_wait_for_condition(sc: Scenario, c, phase):
    return c.wait_for_condition(
        check=lambda _state, _cc: sc.user("X.check-function", phase),
        config=WaitForConditionConfig(
            wait_strategy=lambda _state, _attempt: WaitForConditionDecision.stop_polling(),
            initial_state="s0",
        ),
        name="X",
    )


def x_child_context(sc: Scenario, c, phase):
    def body(child):
        sc.user("X.child-context-body", phase)
        return child.step(lambda _s: sc.user("inner-step", phase), name="inner")

    return c.run_in_child_context(body, name="X")


def suspend_variant(kind: str) -> tuple[bool, str]:
    """No crash at all: invocation 1 suspends regularly (both branches sit in ctx.wait), the backend
    completes the short wait and re-invokes.  The slow branch's first operation is a child context
    whose result is > 256KB, i.e. it is recorded SUCCEEDED with replay_children=True and its body is
    re-executed on replay - without any orphan check (kind="replay_children").
    kind="started": the child context itself contains a long ctx.wait, so it is recorded STARTED when
    invocation 1 suspends, and its body is entered again on replay - again without any orphan check."""
    parent_done = threading.Event()
    finished = threading.Event()
    calls: list[tuple[int, str, bool]] = []
    slow_exit: list[str] = []
    phase_box = [1]

    def handler(event, ctx):
        phase = phase_box[0]

        def fast_branch(c):
            c.wait(Duration.from_seconds(1), name="short-wait")
            return "fast"

        def big_body(child):
            calls.append((phase, "X.child-context-body", parent_done.is_set()))
            child.step(lambda _s: calls.append((phase, "inner-step-function", parent_done.is_set())), name="inner")
            if kind == "started":
                child.wait(Duration.from_seconds(3600), name="inner-long-wait")
            return "x" * 300_000

        def slow_branch(c):
            try:
                if phase == 2 and not parent_done.wait(TIMEOUT):
                    slow_exit.append("INCONCLUSIVE")
                    return None
                c.run_in_child_context(big_body, name="X")
                c.wait(Duration.from_seconds(3600), name="long-wait")
                slow_exit.append("returned")
                return "slow"
            except BaseException as e:
                if phase == 2:
                    slow_exit.append(type(e).__name__)
                raise
            finally:
                if phase == 2:
                    finished.set()

        res = ctx.parallel(
            [fast_branch, slow_branch],
            name="par",
            config=ParallelConfig(completion_config=CompletionConfig.first_successful()),
        )
        return {"success": res.success_count, "started": res.started_count}

    b1 = FakeBackend({EXECUTION_OP.operation_id: EXECUTION_OP})
    t1, out1 = invoke(handler, b1, [EXECUTION_OP])
    t1.join(TIMEOUT)
    if t1.is_alive() or out1.get("result", {}).get("Status") != "PENDING":
        return False, f"INCONCLUSIVE: invocation 1 should have suspended: {out1}"
    history = [copy.deepcopy(op) for op in b1.ops.values()]
    x = next(op for op in history if op.name == "X")
    if kind == "replay_children":
        assert x.status is OperationStatus.SUCCEEDED and x.context_details.replay_children, x
    else:
        assert x.status is OperationStatus.STARTED, x
    # the backend delivers: the 1-second timer fired
    history = [
        (
            Operation(
                operation_id=op.operation_id,
                operation_type=op.operation_type,
                status=OperationStatus.SUCCEEDED,
                parent_id=op.parent_id,
                name=op.name,
                sub_type=op.sub_type,
                wait_details=op.wait_details,
            )
            if op.name == "short-wait"
            else op
        )
        for op in history
    ]
    b2 = FakeBackend({op.operation_id: op for op in history})
    par_id = next(op.operation_id for op in history if op.name == "par")
    threading.Thread(
        target=lambda: b2.wait_for(
            lambda b: any(u.operation_id == par_id and u.action is OperationAction.SUCCEED for u in b.log)
        )
        and parent_done.set(),
        daemon=True,
    ).start()
    phase_box[0] = 2
    t2, out2 = invoke(handler, b2, history)
    t2.join(TIMEOUT)
    if t2.is_alive() or "error" in out2 or not finished.wait(TIMEOUT):
        return False, f"INCONCLUSIVE: invocation 2 did not finish: {out2}"
    late = [c for c in calls if c[0] == 2 and c[2]]
    log2 = [(u.name, u.action.name) for u in b2.log]
    return (not late), (
        f"invocation-1 result={out1['result']['Status']}; invocation-2 result={out2.get('result')}; backend log={log2}; "
        f"orphan branch ended with {slow_exit}; user calls after parent completion={late}"
    )


def main() -> int:
    variants = [
        ("control: X=step, NOT yet in history", x_step, False),
        ("X=step (default AT_LEAST_ONCE_PER_RETRY), STARTED in history", x_step, True),
        ("X=wait_for_condition, STARTED in history", x_wait_for_condition, True),
        ("X=run_in_child_context, STARTED in history", x_child_context, True),
    ]
    failures = []
    scenarios = []
    for name, make_x, in_hist in variants:
        sc = Scenario(name, make_x, in_hist)
        scenarios.append(sc)
        ok, detail = sc.run()
        print(f"[{'ok' if ok else 'VIOLATION'}] {name}\n      {detail}\n")
        if not ok:
            failures.append((name, detail))
    for kind, name in (
        ("replay_children", "X=run_in_child_context recorded SUCCEEDED+replay_children (large result); regular suspend/re-invoke, no crash"),
        ("started", "X=run_in_child_context recorded STARTED because it suspended in a ctx.wait; regular suspend/re-invoke, no crash"),
    ):
        ok, detail = suspend_variant(kind)
        print(f"[{'ok' if ok else 'VIOLATION'}] {name}\n      {detail}\n")
        if not ok:
            failures.append((name, detail))
    for sc in scenarios:
        sc.crash.set()
    sys.stdout.flush()
    try:
        assert variants[0][0] not in [n for n, _ in failures], "control variant failed: harness broken"
        assert not failures, (
            "C10 violated: user function of the orphaned branch's next durable operation ran AFTER the "
            "parent parallel had been handed its completion record, in: "
            + "; ".join(n for n, _ in failures)
        )
    except AssertionError as e:
        print("AssertionError:", e, file=sys.stderr)
        sys.stderr.flush()
        os._exit(1)  # leftover pool threads of the abandoned invocation-1 must not keep us alive
    os._exit(0)


if __name__ == "__main__":
    main()
