"""C10 finding 2: an update of a descendant reaches the backend AFTER the completion record of its
(early-completed) parent, because the orphan check and the enqueue are not one atomic action.

Clause violated:
    "Once a child context, map or parallel operation has been handed its completion record, no update
     from any of its descendants - whether for an operation that already existed or ... - reaches the backend"

Code: state.py, ExecutionState.create_checkpoint.  The orphan test (`operation_id in _parent_done or
_has_completed_ancestor(...)`) and the marking of orphans for a CONTEXT SUCCEED/FAIL are done under
`_parent_done_lock`, but the lock is released BEFORE `self._checkpoint_queue.put(queued_op)`.
A descendant thread that has passed the test and is pre-empted before its put() is overtaken by the
parent's thread: mark orphans -> put(parent SUCCEED).  The descendant then enqueues behind the parent's
completion record, and the batcher ships both in queue order.

Workflow (legal public API only):
    ctx.parallel([fast_branch, slow_branch], config=ParallelConfig(completion_config=first_successful()))
    each branch = one ctx.step(...)

Part A (default) forces that interleaving deterministically by wrapping the queue's put() of the real
ExecutionState (nothing else is touched): the slow step's SUCCEED is held between the orphan check and
put() until the parallel's SUCCEED has been enqueued.

Part B (`--stress`) uses NO wrapping at all: many branches checkpointing in a loop with a tiny thread switch
interval, looking for the same thing to happen on its own (informative only; exit status comes from part A).

Run:  PYTHONPATH=/tmp/wt/h1_C10/src /venv/bin/python /tmp/wt/h1_C10/finding_2.py [--stress]
"""

from __future__ import annotations

import datetime
import os
import sys
import threading
import time
from types import SimpleNamespace

from aws_durable_execution_sdk_python import state as state_mod
from aws_durable_execution_sdk_python.config import CompletionConfig, ParallelConfig
from aws_durable_execution_sdk_python.execution import (
    DurableExecutionInvocationInputWithClient,
    InitialExecutionState,
    durable_execution,
)
from aws_durable_execution_sdk_python.lambda_service import (
    CheckpointOutput,
    CheckpointUpdatedExecutionState,
    ContextDetails,
    ExecutionDetails,
    Operation,
    OperationAction,
    OperationStatus,
    OperationType,
    StateOutput,
    StepDetails,
)

TIMEOUT = 20.0


class FakeBackend:
    """In-memory backend: records every update in arrival order and keeps the operation table."""

    def __init__(self):
        self.lock = threading.Lock()
        self.ops: dict[str, Operation] = {}
        self.log: list = []  # (api_call_number, OperationUpdate) in arrival order
        self.calls = 0

    def checkpoint(self, durable_execution_arn, checkpoint_token, updates, client_token):
        with self.lock:
            self.calls += 1
            changed = []
            for u in updates:
                self.log.append((self.calls, u))
                changed.append(self._apply(u))
            return CheckpointOutput(
                checkpoint_token=f"tok-{self.calls}",
                new_execution_state=CheckpointUpdatedExecutionState(operations=changed, next_marker=None),
            )

    def get_execution_state(self, durable_execution_arn, checkpoint_token, next_marker, max_items=1000):
        return StateOutput(operations=[], next_marker=None)

    def _apply(self, u) -> Operation:
        status = {
            OperationAction.START: OperationStatus.STARTED,
            OperationAction.SUCCEED: OperationStatus.SUCCEEDED,
            OperationAction.FAIL: OperationStatus.FAILED,
            OperationAction.RETRY: OperationStatus.PENDING,
        }[u.action]
        kw = dict(
            operation_id=u.operation_id,
            operation_type=u.operation_type,
            status=status,
            parent_id=u.parent_id,
            name=u.name,
            sub_type=u.sub_type,
            start_timestamp=datetime.datetime.now(datetime.UTC),
        )
        if u.operation_type is OperationType.STEP:
            kw["step_details"] = StepDetails(attempt=0, result=u.payload, error=u.error)
        elif u.operation_type is OperationType.CONTEXT:
            kw["context_details"] = ContextDetails(
                replay_children=bool(u.context_options and u.context_options.replay_children),
                result=u.payload,
                error=u.error,
            )
        op = Operation(**kw)
        self.ops[u.operation_id] = op
        return op


EXECUTION_OP = Operation(
    operation_id="exec-0",
    operation_type=OperationType.EXECUTION,
    status=OperationStatus.STARTED,
    execution_details=ExecutionDetails(input_payload="{}"),
)


def invoke(handler, backend):
    event = DurableExecutionInvocationInputWithClient(
        durable_execution_arn="arn:c10",
        checkpoint_token="tok-0",  # noqa: S106
        initial_execution_state=InitialExecutionState(operations=[EXECUTION_OP], next_marker=""),
        service_client=backend,
    )
    out: dict = {}

    def run():
        try:
            out["result"] = durable_execution(handler)(event, SimpleNamespace(aws_request_id="r"))
        except BaseException as e:  # noqa: BLE001
            out["error"] = e

    t = threading.Thread(target=run, daemon=True)
    t.start()
    return t, out


def descendants_after_completion(backend: FakeBackend):
    """For every CONTEXT SUCCEED/FAIL in the backend's log: later updates whose ancestor chain contains it."""
    parent_of = {}
    for _, u in backend.log:
        if u.parent_id:
            parent_of[u.operation_id] = u.parent_id

    def ancestors(op_id):
        seen = []
        cur = parent_of.get(op_id)
        while cur and cur not in seen:
            seen.append(cur)
            cur = parent_of.get(cur)
        return seen

    completed_at: dict[str, int] = {}
    bad = []
    for pos, (call, u) in enumerate(backend.log):
        for anc in ancestors(u.operation_id):
            if anc in completed_at:
                bad.append(
                    f"log[{pos}] (API call {call}) {u.operation_type.name} {u.action.name} name={u.name!r} arrives after "
                    f"completion record of ancestor at log[{completed_at[anc]}]"
                )
        if u.operation_type is OperationType.CONTEXT and u.action in (OperationAction.SUCCEED, OperationAction.FAIL):
            completed_at[u.operation_id] = pos
    return bad


# --------------------------------------------------------------------------- part A
def part_a() -> tuple[bool, str]:
    slow_in_gap = threading.Event()  # slow step's SUCCEED passed the orphan check, not yet enqueued
    parent_enqueued = threading.Event()  # parallel's SUCCEED has been enqueued
    slow_exit: list[str] = []
    slow_done = threading.Event()

    # wrap ONLY queue.put of the real ExecutionState instance: a pure scheduling delay inside the window
    # between `with self._parent_done_lock:` (left) and `self._checkpoint_queue.put(queued_op)`.
    orig_init = state_mod.ExecutionState.__init__

    def patched_init(self, *a, **k):
        orig_init(self, *a, **k)
        q = self._checkpoint_queue
        orig_put = q.put

        def put(item, *pa, **pk):
            u = item.operation_update
            if u is not None and u.name == "slow" and u.action is OperationAction.SUCCEED:
                slow_in_gap.set()
                parent_enqueued.wait(TIMEOUT)  # "pre-empted" here
            orig_put(item, *pa, **pk)
            if u is not None and u.name == "par" and u.action is OperationAction.SUCCEED:
                parent_enqueued.set()

        q.put = put

    state_mod.ExecutionState.__init__ = patched_init
    try:

        def handler(event, ctx):
            def fast_branch(c):
                # a step that simply takes a while (here: until the sibling's step function has returned)
                return c.step(lambda _s: (slow_in_gap.wait(TIMEOUT), "fast")[1], name="fast")

            def slow_branch(c):
                try:
                    r = c.step(lambda _s: "slow", name="slow")
                    slow_exit.append("returned")
                    return r
                except BaseException as e:
                    slow_exit.append(type(e).__name__)
                    raise
                finally:
                    slow_done.set()

            res = ctx.parallel(
                [fast_branch, slow_branch],
                name="par",
                config=ParallelConfig(completion_config=CompletionConfig.first_successful()),
            )
            return {"success": res.success_count, "started": res.started_count}

        backend = FakeBackend()
        t, out = invoke(handler, backend)
        t.join(TIMEOUT)
        if t.is_alive() or "error" in out:
            return False, f"INCONCLUSIVE: invocation did not finish: {out}"
        slow_done.wait(3.0)
        time.sleep(0.3)
    finally:
        state_mod.ExecutionState.__init__ = orig_init

    log = [(call, u.name, u.action.name) for call, u in backend.log]
    bad = descendants_after_completion(backend)
    detail = (
        f"result={out.get('result')}\n      backend log (api-call, name, action)={log}\n"
        f"      slow branch ended with {slow_exit}\n      " + "\n      ".join(bad)
    )
    return (not bad), detail


# --------------------------------------------------------------------------- part B
def part_b(rounds: int, budget_s: float) -> tuple[int, int, str]:
    """No wrapping.  N chatty branches + one branch that ends the parallel early; look for natural occurrences."""
    old = sys.getswitchinterval()
    sys.setswitchinterval(1e-6)
    hits = 0
    done_rounds = 0
    example = ""
    t_end = time.time() + budget_s
    try:
        for _ in range(rounds):
            if time.time() > t_end:
                break
            go = threading.Event()

            def handler(event, ctx):
                def winner(c):
                    go.wait(TIMEOUT)
                    return c.step(lambda _s: "w", name="winner")

                def chatty(c):
                    n = 0
                    go.set()
                    while True:  # ends with OrphanedChildException once the parallel has completed
                        n += 1
                        c.step(lambda _s: n, name="chat")

                res = ctx.parallel(
                    [winner] + [chatty] * 12,
                    name="par",
                    config=ParallelConfig(completion_config=CompletionConfig.first_successful()),
                )
                return res.success_count

            backend = FakeBackend()
            t, out = invoke(handler, backend)
            t.join(TIMEOUT)
            time.sleep(0.05)
            done_rounds += 1
            bad = descendants_after_completion(backend)
            if bad:
                hits += 1
                example = example or bad[0]
    finally:
        sys.setswitchinterval(old)
    return hits, done_rounds, example


def main():
    ok, detail = part_a()
    print(f"[{'ok' if ok else 'VIOLATION'}] part A - forced interleaving in the check/enqueue window\n      {detail}\n")
    if "--stress" in sys.argv:
        hits, rounds, example = part_b(rounds=400, budget_s=120)
        print(f"[info] part B - no wrapping, natural scheduling: {hits} of {rounds} rounds showed a descendant update after the parent's completion record")
        if example:
            print("      e.g.", example)
    sys.stdout.flush()
    if not ok:
        print(
            "AssertionError: C10 violated: an update of a descendant reached the backend after its parent parallel "
            "had been handed its completion record (orphan check and enqueue are not atomic in ExecutionState.create_checkpoint)",
            file=sys.stderr,
        )
        sys.stderr.flush()
        os._exit(1)
    os._exit(0)


if __name__ == "__main__":
    main()
