"""In-memory fake backend for the durable execution SDK that validates the update stream (property C11).

Run scripts that import this with PYTHONPATH=/tmp/wt/h1_C11/src:/tmp/wt/h1_C11
"""

from __future__ import annotations

import datetime
import json
import threading
import time
from dataclasses import replace
from typing import Any

from aws_durable_execution_sdk_python.execution import (
    DurableExecutionInvocationInputWithClient,
    InitialExecutionState,
    durable_execution,
)
from aws_durable_execution_sdk_python.lambda_service import (
    CallbackDetails,
    ChainedInvokeDetails,
    CheckpointOutput,
    CheckpointUpdatedExecutionState,
    ContextDetails,
    ErrorObject,
    ExecutionDetails,
    Operation,
    OperationAction,
    OperationStatus,
    OperationType,
    OperationUpdate,
    StateOutput,
    StepDetails,
    WaitDetails,
)

TERMINAL = {
    OperationStatus.SUCCEEDED,
    OperationStatus.FAILED,
    OperationStatus.CANCELLED,
    OperationStatus.TIMED_OUT,
    OperationStatus.STOPPED,
}


class InjectedFailure(Exception):
    pass


class FakeBackend:
    """Records updates, validates the lifecycle, plays the operations back as history."""

    def __init__(self, input_payload: str = "{}", page_size: int | None = None):
        self.lock = threading.Lock()
        self.ops: dict[str, Operation] = {}
        self.order: list[str] = []
        self.ops["exec"] = Operation(
            operation_id="exec",
            operation_type=OperationType.EXECUTION,
            status=OperationStatus.STARTED,
            execution_details=ExecutionDetails(input_payload=input_payload),
        )
        self.order.append("exec")
        self.violations: list[str] = []
        self.stream: list[tuple[int, OperationUpdate]] = []  # (invocation, update)
        self.batches: list[list[OperationUpdate]] = []
        self.invocation = 0
        self.execution_result_seen = False
        self.page_size = page_size
        self.token = 0
        self.calls = 0
        # hooks
        self.fail_on_call: int | None = None  # raise at the n-th checkpoint call (1-based) BEFORE applying
        self.fail_after_apply_on_call: int | None = None  # apply, then raise
        self.before_call = None  # callable(updates)
        self.after_call = None
        self.started_in_attempt: dict[str, bool] = {}
        self.cb_counter = 0

    # ---------------------------------------------------------------- validation
    def _violate(self, msg: str) -> None:
        self.violations.append(f"[inv {self.invocation}] {msg}")

    def _describe(self, u: OperationUpdate) -> str:
        return f"{u.operation_type.value}:{u.action.value}:{u.name or ''}:{u.operation_id[:8]}"

    def _validate_and_apply(self, u: OperationUpdate) -> Operation | None:
        d = self._describe(u)
        if self.execution_result_seen:
            self._violate(f"update {d} sent after the execution-level result record")
        if u.operation_type is OperationType.EXECUTION:
            if self.execution_result_seen:
                self._violate("execution-level result record sent more than once")
            self.execution_result_seen = True
            return None

        existing = self.ops.get(u.operation_id)
        # parent
        if u.parent_id:
            parent = self.ops.get(u.parent_id)
            if parent is None:
                self._violate(f"update {d} precedes the START of its parent context {u.parent_id[:8]}")
            elif parent.operation_type is not OperationType.CONTEXT:
                self._violate(f"update {d} has a non-context parent")
            elif parent.status in TERMINAL and not (
                parent.context_details and parent.context_details.replay_children
            ):
                self._violate(f"update {d} sent although parent context {parent.name}/{u.parent_id[:8]} is already {parent.status.value}")
            elif parent.status in TERMINAL:
                self._violate(f"update {d} sent although parent context (replay_children) {parent.name}/{u.parent_id[:8]} is already {parent.status.value}")

        if existing is not None and existing.status in TERMINAL:
            self._violate(f"update {d} for an operation the backend holds as {existing.status.value}")
            return None
        if existing is not None and existing.operation_type is not u.operation_type:
            self._violate(f"update {d} changes type of operation from {existing.operation_type}")

        now = datetime.datetime.now(tz=datetime.UTC)
        act = u.action
        if act is OperationAction.START:
            if existing is not None:
                if existing.status is OperationStatus.STARTED:
                    self._violate(f"second START in the same attempt: {d}")
                elif existing.status not in (OperationStatus.READY, OperationStatus.PENDING):
                    self._violate(f"START for op in status {existing.status}: {d}")
                elif existing.status is OperationStatus.PENDING:
                    self._violate(f"START for op still PENDING (retry delay not elapsed): {d}")
            return self._apply_start(u, existing, now)
        if existing is None:
            self._violate(f"{act.value} without a preceding START: {d}")
        elif existing.status is not OperationStatus.STARTED:
            self._violate(f"{act.value} for attempt that has no START (status {existing.status.value}): {d}")
        return self._apply_end(u, existing, now)

    def _apply_start(self, u, existing, now) -> Operation:
        kw: dict[str, Any] = {}
        t = u.operation_type
        if t is OperationType.STEP:
            kw["step_details"] = replace(
                existing.step_details, next_attempt_timestamp=None
            ) if existing and existing.step_details else StepDetails(attempt=0)
        elif t is OperationType.WAIT:
            secs = u.wait_options.wait_seconds if u.wait_options else 1
            kw["wait_details"] = WaitDetails(
                scheduled_end_timestamp=now + datetime.timedelta(seconds=secs)
            )
        elif t is OperationType.CALLBACK:
            self.cb_counter += 1
            kw["callback_details"] = CallbackDetails(callback_id=f"cb-{self.cb_counter}")
        elif t is OperationType.CHAINED_INVOKE:
            kw["chained_invoke_details"] = ChainedInvokeDetails()
        elif t is OperationType.CONTEXT:
            kw["context_details"] = ContextDetails()
        op = Operation(
            operation_id=u.operation_id,
            operation_type=t,
            status=OperationStatus.STARTED,
            parent_id=u.parent_id,
            name=u.name,
            sub_type=u.sub_type,
            start_timestamp=existing.start_timestamp if existing else now,
            **kw,
        )
        self._store(op)
        return op

    def _apply_end(self, u, existing, now) -> Operation:
        t = u.operation_type
        act = u.action
        status = {
            OperationAction.SUCCEED: OperationStatus.SUCCEEDED,
            OperationAction.FAIL: OperationStatus.FAILED,
            OperationAction.RETRY: OperationStatus.PENDING,
            OperationAction.CANCEL: OperationStatus.CANCELLED,
        }[act]
        kw: dict[str, Any] = {}
        if t is OperationType.STEP:
            prev_attempt = existing.step_details.attempt if existing and existing.step_details else 0
            if act is OperationAction.RETRY:
                delay = u.step_options.next_attempt_delay_seconds if u.step_options else 1
                kw["step_details"] = StepDetails(
                    attempt=prev_attempt + 1,
                    next_attempt_timestamp=now + datetime.timedelta(seconds=delay),
                    result=u.payload,
                    error=u.error,
                )
            else:
                kw["step_details"] = StepDetails(
                    attempt=prev_attempt + 1, result=u.payload, error=u.error
                )
        elif t is OperationType.CONTEXT:
            kw["context_details"] = ContextDetails(
                replay_children=bool(u.context_options and u.context_options.replay_children),
                result=u.payload,
                error=u.error,
            )
        op = Operation(
            operation_id=u.operation_id,
            operation_type=t,
            status=status,
            parent_id=u.parent_id,
            name=u.name,
            sub_type=u.sub_type,
            start_timestamp=existing.start_timestamp if existing else now,
            end_timestamp=now if status in TERMINAL else None,
            **kw,
        )
        self._store(op)
        return op

    def _store(self, op: Operation) -> None:
        if op.operation_id not in self.ops:
            self.order.append(op.operation_id)
        self.ops[op.operation_id] = op

    # ---------------------------------------------------------------- service client API
    def checkpoint(self, durable_execution_arn, checkpoint_token, updates, client_token=None):
        if self.before_call:
            self.before_call(updates)
        with self.lock:
            self.calls += 1
            n = self.calls
            if self.fail_on_call is not None and n == self.fail_on_call:
                raise InjectedFailure(f"injected failure on call {n}")
            changed: list[Operation] = []
            self.batches.append(list(updates))
            for u in updates:
                self.stream.append((self.invocation, u))
                op = self._validate_and_apply(u)
                if op is not None:
                    changed.append(op)
            # also report operations the backend changed on its own
            changed_ids = {c.operation_id for c in changed}
            for op in self._advance_locked():
                if op.operation_id not in changed_ids:
                    changed.append(op)
            self.token += 1
            if self.fail_after_apply_on_call is not None and n == self.fail_after_apply_on_call:
                raise InjectedFailure(f"injected failure after applying call {n}")
            out = CheckpointOutput(
                checkpoint_token=f"tok-{self.token}",
                new_execution_state=CheckpointUpdatedExecutionState(operations=changed),
            )
        if self.after_call:
            self.after_call(updates)
        return out

    def get_execution_state(self, durable_execution_arn, checkpoint_token, next_marker, max_items=1000):
        with self.lock:
            all_ops = [self.ops[i] for i in self.order]
        start = int(next_marker)
        size = self.page_size or 1000
        page = all_ops[start : start + size]
        nxt = str(start + size) if start + size < len(all_ops) else None
        return StateOutput(operations=page, next_marker=nxt)

    # ---------------------------------------------------------------- backend-side progress
    auto_time = True  # complete due waits / make due retries READY, based on wall-clock
    inproc_complete_after: float | None = None  # complete callbacks / invokes this many seconds after their start

    def _advance_locked(self) -> list[Operation]:
        if not self.auto_time:
            return []
        now = datetime.datetime.now(tz=datetime.UTC)
        changed = []
        for op in list(self.ops.values()):
            if (
                op.operation_type is OperationType.WAIT
                and op.status is OperationStatus.STARTED
                and op.wait_details
                and op.wait_details.scheduled_end_timestamp <= now
            ):
                new = replace(op, status=OperationStatus.SUCCEEDED, end_timestamp=now)
                self.ops[op.operation_id] = new
                changed.append(new)
            if (
                op.operation_type is OperationType.STEP
                and op.status is OperationStatus.PENDING
                and op.step_details
                and op.step_details.next_attempt_timestamp
                and op.step_details.next_attempt_timestamp <= now
            ):
                new = replace(op, status=OperationStatus.READY)
                self.ops[op.operation_id] = new
                changed.append(new)
            if (
                self.inproc_complete_after is not None
                and op.status is OperationStatus.STARTED
                and op.start_timestamp
                and (now - op.start_timestamp).total_seconds() >= self.inproc_complete_after
            ):
                if op.operation_type is OperationType.CHAINED_INVOKE:
                    new = replace(op, status=OperationStatus.SUCCEEDED, chained_invoke_details=ChainedInvokeDetails(result='"inv-result"'))
                    self.ops[op.operation_id] = new
                    changed.append(new)
                elif op.operation_type is OperationType.CALLBACK:
                    new = replace(op, status=OperationStatus.SUCCEEDED, callback_details=replace(op.callback_details, result='"cb-result"'))
                    self.ops[op.operation_id] = new
                    changed.append(new)
        return changed

    def force_time(self) -> None:
        """Complete every STARTED wait and make every PENDING step READY (time passes between invocations)."""
        with self.lock:
            now = datetime.datetime.now(tz=datetime.UTC)
            for op in list(self.ops.values()):
                if op.operation_type is OperationType.WAIT and op.status is OperationStatus.STARTED:
                    self.ops[op.operation_id] = replace(op, status=OperationStatus.SUCCEEDED, end_timestamp=now)
                if op.operation_type is OperationType.STEP and op.status is OperationStatus.PENDING:
                    self.ops[op.operation_id] = replace(op, status=OperationStatus.READY)

    def complete_callbacks(self, result: str = '"cb-result"', fail: bool = False) -> None:
        with self.lock:
            for op in list(self.ops.values()):
                if op.operation_type is OperationType.CALLBACK and op.status is OperationStatus.STARTED:
                    self.ops[op.operation_id] = replace(
                        op,
                        status=OperationStatus.FAILED if fail else OperationStatus.SUCCEEDED,
                        callback_details=replace(
                            op.callback_details,
                            result=None if fail else result,
                            error=ErrorObject("cb failed", "X", None, None) if fail else None,
                        ),
                    )

    def complete_invokes(self, result: str = '"inv-result"', status=OperationStatus.SUCCEEDED) -> None:
        with self.lock:
            for op in list(self.ops.values()):
                if op.operation_type is OperationType.CHAINED_INVOKE and op.status is OperationStatus.STARTED:
                    self.ops[op.operation_id] = replace(
                        op,
                        status=status,
                        chained_invoke_details=ChainedInvokeDetails(
                            result=result if status is OperationStatus.SUCCEEDED else None,
                            error=None if status is OperationStatus.SUCCEEDED else ErrorObject("inv failed", "X", None, None),
                        ),
                    )

    # ---------------------------------------------------------------- driving
    def invoke(self, handler, timeout: float = 30.0):
        """One invocation of the @durable_execution-wrapped handler with the current history."""
        self.invocation += 1
        with self.lock:
            all_ops = [self.ops[i] for i in self.order]
        if self.page_size:
            first = all_ops[: self.page_size]
            marker = str(self.page_size) if len(all_ops) > self.page_size else ""
        else:
            first, marker = all_ops, ""
        event = DurableExecutionInvocationInputWithClient(
            durable_execution_arn="arn:test",
            checkpoint_token=f"tok-{self.token}",
            initial_execution_state=InitialExecutionState(operations=first, next_marker=marker),
            service_client=self,
        )
        box: dict[str, Any] = {}

        def run():
            try:
                box["out"] = handler(event, None)
            except BaseException as e:  # noqa: BLE001
                box["exc"] = e

        t = threading.Thread(target=run, daemon=True)
        t.start()
        t.join(timeout)
        if t.is_alive():
            box["hang"] = True
        return box

    def run_to_completion(self, handler, max_invocations: int = 20, between=None, settle: float = 0.0):
        results = []
        for _ in range(max_invocations):
            r = self.invoke(handler)
            results.append(r)
            if settle:
                time.sleep(settle)
            if "out" in r and r["out"].get("Status") == "PENDING":
                self.force_time()
                if between:
                    between(self)
                continue
            break
        return results

    def dump(self) -> str:
        lines = []
        for inv, u in self.stream:
            lines.append(f"  inv{inv} {u.operation_type.value:14s} {u.action.value:8s} id={u.operation_id[:8]} parent={(u.parent_id or '-')[:8]} name={u.name}")
        return "\n".join(lines)


def wrap(func):
    return durable_execution(func)
