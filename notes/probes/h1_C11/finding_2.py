"""C11 finding 2 - a branch of a nested map runs twice at the same time; the two runs send conflicting updates.

Clauses violated: "start before retry/succeed/fail" / "at most one start per attempt" (a SUCCEED arrives for an
attempt that was already closed by a RETRY and never started again).

Run:  PYTHONPATH=/tmp/wt/h1_C11/src /venv/bin/python /tmp/wt/h1_C11/finding_2.py

Program (legal use of the public API):

    parallel P (top level)
      branch A:  map M over [0, 1]
                   item 0:  wait(1 s);  step S (AT_MOST_ONCE_PER_RETRY, takes 1 s)
                   item 1:  callback = create_callback();  callback.result()      # suspends indefinitely
      branch C:  one slow step (4 s)                                              # keeps P busy

Schedule (forced only by *delaying* SDK methods, nothing is altered or skipped):
  * item 1 finishes (suspended) at the very moment the resume timer of M is about to resume item 0:
    ConcurrentExecutor._on_task_complete(item 1) evaluates should_execution_suspend() while item 0 is still
    SUSPENDED_WITH_TIMEOUT, i.e. after TimerScheduler._timer_loop popped item 0 but before reset_to_pending().
  => M decides "everything is suspended" and raises TimedSuspendExecution in branch A, and at the same time the
     timer thread re-submits item 0 (the decision and the re-submission are not mutually exclusive).
     TimerScheduler.shutdown() even waits (join) until the timer thread has re-submitted it.
  * Branch A is now suspended inside P with a resume time that has already passed; P's timer re-runs branch A
    immediately, A calls M.execute() again, which submits item 0 a second time while the first run is alive.

Result: run 1 of item 0 sends START for S and executes it; run 2 finds S STARTED, takes it for a step that was
interrupted by a crash and sends RETRY; then run 1 sends SUCCEED for the attempt the RETRY has closed.
"""

from __future__ import annotations

import datetime
import logging
import os
import sys
import threading
import time
from dataclasses import replace

import aws_durable_execution_sdk_python.concurrency.executor as executor_module
import aws_durable_execution_sdk_python.concurrency.models as models_module
from aws_durable_execution_sdk_python.config import Duration, StepConfig, StepSemantics
from aws_durable_execution_sdk_python.exceptions import (
    SuspendExecution,
    TimedSuspendExecution,
)
from aws_durable_execution_sdk_python.execution import (
    DurableExecutionInvocationInputWithClient,
    InitialExecutionState,
    durable_execution,
)
from aws_durable_execution_sdk_python.lambda_service import (
    CallbackDetails,
    CheckpointOutput,
    CheckpointUpdatedExecutionState,
    ContextDetails,
    ExecutionDetails,
    Operation,
    OperationAction,
    OperationStatus,
    OperationType,
    StateOutput,
    StepDetails,
    WaitDetails,
)

logging.disable(logging.CRITICAL)

TERMINAL = {OperationStatus.SUCCEEDED, OperationStatus.FAILED}


class Backend:
    """In-memory backend: validates the lifecycle of every update, applies it, reports changed operations."""

    def __init__(self) -> None:
        self.lock = threading.Lock()
        self.ops: dict[str, Operation] = {
            "exec": Operation(
                operation_id="exec",
                operation_type=OperationType.EXECUTION,
                status=OperationStatus.STARTED,
                execution_details=ExecutionDetails(input_payload="{}"),
            )
        }
        self.stream: list[str] = []
        self.violations: list[str] = []
        self.t0 = time.time()

    def checkpoint(self, durable_execution_arn, checkpoint_token, updates, client_token=None):
        with self.lock:
            now = datetime.datetime.now(tz=datetime.UTC)
            changed: dict[str, Operation] = {}
            for u in updates:
                held = self.ops.get(u.operation_id)
                line = (
                    f"[{time.time() - self.t0:5.2f}s] {u.operation_type.value:8s} {u.action.value:8s} name={u.name}"
                    f"   (backend held: {held.status.value if held else 'nothing'})"
                )
                self.stream.append(line)
                problem = None
                if held is not None and held.status in TERMINAL:
                    problem = f"update for an operation the backend holds as {held.status.value}"
                elif u.action is OperationAction.START:
                    if held is not None and held.status is OperationStatus.STARTED:
                        problem = "second START for the same attempt"
                elif held is None or held.status is not OperationStatus.STARTED:
                    problem = (
                        f"{u.action.value} for an attempt that was never started "
                        f"(operation is {held.status.value if held else 'unknown'})"
                    )
                if problem:
                    self.violations.append(f"{line}\n        <-- {problem}")
                op = self._apply(u, held, now)
                self.ops[op.operation_id] = op
                changed[op.operation_id] = op
            # time-driven progress of the backend: waits end, retry delays elapse
            for op in list(self.ops.values()):
                if (
                    op.operation_type is OperationType.WAIT
                    and op.status is OperationStatus.STARTED
                    and op.wait_details.scheduled_end_timestamp <= now
                ):
                    changed[op.operation_id] = self.ops[op.operation_id] = replace(
                        op, status=OperationStatus.SUCCEEDED
                    )
                if (
                    op.operation_type is OperationType.STEP
                    and op.status is OperationStatus.PENDING
                    and op.step_details.next_attempt_timestamp <= now
                ):
                    changed[op.operation_id] = self.ops[op.operation_id] = replace(
                        op, status=OperationStatus.READY
                    )
            return CheckpointOutput(
                checkpoint_token="t",
                new_execution_state=CheckpointUpdatedExecutionState(operations=list(changed.values())),
            )

    @staticmethod
    def _apply(u, held, now) -> Operation:
        status = {
            OperationAction.START: OperationStatus.STARTED,
            OperationAction.SUCCEED: OperationStatus.SUCCEEDED,
            OperationAction.FAIL: OperationStatus.FAILED,
            OperationAction.RETRY: OperationStatus.PENDING,
        }[u.action]
        details = {}
        if u.operation_type is OperationType.STEP:
            attempt = held.step_details.attempt if held and held.step_details else 0
            if u.action is OperationAction.START:
                details["step_details"] = StepDetails(attempt=attempt)
            elif u.action is OperationAction.RETRY:
                delay = u.step_options.next_attempt_delay_seconds if u.step_options else 1
                details["step_details"] = StepDetails(
                    attempt=attempt + 1,
                    next_attempt_timestamp=now + datetime.timedelta(seconds=delay),
                    error=u.error,
                )
            else:
                details["step_details"] = StepDetails(attempt=attempt + 1, result=u.payload, error=u.error)
        elif u.operation_type is OperationType.WAIT:
            details["wait_details"] = WaitDetails(
                scheduled_end_timestamp=now + datetime.timedelta(seconds=u.wait_options.wait_seconds)
            )
        elif u.operation_type is OperationType.CALLBACK:
            details["callback_details"] = CallbackDetails(callback_id="callback-1")
        elif u.operation_type is OperationType.CONTEXT:
            details["context_details"] = ContextDetails(result=u.payload, error=u.error)
        return Operation(
            operation_id=u.operation_id,
            operation_type=u.operation_type,
            status=status,
            parent_id=u.parent_id,
            name=u.name,
            sub_type=u.sub_type,
            **details,
        )

    def get_execution_state(self, durable_execution_arn, checkpoint_token, next_marker, max_items=1000):
        return StateOutput(operations=[], next_marker=None)


# --------------------------------------------------------------------------------------------------------------
# Forcing the interleaving: SDK methods are delayed (never skipped, never altered).
timer_is_about_to_reset_item0 = threading.Event()
item1_completion_handled = threading.Event()
_once = {"reset": False, "done": False, "shutdown": False}
_once_lock = threading.Lock()
_original_reset = models_module.ExecutableWithState.reset_to_pending
_original_on_task_complete = executor_module.ConcurrentExecutor._on_task_complete
_original_shutdown = executor_module.TimerScheduler.shutdown


def delayed_reset_to_pending(self):
    # first call overall: the timer thread of map M resumes item 0 (it has popped it from its heap already)
    with _once_lock:
        first = not _once["reset"]
        _once["reset"] = True
    if first:
        timer_is_about_to_reset_item0.set()
        item1_completion_handled.wait(5)
    return _original_reset(self)


def delayed_on_task_complete(self, exe_state, future, scheduler):
    # first branch that ends with an indefinite suspension: item 1 of map M (callback.result())
    hold = False
    if not future.cancelled():
        error = future.exception()
        if isinstance(error, SuspendExecution) and not isinstance(error, TimedSuspendExecution):
            with _once_lock:
                hold = not _once["done"]
                _once["done"] = True
    if hold:
        timer_is_about_to_reset_item0.wait(10)
    try:
        return _original_on_task_complete(self, exe_state, future, scheduler)
    finally:
        if hold:
            item1_completion_handled.set()


def shutdown_then_pause(self):
    # the thread that leaves M.execute() is descheduled for a moment between TimerScheduler.shutdown() (which has
    # waited for the timer thread) and thread_executor.shutdown(cancel_futures=True): the pool thread that was
    # handed the re-submitted item 0 gets to pick it up before it could be cancelled
    result = _original_shutdown(self)
    with _once_lock:
        first = _once["reset"] and not _once["shutdown"]
        if first:
            _once["shutdown"] = True
    if first:
        time.sleep(0.1)
    return result


models_module.ExecutableWithState.reset_to_pending = delayed_reset_to_pending
executor_module.TimerScheduler.shutdown = shutdown_then_pause
executor_module.ConcurrentExecutor._on_task_complete = delayed_on_task_complete

# --------------------------------------------------------------------------------------------------------------
item0_runs: list[str] = []  # threads that entered the body of item 0 after its wait (observability only)


def step_s(step_context):
    time.sleep(1.0)
    return "S done"


def map_item(child, value, index, items):
    if index == 0:
        child.wait(Duration.from_seconds(1), name="pause")
        item0_runs.append(threading.current_thread().name)
        return child.step(
            step_s, name="S", config=StepConfig(step_semantics=StepSemantics.AT_MOST_ONCE_PER_RETRY)
        )
    callback = child.create_callback(name="approval")
    return callback.result()


def branch_a(child):
    return child.map([0, 1], map_item, name="M").success_count


def branch_c(child):
    return child.step(lambda _: time.sleep(4.0) or "slow done", name="slow")


@durable_execution
def handler(event, context):
    return context.parallel([branch_a, branch_c], name="P").success_count


def main() -> int:
    backend = Backend()
    event = DurableExecutionInvocationInputWithClient(
        durable_execution_arn="arn:test",
        checkpoint_token="t",
        initial_execution_state=InitialExecutionState(operations=list(backend.ops.values()), next_marker=""),
        service_client=backend,
    )
    box = {}
    worker = threading.Thread(target=lambda: box.update(out=handler(event, None)), daemon=True)
    worker.start()
    worker.join(20)
    time.sleep(0.5)

    print("update stream of the invocation:")
    for line in backend.stream:
        print("   ", line)
    print("invocation result:", box.get("out", "<still running after 20 s>"))
    print("item 0 of map M continued after its wait in threads:", item0_runs)
    if backend.violations:
        print("\nC11 VIOLATED - the update stream is not a valid operation history:")
        for v in backend.violations:
            print("   ", v)
    else:
        print("no violation")
    sys.stdout.flush()
    assert not backend.violations, "C11 violated: " + " | ".join(v.replace("\n", " ") for v in backend.violations)
    return 0


if __name__ == "__main__":
    try:
        code = main()
    except AssertionError as e:
        print("AssertionError:", e, file=sys.stderr)
        code = 1
    sys.stdout.flush()
    sys.stderr.flush()
    os._exit(code)  # worker threads of the abandoned branch runs may still be alive
