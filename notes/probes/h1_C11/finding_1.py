"""C11 finding 1 - a CONTEXT that the backend already holds as SUCCEEDED is sent a FAIL record on replay.

Clause violated: "nothing after a terminal record / no update for an operation the backend already holds
as terminal".

Run:  PYTHONPATH=/tmp/wt/h1_C11/src /venv/bin/python /tmp/wt/h1_C11/finding_1.py

Program (legal use of the public API, deterministic):

    def body(child):
        try:
            child.wait_for_condition(check, config)      # check() raises ValueError
        except ValueError:                                # the user handles the error of *his own* check function
            status = "fallback"
        return [status, <300 KB of data>]                 # > 256 KB  -> the context is recorded with ReplayChildren

    result = context.run_in_child_context(body)
    context.wait(1 second)                                # suspend -> the backend re-invokes with the recorded history

Invocation 1 records   CONTEXT START, STEP START, STEP FAIL, CONTEXT SUCCEED(ReplayChildren), WAIT START.
Invocation 2 replays the history. The context is SUCCEEDED with ReplayChildren, so ChildOperationExecutor
runs the body again to rebuild the result.  On replay wait_for_condition does not raise the user's ValueError
(as it did in invocation 1) but a CallableRuntimeError built from the record; the user's `except ValueError`
does not match, the body raises, and ChildOperationExecutor.execute() answers *every* exception of the body by
checkpointing CONTEXT FAIL - for an operation that is SUCCEEDED at the backend.
"""

from __future__ import annotations

import datetime
import sys
import threading
from dataclasses import replace

from aws_durable_execution_sdk_python.config import Duration
from aws_durable_execution_sdk_python.execution import (
    DurableExecutionInvocationInputWithClient,
    InitialExecutionState,
    durable_execution,
)
from aws_durable_execution_sdk_python.lambda_service import (
    CheckpointOutput,
    CheckpointUpdatedExecutionState,
    ContextDetails,
    ExecutionDetails,
    Operation,
    OperationAction,
    OperationStatus,
    OperationType,
    StateOutput,
    StepDetails,
    WaitDetails,
)
from aws_durable_execution_sdk_python.waits import (
    WaitForConditionConfig,
    WaitForConditionDecision,
)

TERMINAL = {OperationStatus.SUCCEEDED, OperationStatus.FAILED}
STATUS_OF = {
    OperationAction.START: OperationStatus.STARTED,
    OperationAction.SUCCEED: OperationStatus.SUCCEEDED,
    OperationAction.FAIL: OperationStatus.FAILED,
    OperationAction.RETRY: OperationStatus.PENDING,
}


class Backend:
    """In-memory backend: applies updates, plays the operations back as history, notes lifecycle violations."""

    def __init__(self) -> None:
        self.lock = threading.Lock()
        self.ops: dict[str, Operation] = {
            "exec": Operation(
                operation_id="exec",
                operation_type=OperationType.EXECUTION,
                status=OperationStatus.STARTED,
                execution_details=ExecutionDetails(input_payload="{}"),
            )
        }
        self.stream: list[str] = []
        self.violations: list[str] = []
        self.invocation = 0

    def checkpoint(self, durable_execution_arn, checkpoint_token, updates, client_token=None):
        with self.lock:
            changed = []
            for u in updates:
                line = f"invocation {self.invocation}: {u.operation_type.value} {u.action.value} name={u.name}"
                self.stream.append(line)
                held = self.ops.get(u.operation_id)
                if held is not None and held.status in TERMINAL:
                    self.violations.append(
                        f"{line}  <-- the backend already holds this operation as {held.status.value}"
                    )
                    continue
                now = datetime.datetime.now(tz=datetime.UTC)
                details = {}
                if u.operation_type is OperationType.STEP:
                    details["step_details"] = StepDetails(attempt=1, result=u.payload, error=u.error)
                elif u.operation_type is OperationType.CONTEXT:
                    details["context_details"] = ContextDetails(
                        replay_children=bool(u.context_options and u.context_options.replay_children),
                        result=u.payload,
                        error=u.error,
                    )
                elif u.operation_type is OperationType.WAIT:
                    details["wait_details"] = WaitDetails(scheduled_end_timestamp=now + datetime.timedelta(seconds=1))
                op = Operation(
                    operation_id=u.operation_id,
                    operation_type=u.operation_type,
                    status=STATUS_OF[u.action],
                    parent_id=u.parent_id,
                    name=u.name,
                    sub_type=u.sub_type,
                    **details,
                )
                self.ops[u.operation_id] = op
                changed.append(op)
            return CheckpointOutput(
                checkpoint_token="t",
                new_execution_state=CheckpointUpdatedExecutionState(operations=changed),
            )

    def get_execution_state(self, durable_execution_arn, checkpoint_token, next_marker, max_items=1000):
        return StateOutput(operations=[], next_marker=None)

    def timers_fire(self) -> None:
        for op in list(self.ops.values()):
            if op.operation_type is OperationType.WAIT and op.status is OperationStatus.STARTED:
                self.ops[op.operation_id] = replace(op, status=OperationStatus.SUCCEEDED)

    def invoke(self, handler):
        self.invocation += 1
        event = DurableExecutionInvocationInputWithClient(
            durable_execution_arn="arn:test",
            checkpoint_token="t",
            initial_execution_state=InitialExecutionState(operations=list(self.ops.values()), next_marker=""),
            service_client=self,
        )
        return handler(event, None)


BIG = "x" * (300 * 1024)  # larger than the 256 KB checkpoint limit -> ReplayChildren


def check(state, check_context):
    raise ValueError("the resource we poll for is gone")


def strategy(state, attempt):
    return WaitForConditionDecision.stop_polling()


def body(child):
    try:
        child.wait_for_condition(
            check, WaitForConditionConfig(wait_strategy=strategy, initial_state=0), name="poll"
        )
        status = "ok"
    except ValueError:
        status = "fallback"
    return [status, BIG]


@durable_execution
def handler(event, context):
    result = context.run_in_child_context(body, name="child")
    context.wait(Duration.from_seconds(1), name="pause")
    return result[0]


def main() -> int:
    backend = Backend()
    out1 = backend.invoke(handler)
    assert out1["Status"] == "PENDING", out1
    child = next(op for op in backend.ops.values() if op.name == "child")
    assert child.status is OperationStatus.SUCCEEDED and child.context_details.replay_children, child
    backend.timers_fire()
    out2 = backend.invoke(handler)  # replay of the recorded history

    print("update stream:")
    for line in backend.stream:
        print("   ", line)
    print("result of invocation 2:", {k: v for k, v in out2.items()})
    assert not backend.violations, (
        "C11 violated - update for an operation the backend already holds as terminal:\n    "
        + "\n    ".join(backend.violations)
    )
    print("no violation")
    return 0


if __name__ == "__main__":
    sys.exit(main())
