"""C20 finding 1: the JSON (millisecond) codec alters whole-millisecond timestamps from 2242-03-16 on.

TimestampConverter.from_unix_millis() decodes with float arithmetic
(datetime.fromtimestamp(ms / 1000)).  A double has 53 bits: from 2**33 seconds after the epoch
(2242-03-16T12:56:32Z; symmetrically before 1697-10-17) neighbouring doubles are ~1.9 us apart, so
ms / 1000 is up to ~1 us away from the exact value and fromtimestamp() rounds it to a *different
microsecond*.  A timestamp that is an exact number of milliseconds therefore comes back as e.g.
...:32.000999 instead of ...:32.001, and encoding that again (floor to milliseconds) gives a wire
value that is one millisecond EARLIER than the one that was decoded.

That is not the permitted "millisecond truncation": the value had no sub-millisecond part to truncate.

Run:  PYTHONPATH=/tmp/wt/h2_C20/src /venv/bin/python /tmp/wt/h2_C20/finding_1.py
"""

from __future__ import annotations

import datetime
import json
import sys

from aws_durable_execution_sdk_python.execution import (
    DurableExecutionInvocationInput,
    InitialExecutionState,
)
from aws_durable_execution_sdk_python.lambda_service import (
    Operation,
    OperationStatus,
    OperationSubType,
    OperationType,
    StepDetails,
    TimestampConverter,
    WaitDetails,
)

UTC = datetime.UTC
failures: list[str] = []


def json_round_trip(op: Operation) -> Operation:
    return Operation.from_json_dict(json.loads(json.dumps(op.to_json_dict())))


def pending_step(ts: datetime.datetime) -> Operation:
    return Operation(
        operation_id="step-1",
        operation_type=OperationType.STEP,
        status=OperationStatus.PENDING,
        sub_type=OperationSubType.STEP,
        start_timestamp=ts,
        step_details=StepDetails(attempt=1, next_attempt_timestamp=ts),
    )


# --- control: a present-day whole-millisecond timestamp survives (so the harness is sound) -------------
control = datetime.datetime(2026, 9, 27, 12, 0, 0, 1000, tzinfo=UTC)
assert json_round_trip(pending_step(control)) == pending_step(control), "control failed"

# --- 1. object -> JSON dict -> object ----------------------------------------------------------------
# first affected instant: 2**33 s + 1 ms after the epoch, an exact number of milliseconds
ts = datetime.datetime(2242, 3, 16, 12, 56, 32, 1000, tzinfo=UTC)
assert ts.microsecond % 1000 == 0
op = pending_step(ts)
back = json_round_trip(op)
if back != op:
    failures.append(
        "Operation JSON round trip altered a whole-millisecond next-attempt time: "
        f"{op.step_details.next_attempt_timestamp.isoformat()} -> "
        f"{back.step_details.next_attempt_timestamp.isoformat()} "
        f"(start_timestamp {op.start_timestamp.isoformat()} -> {back.start_timestamp.isoformat()})"
    )

wait_op = Operation(
    operation_id="wait-1",
    operation_type=OperationType.WAIT,
    status=OperationStatus.STARTED,
    wait_details=WaitDetails(scheduled_end_timestamp=ts),
)
if json_round_trip(wait_op) != wait_op:
    failures.append("Operation JSON round trip altered WaitDetails.scheduled_end_timestamp")

# --- 2. wire -> object -> wire: the millisecond value itself changes ----------------------------------
wire_ms = 8589934592001  # == ts
assert TimestampConverter.to_unix_millis(ts) == wire_ms  # the encoder is exact
event = {
    "DurableExecutionArn": "arn",
    "CheckpointToken": "tok",
    "InitialExecutionState": {
        "Operations": [
            {
                "Id": "step-1",
                "Type": "STEP",
                "Status": "PENDING",
                "StartTimestamp": wire_ms,
                "StepDetails": {"Attempt": 1, "NextAttemptTimestamp": wire_ms},
            }
        ],
        "NextMarker": "",
    },
}
again = DurableExecutionInvocationInput.from_json_dict(event).to_json_dict()
got = again["InitialExecutionState"]["Operations"][0]["StepDetails"]["NextAttemptTimestamp"]
if got != wire_ms:
    failures.append(
        f"invocation input JSON dict -> object -> JSON dict changed NextAttemptTimestamp {wire_ms} -> {got} "
        f"({got - wire_ms} ms)"
    )

# --- 3. object -> JSON -> object of a whole invocation input ------------------------------------------
inp = DurableExecutionInvocationInput(
    durable_execution_arn="arn",
    checkpoint_token="tok",
    initial_execution_state=InitialExecutionState(operations=[op, wait_op], next_marker=""),
)
if DurableExecutionInvocationInput.from_json_dict(json.loads(json.dumps(inp.to_json_dict()))) != inp:
    failures.append("DurableExecutionInvocationInput JSON round trip is not the identity")

# --- 4. how common: share of millisecond values in one minute of the year 2300 that are altered ---------
base = TimestampConverter.to_unix_millis(datetime.datetime(2300, 1, 1, tzinfo=UTC))
altered = sum(
    TimestampConverter.to_unix_millis(TimestampConverter.from_unix_millis(base + k)) != base + k
    for k in range(60_000)
)
inexact = sum(
    TimestampConverter.from_unix_millis(base + k).microsecond % 1000 != 0 for k in range(60_000)
)
if altered or inexact:
    failures.append(
        f"year 2300: {inexact} of 60000 consecutive millisecond values decode to a datetime that is not a whole "
        f"millisecond, {altered} of them re-encode to a different millisecond value"
    )

if failures:
    print("C20 VIOLATED - the millisecond JSON codec is not a lossless inverse for timestamps >= 2242-03-16:")
    for f in failures:
        print("  -", f)
    sys.exit(1)
print("no violation observed")
