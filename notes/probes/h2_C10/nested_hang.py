"""Observation (not C10): orphaned branch that is inside a nested map never returns (thread leak)."""
import sys, threading, time
import os; sys.path.insert(0, os.path.dirname(os.path.abspath(__file__)))
from c10_harness import PROBE, FakeBackend, drive
from aws_durable_execution_sdk_python.config import CompletionConfig, ParallelConfig, MapConfig
from aws_durable_execution_sdk_python.execution import durable_execution

PROBE.install()
inner_started = threading.Event()
state = {}

def fast(c):
    inner_started.wait(5)
    return c.step(lambda _: "fast", name="fast")

def slow(c):
    def item(ic, it, idx, items):
        inner_started.set()
        ic.step(lambda _: time.sleep(0.8) or "x", name=f"inner-{idx}")
        return ic.step(lambda _: "y", name=f"inner2-{idx}")
    try:
        r = c.map([1, 2], item, name="inner-map")
        state["slow"] = "returned"
    except BaseException as e:
        state["slow"] = f"raised {type(e).__name__}"
        raise

@durable_execution
def handler(event, ctx):
    r = ctx.parallel([fast, slow], name="outer", config=ParallelConfig(completion_config=CompletionConfig.first_successful()))
    return r.success_count

b = FakeBackend()
before = threading.active_count()
res = drive(handler, b)
print(res[-1].get("result"))
time.sleep(3)
print("slow branch:", state.get("slow", "STILL BLOCKED inside ctx.map()"))
print("threads before/after:", before, threading.active_count(), [t.name for t in threading.enumerate()])
print("backend violations:", b.violations, "probe:", PROBE.violations)
print(b.dump())
import os; os._exit(0)
