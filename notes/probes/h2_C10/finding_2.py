"""C10 finding 2 - in an orphaned branch, a user-supplied function of the next durable operation
still runs: the retry strategy of an at-most-once step that is found STARTED (interrupted).

Run:  PYTHONPATH=/tmp/wt/h2_C10/src /venv/bin/python /tmp/wt/h2_C10/finding_2.py

Workflow (legal use of the public API):

    parallel([fast, slow], completion_config=CompletionConfig.first_successful())
      fast: wait(1s) ; step "fast-step"
      slow: step "a" ; <plain user code> ;
            step "charge" (AT_MOST_ONCE_PER_RETRY, retry_strategy=<user function>)

Invocation 1 dies while the step function of "charge" is running (Lambda timeout / sandbox
killed; simulated here by a BaseException that nothing handles), so the history holds
"charge" as STARTED. The backend delivers fast's wait and re-invokes.
Invocation 2: fast finishes -> the parallel is handed its completion record while slow is
between "a" and "charge". slow's next durable operation is ctx.step("charge"). The property
says the orphaned branch is stopped there before the operation's user function runs. Instead
StepOperationExecutor.check_result_status() goes straight into retry_handler() for the
interrupted at-most-once step and calls the user's retry strategy; only the RETRY/FAIL
checkpoint that follows is rejected. (OperationExecutor.process() consults raise_if_orphaned()
only after check_result_status() has returned "ready to execute".)
"""

from __future__ import annotations

import dataclasses
import datetime
import sys
import threading
import time
from unittest.mock import Mock

from aws_durable_execution_sdk_python.config import (
    CompletionConfig,
    Duration,
    ParallelConfig,
    StepConfig,
    StepSemantics,
)
from aws_durable_execution_sdk_python.execution import (
    DurableExecutionInvocationInputWithClient,
    InitialExecutionState,
    durable_execution,
)
from aws_durable_execution_sdk_python.lambda_service import (
    CheckpointOutput,
    CheckpointUpdatedExecutionState,
    ContextDetails,
    ExecutionDetails,
    Operation,
    OperationAction,
    OperationStatus,
    OperationType,
    StateOutput,
    StepDetails,
    WaitDetails,
)
from aws_durable_execution_sdk_python.retries import RetryDecision

UTC = datetime.UTC


class Backend:
    """In-memory backend: applies updates, records them in arrival order, plays them back as history."""

    def __init__(self):
        self.lock = threading.RLock()
        self.ops = {
            "exec": Operation(
                operation_id="exec",
                operation_type=OperationType.EXECUTION,
                status=OperationStatus.STARTED,
                execution_details=ExecutionDetails(input_payload="{}"),
            )
        }
        self.log = []  # updates in arrival order
        self.parallel_completed = threading.Event()

    def checkpoint(self, durable_execution_arn, checkpoint_token, updates, client_token):
        with self.lock:
            now = datetime.datetime.now(tz=UTC)
            changed = []
            for u in updates:
                self.log.append(u)
                prev = self.ops.get(u.operation_id)
                base = dict(
                    operation_id=u.operation_id,
                    operation_type=u.operation_type,
                    parent_id=u.parent_id,
                    name=u.name,
                    sub_type=u.sub_type,
                )
                if u.operation_type is OperationType.CONTEXT:
                    if u.action is OperationAction.START:
                        op = Operation(status=OperationStatus.STARTED, **base)
                    elif u.action is OperationAction.SUCCEED:
                        op = Operation(
                            status=OperationStatus.SUCCEEDED,
                            context_details=ContextDetails(result=u.payload),
                            **base,
                        )
                    else:
                        op = Operation(
                            status=OperationStatus.FAILED,
                            context_details=ContextDetails(error=u.error),
                            **base,
                        )
                elif u.operation_type is OperationType.STEP:
                    attempt = prev.step_details.attempt if prev and prev.step_details else 0
                    if u.action is OperationAction.START:
                        op = Operation(
                            status=OperationStatus.STARTED,
                            step_details=StepDetails(attempt=attempt),
                            **base,
                        )
                    elif u.action is OperationAction.SUCCEED:
                        op = Operation(
                            status=OperationStatus.SUCCEEDED,
                            step_details=StepDetails(attempt=attempt + 1, result=u.payload),
                            **base,
                        )
                    else:
                        op = Operation(
                            status=OperationStatus.FAILED,
                            step_details=StepDetails(attempt=attempt + 1, error=u.error),
                            **base,
                        )
                elif u.operation_type is OperationType.WAIT:
                    op = Operation(
                        status=OperationStatus.STARTED,
                        wait_details=WaitDetails(
                            scheduled_end_timestamp=now
                            + datetime.timedelta(seconds=u.wait_options.wait_seconds)
                        ),
                        **base,
                    )
                else:
                    raise AssertionError(f"unexpected update {u}")
                self.ops[u.operation_id] = op
                changed.append(op)
                if (
                    u.operation_type is OperationType.CONTEXT
                    and u.name == "race"
                    and u.action in (OperationAction.SUCCEED, OperationAction.FAIL)
                ):
                    self.parallel_completed.set()
            return CheckpointOutput(
                checkpoint_token="t",
                new_execution_state=CheckpointUpdatedExecutionState(operations=changed),
            )

    def get_execution_state(self, *a, **k):
        return StateOutput(operations=[], next_marker=None)

    def deliver_wait(self, name):
        with self.lock:
            for oid, op in self.ops.items():
                if op.operation_type is OperationType.WAIT and op.name == name:
                    self.ops[oid] = dataclasses.replace(op, status=OperationStatus.SUCCEEDED)

    def invocation_input(self):
        with self.lock:
            return DurableExecutionInvocationInputWithClient(
                durable_execution_arn="arn:test",
                checkpoint_token="tok",
                initial_execution_state=InitialExecutionState(
                    operations=list(self.ops.values()), next_marker=""
                ),
                service_client=self,
            )


def lambda_context():
    c = Mock()
    c.aws_request_id = "req"
    c.client_context = None
    c.identity = None
    c._epoch_deadline_time_in_ms = 0  # noqa: SLF001
    c.invoked_function_arn = "arn"
    c.tenant_id = None
    return c


backend = Backend()
invocation = {"n": 0}
trace: list[str] = []  # what the slow branch does in invocation 2
slow_done = threading.Event()


class SandboxKilled(BaseException):
    """Stands for the Lambda sandbox being killed: nothing in the SDK or the handler handles it."""


def fast(c):
    c.wait(Duration.from_seconds(1), name="fast-wait")
    return c.step(lambda _: "fast", name="fast-step")


def my_retry_strategy(error, attempt):
    """User function configured on the step (could page somebody, bump a metric ...)."""
    if invocation["n"] == 2:
        trace.append(f"user retry strategy of 'charge' RUNS ({type(error).__name__}, attempt {attempt})")
    return RetryDecision.retry(Duration.from_seconds(5)) if attempt < 3 else RetryDecision.no_retry()


def charge(_sc):
    if invocation["n"] == 1:
        # wait until the other branch has recorded its wait, then the sandbox dies under us
        deadline = time.time() + 10
        while time.time() < deadline and not any(
            op.name == "fast-wait" for op in list(backend.ops.values())
        ):
            time.sleep(0.01)
        raise SandboxKilled
    trace.append("step function of 'charge' RUNS")
    return "charged"


def slow(c):
    second = invocation["n"] == 2
    try:
        c.step(lambda _: "a", name="a")
        if second:
            # plain deterministic user code that takes a while: meanwhile the parallel completes
            assert backend.parallel_completed.wait(20), "parallel did not complete"
            trace.append("after a: parallel has its completion record now")
        return c.step(
            charge,
            name="charge",
            config=StepConfig(
                step_semantics=StepSemantics.AT_MOST_ONCE_PER_RETRY,
                retry_strategy=my_retry_strategy,
            ),
        )
    finally:
        if second:
            slow_done.set()


@durable_execution
def handler(event, ctx):
    res = ctx.parallel(
        [fast, slow],
        name="race",
        config=ParallelConfig(completion_config=CompletionConfig.first_successful()),
    )
    return {"success": res.success_count, "started": res.started_count}


def invoke():
    invocation["n"] += 1
    box = {}

    def run():
        try:
            box["r"] = handler(backend.invocation_input(), lambda_context())
        except BaseException as e:  # noqa: BLE001
            box["e"] = e

    t = threading.Thread(target=run, daemon=True)
    t.start()
    t.join(30)
    assert not t.is_alive(), "invocation hangs"
    return box


def main():
    b1 = invoke()
    assert isinstance(b1.get("e"), SandboxKilled), b1
    names = {op.name: op.status.value for op in backend.ops.values()}
    assert names["a"] == "SUCCEEDED" and names["charge"] == "STARTED", names
    assert names["fast-wait"] == "STARTED" and names["race"] == "STARTED", names

    backend.deliver_wait("fast-wait")
    n_before = len(backend.log)
    b2 = invoke()
    assert "r" in b2 and b2["r"]["Status"] == "SUCCEEDED", b2
    assert slow_done.wait(20), "slow branch never ended"

    print("invocation 2 result:", b2["r"].get("Result"))
    print("updates of invocation 2:", [(u.name, u.action.value) for u in backend.log[n_before:]])
    print("slow branch in invocation 2:", trace)

    # clause 1 holds: nothing of the orphan reached the backend
    after = [u.name for u in backend.log[n_before:]]
    assert after.index("race") == len(after) - 1, after

    # clause 2: stopped at its next durable operation before that operation's user function runs
    assert trace and trace[0].startswith("after a"), trace
    ran = [t for t in trace if "RUNS" in t]
    assert not ran, (
        "C10 violated: the parallel had been handed its completion record while the surviving "
        "branch was between two operations; at its next durable operation ctx.step('charge') a "
        f"user function of that operation still ran: {ran}"
    )
    print("OK: no user function of the orphaned branch's next operation ran")


if __name__ == "__main__":
    try:
        main()
    except AssertionError as e:
        print("ASSERTION FAILED:", e)
        sys.exit(1)
