"""C10 finding 1 - an orphaned branch is NOT stopped at its next durable operation when that
operation is found completed in the history (replay): it is handed the recorded result and keeps
running the user's code after it.

Run:  PYTHONPATH=/tmp/wt/h2_C10/src /venv/bin/python /tmp/wt/h2_C10/finding_1.py

Workflow (legal, deterministic use of the public API):

    parallel([fast, slow], completion_config=CompletionConfig.first_successful())
      fast: wait(1s) ; step "fast-step"
      slow: step "a" ; <plain user code> ; step "b" ; <plain user code> ; wait(1h) ; step "c"

Invocation 1: fast parks on its wait, slow runs a and b and parks on its wait -> PENDING.
The backend delivers fast's wait and re-invokes with the recorded history.
Invocation 2: fast finishes -> the parallel is complete and is handed its completion record
while slow (re-traversing its recorded steps) is between "a" and "b" - "between two operations"
in the words of the property. slow's next durable operation is ctx.step("b"): the property says
the orphaned branch is stopped there. It is not: process() returns the recorded result of "b"
without consulting the orphan state (raise_if_orphaned is only reached on the ready-to-execute
path), and the user code that follows "b" runs. The branch is only stopped one operation later,
at the wait that is still open.
"""

from __future__ import annotations

import dataclasses
import datetime
import sys
import threading
from unittest.mock import Mock

from aws_durable_execution_sdk_python.config import (
    CompletionConfig,
    Duration,
    ParallelConfig,
)
from aws_durable_execution_sdk_python.execution import (
    DurableExecutionInvocationInputWithClient,
    InitialExecutionState,
    durable_execution,
)
from aws_durable_execution_sdk_python.lambda_service import (
    CheckpointOutput,
    CheckpointUpdatedExecutionState,
    ContextDetails,
    ExecutionDetails,
    Operation,
    OperationAction,
    OperationStatus,
    OperationType,
    StateOutput,
    StepDetails,
    WaitDetails,
)

UTC = datetime.UTC


class Backend:
    """In-memory backend: applies updates, records them in arrival order, plays them back as history."""

    def __init__(self):
        self.lock = threading.RLock()
        self.ops = {
            "exec": Operation(
                operation_id="exec",
                operation_type=OperationType.EXECUTION,
                status=OperationStatus.STARTED,
                execution_details=ExecutionDetails(input_payload="{}"),
            )
        }
        self.log = []  # updates in arrival order
        self.parallel_completed = threading.Event()

    def checkpoint(self, durable_execution_arn, checkpoint_token, updates, client_token):
        with self.lock:
            now = datetime.datetime.now(tz=UTC)
            changed = []
            for u in updates:
                self.log.append(u)
                prev = self.ops.get(u.operation_id)
                base = dict(
                    operation_id=u.operation_id,
                    operation_type=u.operation_type,
                    parent_id=u.parent_id,
                    name=u.name,
                    sub_type=u.sub_type,
                )
                if u.operation_type is OperationType.CONTEXT:
                    if u.action is OperationAction.START:
                        op = Operation(status=OperationStatus.STARTED, **base)
                    elif u.action is OperationAction.SUCCEED:
                        op = Operation(
                            status=OperationStatus.SUCCEEDED,
                            context_details=ContextDetails(result=u.payload),
                            **base,
                        )
                    else:
                        op = Operation(
                            status=OperationStatus.FAILED,
                            context_details=ContextDetails(error=u.error),
                            **base,
                        )
                elif u.operation_type is OperationType.STEP:
                    attempt = prev.step_details.attempt if prev and prev.step_details else 0
                    if u.action is OperationAction.START:
                        op = Operation(
                            status=OperationStatus.STARTED,
                            step_details=StepDetails(attempt=attempt),
                            **base,
                        )
                    elif u.action is OperationAction.SUCCEED:
                        op = Operation(
                            status=OperationStatus.SUCCEEDED,
                            step_details=StepDetails(attempt=attempt + 1, result=u.payload),
                            **base,
                        )
                    else:
                        op = Operation(
                            status=OperationStatus.FAILED,
                            step_details=StepDetails(attempt=attempt + 1, error=u.error),
                            **base,
                        )
                elif u.operation_type is OperationType.WAIT:
                    op = Operation(
                        status=OperationStatus.STARTED,
                        wait_details=WaitDetails(
                            scheduled_end_timestamp=now
                            + datetime.timedelta(seconds=u.wait_options.wait_seconds)
                        ),
                        **base,
                    )
                else:
                    raise AssertionError(f"unexpected update {u}")
                self.ops[u.operation_id] = op
                changed.append(op)
                if (
                    u.operation_type is OperationType.CONTEXT
                    and u.name == "race"
                    and u.action in (OperationAction.SUCCEED, OperationAction.FAIL)
                ):
                    self.parallel_completed.set()
            return CheckpointOutput(
                checkpoint_token="t",
                new_execution_state=CheckpointUpdatedExecutionState(operations=changed),
            )

    def get_execution_state(self, *a, **k):
        return StateOutput(operations=[], next_marker=None)

    def deliver_wait(self, name):
        with self.lock:
            for oid, op in self.ops.items():
                if op.operation_type is OperationType.WAIT and op.name == name:
                    self.ops[oid] = dataclasses.replace(op, status=OperationStatus.SUCCEEDED)

    def invocation_input(self):
        with self.lock:
            return DurableExecutionInvocationInputWithClient(
                durable_execution_arn="arn:test",
                checkpoint_token="tok",
                initial_execution_state=InitialExecutionState(
                    operations=list(self.ops.values()), next_marker=""
                ),
                service_client=self,
            )


def lambda_context():
    c = Mock()
    c.aws_request_id = "req"
    c.client_context = None
    c.identity = None
    c._epoch_deadline_time_in_ms = 0  # noqa: SLF001
    c.invoked_function_arn = "arn"
    c.tenant_id = None
    return c


backend = Backend()
invocation = {"n": 0}
trace: list[str] = []  # what the slow branch does in invocation 2
slow_done = threading.Event()


def fast(c):
    c.wait(Duration.from_seconds(1), name="fast-wait")
    return c.step(lambda _: "fast", name="fast-step")


def slow(c):
    second = invocation["n"] == 2
    try:
        c.step(lambda _: "a", name="a")
        if second:
            # plain deterministic user code between two operations that happens to take a while:
            # by the time it is done, the parallel has been handed its completion record
            # (and the record has even reached the backend)
            assert backend.parallel_completed.wait(20), "parallel did not complete"
            trace.append("after a: parallel has its completion record now")
        c.step(lambda _: "b", name="b")  # <- the orphaned branch's next durable operation
        if second:
            trace.append("user code after step b RUNS")
        c.wait(Duration.from_seconds(3600), name="slow-wait")
        return c.step(lambda _: "c", name="c")
    except BaseException as e:
        if second:
            trace.append(f"stopped by {type(e).__name__}")
        raise
    finally:
        if second:
            slow_done.set()


@durable_execution
def handler(event, ctx):
    res = ctx.parallel(
        [fast, slow],
        name="race",
        config=ParallelConfig(completion_config=CompletionConfig.first_successful()),
    )
    return {"success": res.success_count, "started": res.started_count}


def invoke():
    invocation["n"] += 1
    box = {}

    def run():
        box["r"] = handler(backend.invocation_input(), lambda_context())

    t = threading.Thread(target=run, daemon=True)
    t.start()
    t.join(30)
    assert not t.is_alive(), "invocation hangs"
    return box["r"]


def main():
    r1 = invoke()
    assert r1["Status"] == "PENDING", r1
    names = {op.name: op.status.value for op in backend.ops.values()}
    assert names["a"] == "SUCCEEDED" and names["b"] == "SUCCEEDED", names
    assert names["slow-wait"] == "STARTED" and names["race"] == "STARTED", names

    backend.deliver_wait("fast-wait")  # the backend's timer fires for the 1 s wait only
    n_before = len(backend.log)
    r2 = invoke()
    assert r2["Status"] == "SUCCEEDED", r2
    assert slow_done.wait(20), "slow branch never ended"

    print("invocation 2 result:", r2.get("Result"))
    print("updates of invocation 2:", [(u.name, u.action.value) for u in backend.log[n_before:]])
    print("slow branch in invocation 2:", trace)

    # clause 1 holds: nothing of the orphan reached the backend
    after = [u.name for u in backend.log[n_before:]]
    assert after.index("race") == len(after) - 1, after

    # clause 2: "a still-running orphaned branch is stopped at its next durable operation"
    assert trace[0].startswith("after a"), trace
    assert "user code after step b RUNS" not in trace, (
        "C10 violated: the parallel had been handed its completion record (it had even reached the "
        "backend) while the surviving branch was between two operations; its next durable operation "
        "ctx.step('b') did not stop it - the recorded result was returned and the branch went on "
        f"running user code until a later operation: {trace}"
    )
    print("OK: orphaned branch was stopped at its next durable operation")


if __name__ == "__main__":
    try:
        main()
    except AssertionError as e:
        print("ASSERTION FAILED:", e)
        sys.exit(1)
