"""Suspicion check (not a C10 violation): legitimate re-traversal of a summarised context in the same
invocation is rejected as orphaned work when the context holds a non-terminal operation."""
import sys, threading, time
import os; sys.path.insert(0, os.path.dirname(os.path.abspath(__file__)))
from c10_harness import PROBE, FakeBackend, run_invocation
from aws_durable_execution_sdk_python.config import Duration
from aws_durable_execution_sdk_python.execution import durable_execution
PROBE.install()
BIG = "x" * (300 * 1024)
trace = []
def b0(c):
    def body(cc):
        cb = cc.create_callback(name="notify")   # id is handed to an external system, never awaited here
        trace.append(f"body run, callback {cb.callback_id}")
        return BIG
    c.run_in_child_context(body, name="D")
    c.wait(Duration.from_seconds(1), name="w")
    trace.append("after wait")
    return "b0"
def b1(c):
    return c.step(lambda _: time.sleep(2.5) or "b1", name="long")
@durable_execution
def handler(event, ctx):
    return ctx.parallel([b0, b1], name="p").success_count
b = FakeBackend()
box = run_invocation(handler, b, timeout=15)
print("invocation:", "HANG" if box.get("hang") else box.get("result") or repr(box.get("error")))
print("trace:", trace, "orphan raises:", PROBE.orphan_raises)
import os; os._exit(0)
