"""Shared harness for the C10 hunt: in-memory backend + instrumentation + invocation driver.

Run scripts that import this with PYTHONPATH=/tmp/wt/h2_C10/src (and /tmp/wt/h2_C10 on sys.path).
"""

from __future__ import annotations

import datetime
import itertools
import threading
import time
from unittest.mock import Mock

from aws_durable_execution_sdk_python import state as state_mod
from aws_durable_execution_sdk_python.execution import (
    DurableExecutionInvocationInputWithClient,
    InitialExecutionState,
)
from aws_durable_execution_sdk_python.lambda_service import (
    CallbackDetails,
    ChainedInvokeDetails,
    CheckpointOutput,
    CheckpointUpdatedExecutionState,
    ContextDetails,
    ExecutionDetails,
    Operation,
    OperationAction,
    OperationStatus,
    OperationType,
    StateOutput,
    StepDetails,
    WaitDetails,
)
from aws_durable_execution_sdk_python.operation import base as base_mod
from aws_durable_execution_sdk_python.operation.child import ChildOperationExecutor
from aws_durable_execution_sdk_python.operation.step import StepOperationExecutor
from aws_durable_execution_sdk_python.operation.wait_for_condition import (
    WaitForConditionOperationExecutor,
)

UTC = datetime.UTC
TERMINAL = {
    OperationStatus.SUCCEEDED,
    OperationStatus.FAILED,
    OperationStatus.CANCELLED,
    OperationStatus.STOPPED,
    OperationStatus.TIMED_OUT,
}


class FakeBackend:
    """Records every update in arrival order, keeps Operation state, plays it back as history."""

    def __init__(self, response_all_ops: bool = False, checkpoint_delay: float = 0.0):
        self.lock = threading.RLock()
        self.ops: dict[str, Operation] = {}
        self.order: list[str] = []
        self.log: list[tuple[int, int, object]] = []  # (seq, invocation, update)
        self.violations: list[str] = []
        self.other: list[str] = []
        self.completed_contexts: dict[str, int] = {}  # id -> seq of completion record
        self.seq = itertools.count()
        self.invocation = 0
        self.calls = 0
        self.response_all_ops = response_all_ops
        self.checkpoint_delay = checkpoint_delay
        self.ops["exec"] = Operation(
            operation_id="exec",
            operation_type=OperationType.EXECUTION,
            status=OperationStatus.STARTED,
            execution_details=ExecutionDetails(input_payload="{}"),
        )
        self.order.append("exec")
        self.cb_counter = itertools.count()
        self.fail_next_checkpoint: Exception | None = None

    # ---- helpers
    def ancestors(self, parent_id):
        seen = []
        cur = parent_id
        while cur and cur not in seen:
            seen.append(cur)
            op = self.ops.get(cur)
            cur = op.parent_id if op else None
        return seen

    def _refresh_time(self) -> list[str]:
        """time based transitions; returns ids changed"""
        now = datetime.datetime.now(tz=UTC)
        changed = []
        for oid, op in list(self.ops.items()):
            if (
                op.operation_type is OperationType.WAIT
                and op.status is OperationStatus.STARTED
                and op.wait_details
                and op.wait_details.scheduled_end_timestamp
                and op.wait_details.scheduled_end_timestamp <= now
            ):
                self.ops[oid] = _replace(op, status=OperationStatus.SUCCEEDED)
                changed.append(oid)
            elif (
                op.operation_type is OperationType.STEP
                and op.status is OperationStatus.PENDING
                and op.step_details
                and op.step_details.next_attempt_timestamp
                and op.step_details.next_attempt_timestamp <= now
            ):
                self.ops[oid] = _replace(op, status=OperationStatus.READY)
                changed.append(oid)
        return changed

    def advance(self, complete_callbacks=True, complete_invokes=True, force_time=True):
        """Between invocations: everything that waits on the outside world is delivered."""
        with self.lock:
            for oid, op in list(self.ops.items()):
                if op.status in TERMINAL:
                    continue
                if op.operation_type is OperationType.WAIT and force_time:
                    self.ops[oid] = _replace(op, status=OperationStatus.SUCCEEDED)
                elif (
                    op.operation_type is OperationType.STEP
                    and op.status is OperationStatus.PENDING
                    and force_time
                ):
                    self.ops[oid] = _replace(op, status=OperationStatus.READY)
                elif op.operation_type is OperationType.CALLBACK and complete_callbacks:
                    self.ops[oid] = _replace(
                        op,
                        status=OperationStatus.SUCCEEDED,
                        callback_details=CallbackDetails(
                            callback_id=op.callback_details.callback_id, result='"cb"'
                        ),
                    )
                elif (
                    op.operation_type is OperationType.CHAINED_INVOKE
                    and complete_invokes
                ):
                    self.ops[oid] = _replace(
                        op,
                        status=OperationStatus.SUCCEEDED,
                        chained_invoke_details=ChainedInvokeDetails(result='"inv"'),
                    )

    # ---- service client protocol
    def checkpoint(self, durable_execution_arn, checkpoint_token, updates, client_token):
        if self.checkpoint_delay:
            time.sleep(self.checkpoint_delay)
        with self.lock:
            self.calls += 1
            if self.fail_next_checkpoint is not None:
                e = self.fail_next_checkpoint
                self.fail_next_checkpoint = None
                raise e
            changed = self._refresh_time()
            now = datetime.datetime.now(tz=UTC)
            for u in updates:
                seq = next(self.seq)
                self.log.append((seq, self.invocation, u))
                # ---- C10 invariant at the backend
                for anc in self.ancestors(u.parent_id):
                    if anc in self.completed_contexts:
                        self.violations.append(
                            f"update #{seq} (inv {self.invocation}) {u.operation_type.value}/{u.action.value} "
                            f"name={u.name!r} id={u.operation_id[:8]} arrives after ancestor context "
                            f"{self.ops[anc].name!r} id={anc[:8]} got its completion record (#{self.completed_contexts[anc]})"
                        )
                        break
                prev = self.ops.get(u.operation_id)
                if prev is not None and prev.status in TERMINAL:
                    self.other.append(
                        f"update #{seq} {u.operation_type.value}/{u.action.value} name={u.name!r} for an operation that is already {prev.status.value}"
                    )
                self._apply(u, prev, now, seq)
                changed.append(u.operation_id)
            if self.response_all_ops:
                ops = [self.ops[i] for i in self.order]
            else:
                ops = [self.ops[i] for i in dict.fromkeys(changed)]
            return CheckpointOutput(
                checkpoint_token=f"tok-{self.calls}",
                new_execution_state=CheckpointUpdatedExecutionState(
                    operations=ops, next_marker=None
                ),
            )

    def _apply(self, u, prev, now, seq):
        oid = u.operation_id
        if prev is None:
            self.order.append(oid)
        base = dict(
            operation_id=oid,
            operation_type=u.operation_type,
            parent_id=u.parent_id if u.parent_id else (prev.parent_id if prev else None),
            name=u.name or (prev.name if prev else None),
            sub_type=u.sub_type or (prev.sub_type if prev else None),
            start_timestamp=prev.start_timestamp if prev else now,
        )
        t, a = u.operation_type, u.action
        if t is OperationType.CONTEXT:
            if a is OperationAction.START:
                op = Operation(status=OperationStatus.STARTED, **base)
            elif a is OperationAction.SUCCEED:
                rc = bool(u.context_options and u.context_options.replay_children)
                op = Operation(
                    status=OperationStatus.SUCCEEDED,
                    context_details=ContextDetails(replay_children=rc, result=u.payload),
                    end_timestamp=now,
                    **base,
                )
                self.completed_contexts[oid] = seq
            else:
                op = Operation(
                    status=OperationStatus.FAILED,
                    context_details=ContextDetails(error=u.error),
                    end_timestamp=now,
                    **base,
                )
                self.completed_contexts[oid] = seq
        elif t is OperationType.STEP:
            attempt = prev.step_details.attempt if prev and prev.step_details else 0
            result = prev.step_details.result if prev and prev.step_details else None
            if a is OperationAction.START:
                op = Operation(
                    status=OperationStatus.STARTED,
                    step_details=StepDetails(attempt=attempt, result=result),
                    **base,
                )
            elif a is OperationAction.SUCCEED:
                op = Operation(
                    status=OperationStatus.SUCCEEDED,
                    step_details=StepDetails(attempt=attempt + 1, result=u.payload),
                    end_timestamp=now,
                    **base,
                )
            elif a is OperationAction.RETRY:
                delay = u.step_options.next_attempt_delay_seconds if u.step_options else 1
                op = Operation(
                    status=OperationStatus.PENDING,
                    step_details=StepDetails(
                        attempt=attempt + 1,
                        next_attempt_timestamp=now + datetime.timedelta(seconds=delay),
                        result=u.payload if u.payload is not None else result,
                        error=u.error,
                    ),
                    **base,
                )
            else:
                op = Operation(
                    status=OperationStatus.FAILED,
                    step_details=StepDetails(attempt=attempt + 1, error=u.error),
                    end_timestamp=now,
                    **base,
                )
        elif t is OperationType.WAIT:
            secs = u.wait_options.wait_seconds if u.wait_options else 1
            op = Operation(
                status=OperationStatus.STARTED,
                wait_details=WaitDetails(
                    scheduled_end_timestamp=now + datetime.timedelta(seconds=secs)
                ),
                **base,
            )
        elif t is OperationType.CALLBACK:
            op = Operation(
                status=OperationStatus.STARTED,
                callback_details=CallbackDetails(callback_id=f"cb-{next(self.cb_counter)}"),
                **base,
            )
        elif t is OperationType.CHAINED_INVOKE:
            op = Operation(
                status=OperationStatus.STARTED,
                chained_invoke_details=ChainedInvokeDetails(),
                **base,
            )
        else:  # EXECUTION
            op = Operation(
                status=OperationStatus.SUCCEEDED
                if a is OperationAction.SUCCEED
                else OperationStatus.FAILED,
                **base,
            )
        self.ops[oid] = op

    def get_execution_state(self, durable_execution_arn, checkpoint_token, next_marker, max_items=1000):
        with self.lock:
            start = int(next_marker)
            page = self._page_size
            ids = self._history_ids[start : start + page]
            nxt = str(start + page) if start + page < len(self._history_ids) else None
            return StateOutput(operations=[self._history[i] for i in ids], next_marker=nxt)

    def make_input(self, page_size: int | None = None):
        with self.lock:
            self.invocation += 1
            self._refresh_time()
            self._history = dict(self.ops)
            self._history_ids = list(self.order)
            self._page_size = page_size or 10**9
            first = self._history_ids[: self._page_size]
            nxt = (
                str(self._page_size)
                if self._page_size < len(self._history_ids)
                else None
            )
            return DurableExecutionInvocationInputWithClient(
                durable_execution_arn="arn:fake",
                checkpoint_token=f"inv-{self.invocation}",
                initial_execution_state=InitialExecutionState(
                    operations=[self._history[i] for i in first], next_marker=nxt or ""
                ),
                service_client=self,
            )

    def dump(self):
        out = []
        for seq, inv, u in self.log:
            out.append(
                f"#{seq:3d} inv{inv} {u.operation_type.value:8s} {u.action.value:8s} name={u.name!r} id={u.operation_id[:8]} parent={(u.parent_id or '-')[:8]}"
            )
        return "\n".join(out)


def _replace(op: Operation, **kw) -> Operation:
    import dataclasses

    return dataclasses.replace(op, **kw)


def lambda_ctx():
    c = Mock()
    c.aws_request_id = "req"
    c.client_context = None
    c.identity = None
    c._epoch_deadline_time_in_ms = 0  # noqa: SLF001
    c.invoked_function_arn = "arn"
    c.tenant_id = None
    return c


# --------------------------------------------------------------------------------------
# Instrumentation of the SDK (wrapping only, nothing in src is modified)
# --------------------------------------------------------------------------------------
class Probe:
    """Detects 'user function of an operation that was reached after an ancestor completed'."""

    def __init__(self):
        self.lock = threading.Lock()
        self.handed: dict[tuple[int, str], int] = {}  # (state id, ctx id) -> seq
        self.parent: dict[tuple[int, str], str | None] = {}
        self.seq = itertools.count()
        self.violations: list[str] = []
        self.tls = threading.local()
        self.installed = False
        self.events: list[str] = []
        self.orphan_raises = 0

    def install(self):
        if self.installed:
            return
        self.installed = True
        probe = self
        from aws_durable_execution_sdk_python import exceptions as exc_mod

        orig_init = exc_mod.OrphanedChildException.__init__

        def init(self_, *a, **k):
            probe.orphan_raises += 1
            orig_init(self_, *a, **k)

        exc_mod.OrphanedChildException.__init__ = init
        orig_enqueue = state_mod.ExecutionState._enqueue_checkpoint  # noqa: SLF001

        def enqueue(self_, operation_update, is_sync):
            ev = orig_enqueue(self_, operation_update, is_sync)
            if (
                operation_update is not None
                and operation_update.operation_type is OperationType.CONTEXT
                and operation_update.action
                in {OperationAction.SUCCEED, OperationAction.FAIL}
            ):
                with probe.lock:
                    probe.handed[(id(self_), operation_update.operation_id)] = next(
                        probe.seq
                    )
            return ev

        state_mod.ExecutionState._enqueue_checkpoint = enqueue  # noqa: SLF001

        orig_process = base_mod.OperationExecutor.process

        def process(self_):
            st = getattr(self_, "state", None)
            ident = self_.operation_identifier
            orphan_of = None
            if st is not None:
                with probe.lock:
                    probe.parent[(id(st), ident.operation_id)] = ident.parent_id
                    cur = ident.parent_id
                    seen = set()
                    while cur and cur not in seen:
                        seen.add(cur)
                        if (id(st), cur) in probe.handed:
                            orphan_of = cur
                            break
                        nxt = probe.parent.get((id(st), cur))
                        if nxt is None:
                            rec = st.operations.get(cur)
                            nxt = rec.parent_id if rec else None
                        cur = nxt
            stack = getattr(probe.tls, "stack", None)
            if stack is None:
                stack = probe.tls.stack = []
            stack.append((self_, orphan_of))
            try:
                return orig_process(self_)
            finally:
                stack.pop()

        base_mod.OperationExecutor.process = process

        def wrap_execute(cls, label):
            orig = cls.execute

            def execute(self_, checkpointed_result):
                stack = getattr(probe.tls, "stack", [])
                if stack and stack[-1][0] is self_ and stack[-1][1] is not None:
                    summarised = (
                        isinstance(self_, ChildOperationExecutor)
                        and checkpointed_result.is_succeeded()
                        and checkpointed_result.is_replay_children()
                    )
                    msg = (
                        f"{label} {self_.operation_identifier.name!r} id={self_.operation_identifier.operation_id[:8]} "
                        f"was reached after ancestor {stack[-1][1][:8]} had been handed its completion record, "
                        f"yet its user function runs (record status={checkpointed_result.status}, summarised={summarised})"
                    )
                    with probe.lock:
                        (probe.events if summarised else probe.violations).append(msg)
                return orig(self_, checkpointed_result)

            cls.execute = execute

        wrap_execute(StepOperationExecutor, "step")
        wrap_execute(WaitForConditionOperationExecutor, "wait_for_condition")
        wrap_execute(ChildOperationExecutor, "context")


PROBE = Probe()


def run_invocation(handler, backend: FakeBackend, page_size=None, timeout=60.0):
    """Run one invocation in a thread so that a hang is detected."""
    event = backend.make_input(page_size)
    box = {}

    def target():
        try:
            box["result"] = handler(event, lambda_ctx())
        except BaseException as e:  # noqa: BLE001
            box["error"] = e

    t = threading.Thread(target=target, daemon=True)
    t.start()
    t.join(timeout)
    if t.is_alive():
        box["hang"] = True
    return box


def drive(handler, backend: FakeBackend, max_invocations=8, page_size=None, settle=0.0, timeout=60.0, advance_kw=None):
    """Invoke until the execution is no longer PENDING."""
    results = []
    for _ in range(max_invocations):
        box = run_invocation(handler, backend, page_size=page_size, timeout=timeout)
        results.append(box)
        if box.get("hang") or "error" in box:
            break
        if box["result"]["Status"] != "PENDING":
            break
        if settle:
            time.sleep(settle)
        backend.advance(**(advance_kw or {}))
    return results
