"""C12 finding 1: the packaged retry strategy raises OverflowError instead of returning a delay.

Clause violated: "The packaged strategies return delays within [1 s, max delay] that follow the configured
backoff and jitter" (for all strategy configurations), and, as a consequence inside a step, "when the strategy
declines, the failure is durably recorded" / "runs exactly min(failures+1, maximum attempts) times": the step
records neither a RETRY nor a FAIL, the OverflowError escapes to user code and the execution fails.

Site: retries.py:create_retry_strategy.<locals>.retry_strategy
        base_delay = min(initial_delay_seconds * (backoff_rate ** (attempts_made - 1)), max_delay_seconds)
      A float ``backoff_rate`` (the dataclass default is the float 2.0) raised to a large enough power raises
      OverflowError *before* min() can cap it:  2.0**1024, 10.0**309, 1.5**1751 ...

Run:  PYTHONPATH=/tmp/wt/h1_C12/src /venv/bin/python finding_1.py
"""
from __future__ import annotations
import datetime, threading, time, json
from dataclasses import replace
from unittest.mock import Mock
from aws_durable_execution_sdk_python.execution import (
    durable_execution, DurableExecutionInvocationInputWithClient, InitialExecutionState)
from aws_durable_execution_sdk_python.lambda_service import (
    CheckpointOutput, CheckpointUpdatedExecutionState, Operation, OperationAction, OperationStatus,
    OperationType, StepDetails, ContextDetails, WaitDetails, CallbackDetails, ExecutionDetails, StateOutput)

UTC = datetime.UTC

class Crash(BaseException):
    pass

class Backend:
    def __init__(self, page_size=None):
        self.ops: dict[str, Operation] = {}
        self.order: list[str] = []
        self.log: list[tuple] = []   # (action, op_id, extra)
        self.lock = threading.Lock()
        self.token = 0
        self.page_size = page_size
        self.crash_after = None  # callable(update)->bool : accept then crash
        self.crash_before = None
        self.dirty: set[str] = set()
        self.ops["exec"] = Operation("exec", OperationType.EXECUTION, OperationStatus.STARTED,
                                     execution_details=ExecutionDetails(input_payload="{}"))
        self.order.append("exec")
        self.pages = {}

    # --- service api
    def checkpoint(self, durable_execution_arn, checkpoint_token, updates, client_token=None):
        with self.lock:
            self._tick()
            changed = set(self.dirty); self.dirty.clear()
            crash = False
            for u in updates:
                if self.crash_before and self.crash_before(u):
                    raise RuntimeError("crash-before")
                self._apply(u)
                changed.add(u.operation_id)
                if self.crash_after and self.crash_after(u):
                    crash = True
                    break
            if crash:
                raise RuntimeError("crash-after-accept")
            self.token += 1
            return CheckpointOutput(checkpoint_token=f"t{self.token}",
                new_execution_state=CheckpointUpdatedExecutionState(operations=[self.ops[i] for i in self.order if i in changed]))

    def get_execution_state(self, durable_execution_arn, checkpoint_token, next_marker, max_items=1000):
        ops = self.pages[next_marker]
        i = int(next_marker)
        nm = str(i+1) if str(i+1) in self.pages else None
        return StateOutput(operations=ops, next_marker=nm)

    def _tick(self):
        now = datetime.datetime.now(tz=UTC)
        for i, op in list(self.ops.items()):
            if op.status is OperationStatus.PENDING and op.operation_type is OperationType.STEP:
                ts = op.step_details.next_attempt_timestamp
                if ts is not None and ts <= now:
                    self.ops[i] = replace(op, status=OperationStatus.READY)
                    self.dirty.add(i)
            if op.operation_type is OperationType.WAIT and op.status is OperationStatus.STARTED:
                ts = op.wait_details.scheduled_end_timestamp
                if ts is not None and ts <= now:
                    self.ops[i] = replace(op, status=OperationStatus.SUCCEEDED)
                    self.dirty.add(i)

    def _apply(self, u):
        cur = self.ops.get(u.operation_id)
        self.log.append((u.action.value, u.operation_type.value, u.operation_id, u.name,
                         u.step_options.next_attempt_delay_seconds if u.step_options else None))
        if cur is None:
            self.order.append(u.operation_id)
        now = datetime.datetime.now(tz=UTC)
        t = u.operation_type
        if t is OperationType.STEP:
            sd = cur.step_details if cur and cur.step_details else StepDetails()
            if cur and cur.status in (OperationStatus.SUCCEEDED, OperationStatus.FAILED):
                raise AssertionError(f"BACKEND: update {u.action} for terminal step {u.name}")
            if u.action is OperationAction.START:
                if cur and cur.status is OperationStatus.PENDING:
                    raise AssertionError("BACKEND: START while PENDING")
                st = OperationStatus.STARTED
            elif u.action is OperationAction.RETRY:
                d = u.step_options.next_attempt_delay_seconds
                assert isinstance(d, int) and d >= 1, f"BACKEND: bad delay {d!r}"
                if cur and cur.status is OperationStatus.PENDING:
                    raise AssertionError("BACKEND: RETRY while PENDING")
                sd = replace(sd, attempt=sd.attempt + 1, next_attempt_timestamp=now + datetime.timedelta(seconds=d), error=u.error, result=u.payload if u.payload else sd.result)
                st = OperationStatus.PENDING
            elif u.action is OperationAction.SUCCEED:
                sd = replace(sd, result=u.payload); st = OperationStatus.SUCCEEDED
            elif u.action is OperationAction.FAIL:
                sd = replace(sd, error=u.error); st = OperationStatus.FAILED
            else:
                raise AssertionError(u.action)
            self.ops[u.operation_id] = Operation(u.operation_id, t, st, parent_id=u.parent_id, name=u.name, sub_type=u.sub_type, step_details=sd)
        elif t is OperationType.CONTEXT:
            if u.action is OperationAction.START:
                self.ops[u.operation_id] = Operation(u.operation_id, t, OperationStatus.STARTED, parent_id=u.parent_id, name=u.name, sub_type=u.sub_type)
            elif u.action is OperationAction.SUCCEED:
                rc = bool(u.context_options and u.context_options.replay_children)
                self.ops[u.operation_id] = Operation(u.operation_id, t, OperationStatus.SUCCEEDED, parent_id=u.parent_id, name=u.name, sub_type=u.sub_type,
                                                     context_details=ContextDetails(replay_children=rc, result=u.payload))
            else:
                self.ops[u.operation_id] = Operation(u.operation_id, t, OperationStatus.FAILED, parent_id=u.parent_id, name=u.name, sub_type=u.sub_type,
                                                     context_details=ContextDetails(replay_children=False, result=None, error=u.error))
        elif t is OperationType.WAIT:
            s = u.wait_options.wait_seconds
            self.ops[u.operation_id] = Operation(u.operation_id, t, OperationStatus.STARTED, parent_id=u.parent_id, name=u.name, sub_type=u.sub_type,
                                                 wait_details=WaitDetails(scheduled_end_timestamp=now + datetime.timedelta(seconds=s)))
        elif t is OperationType.CALLBACK:
            self.ops[u.operation_id] = Operation(u.operation_id, t, OperationStatus.STARTED, parent_id=u.parent_id, name=u.name, sub_type=u.sub_type,
                                                 callback_details=CallbackDetails(callback_id="cb-" + u.operation_id[:8]))
        elif t is OperationType.EXECUTION:
            pass
        else:
            raise AssertionError(t)

    # --- test control
    def fire_timers(self):
        """Advance backend time: all PENDING steps become READY, all waits complete."""
        with self.lock:
            for i, op in list(self.ops.items()):
                if op.operation_type is OperationType.STEP and op.status is OperationStatus.PENDING:
                    self.ops[i] = replace(op, status=OperationStatus.READY)
                if op.operation_type is OperationType.WAIT and op.status is OperationStatus.STARTED:
                    self.ops[i] = replace(op, status=OperationStatus.SUCCEEDED)
            self.dirty.clear()

    def complete_callbacks(self, result='"ok"'):
        with self.lock:
            for i, op in list(self.ops.items()):
                if op.operation_type is OperationType.CALLBACK and op.status is OperationStatus.STARTED:
                    self.ops[i] = replace(op, status=OperationStatus.SUCCEEDED, callback_details=replace(op.callback_details, result=result))

    def history(self):
        with self.lock:
            return [self.ops[i] for i in self.order]

    def step_ops(self, name=None):
        return [o for o in self.history() if o.operation_type is OperationType.STEP and (name is None or o.name == name)]

    def records(self, action, name=None, typ="STEP"):
        return [r for r in self.log if r[0] == action and r[1] == typ and (name is None or r[3] == name)]


def lambda_ctx():
    c = Mock()
    c.aws_request_id = "rid"; c.client_context = None; c.identity = None
    c._epoch_deadline_time_in_ms = 0; c.invoked_function_arn = "arn"; c.tenant_id = None
    c.log_group_name = None; c.log_stream_name = None
    return c


def invoke(handler, backend: Backend):
    hist = backend.history()
    nm = ""
    if backend.page_size and len(hist) > backend.page_size:
        ps = backend.page_size
        chunks = [hist[i:i+ps] for i in range(0, len(hist), ps)]
        backend.pages = {str(k): chunks[k] for k in range(1, len(chunks))}
        hist = chunks[0]; nm = "1"
    ev = DurableExecutionInvocationInputWithClient(
        durable_execution_arn="arn:x", checkpoint_token=f"t{backend.token}",
        initial_execution_state=InitialExecutionState(operations=hist, next_marker=nm), service_client=backend)
    return handler(ev, lambda_ctx())


def run_to_completion(handler, backend: Backend, max_invocations=50, premature_every=0, on_invoke=None):
    """Invoke until not PENDING. Between invocations timers fire. Returns (final output, n_invocations)."""
    n = 0
    while True:
        n += 1
        assert n <= max_invocations, "too many invocations"
        try:
            out = invoke(handler, backend)
        except BaseException as e:  # invocation crashed (lambda retry)
            out = {"Status": "CRASHED", "exc": e}
        if on_invoke: on_invoke(n, out)
        if out["Status"] in ("SUCCEEDED", "FAILED"):
            return out, n
        if premature_every and n % premature_every == 0:
            continue  # re-invoke without firing timers
        backend.fire_timers()


# =========================================================================================================
# Scenario
# =========================================================================================================

import logging
import os
import sys

logging.disable(logging.CRITICAL)

from aws_durable_execution_sdk_python.config import Duration, JitterStrategy, StepConfig  # noqa: E402
from aws_durable_execution_sdk_python.execution import durable_execution  # noqa: E402
from aws_durable_execution_sdk_python.identifier import OperationIdentifier  # noqa: E402
from aws_durable_execution_sdk_python.lambda_service import ErrorObject, OperationUpdate  # noqa: E402
from aws_durable_execution_sdk_python.retries import RetryStrategyConfig, create_retry_strategy  # noqa: E402

problems: list[str] = []

# ---------------------------------------------------------------------------------------------------------
# Part A - the strategy alone. Everything but max_attempts is the library default
# (initial 5 s, max 300 s, backoff_rate 2.0, FULL jitter): "retry for a long time, capped at 5 minutes".
# ---------------------------------------------------------------------------------------------------------
cfg = RetryStrategyConfig(max_attempts=2000)
strategy = create_retry_strategy(cfg)
first_bad = None
for attempts_made in range(1, cfg.max_attempts):
    try:
        decision = strategy(RuntimeError("transient"), attempts_made)
    except Exception as e:  # noqa: BLE001
        first_bad = (attempts_made, repr(e))
        break
    assert decision.should_retry, attempts_made
    assert 1 <= decision.delay_seconds <= cfg.max_delay_seconds, (attempts_made, decision)
if first_bad:
    problems.append(
        f"A: RetryStrategyConfig(max_attempts=2000) [all other fields default]: strategy(error, {first_bad[0]}) "
        f"raised {first_bad[1]} instead of returning a delay within [1, {cfg.max_delay_seconds}]"
    )

# ---------------------------------------------------------------------------------------------------------
# Part B - the same defect seen through a durable step and the durable_execution wrapper.
# backoff 10.0, delays capped at 60 s, up to 400 attempts. The history handed to the invocation is the one the
# SDK itself produces after 309 failed attempts (START, then 309 x [RETRY, START] -> backend says READY, Attempt=309).
# ---------------------------------------------------------------------------------------------------------
cfg_b = RetryStrategyConfig(
    max_attempts=400,
    initial_delay=Duration.from_seconds(1),
    max_delay=Duration.from_seconds(60),
    backoff_rate=10.0,
    jitter_strategy=JitterStrategy.NONE,
)
runs: list[int] = []


def flaky(_step_context):
    runs.append(1)
    raise RuntimeError("still failing")


seen: list[str] = []


@durable_execution
def handler(_event, context):
    try:
        return context.step(flaky, name="S", config=StepConfig(retry_strategy=create_retry_strategy(cfg_b)))
    except Exception as e:
        seen.append(type(e).__name__)
        raise


backend = Backend()
# operation id of the first top-level operation, computed the way DurableContext does
import hashlib  # noqa: E402

op_id = hashlib.blake2b(b"1").hexdigest()[:64]
ident = OperationIdentifier(operation_id=op_id, parent_id=None, name="S")
PRIOR_FAILURES = 309
backend.checkpoint("arn", "t", [OperationUpdate.create_step_start(ident)])
for _ in range(PRIOR_FAILURES):
    backend.checkpoint(
        "arn", "t",
        [OperationUpdate.create_step_retry(ident, ErrorObject.from_message("still failing"), 60)],
    )
    backend.fire_timers()  # delay elapsed: PENDING -> READY
    if _ < PRIOR_FAILURES - 1:
        backend.checkpoint("arn", "t", [OperationUpdate.create_step_start(ident)])
step_op = backend.step_ops("S")[0]
assert step_op.status.value == "READY" and step_op.step_details.attempt == PRIOR_FAILURES
n_retry_before = len(backend.records("RETRY", "S"))

out = invoke(handler, backend)

new_retries = backend.records("RETRY", "S")[n_retry_before:]
fails = backend.records("FAIL", "S")
step_op = backend.step_ops("S")[0]
print("invocation output:", out)
print("step function runs in this invocation:", len(runs), "| exception seen by user code:", seen)
print("new RETRY records:", new_retries, "| FAIL records:", fails, "| step status at backend:", step_op.status.value)

# attempt 310 of 400 failed with a retryable error: the property demands a RETRY record (delay in [1, 60]) and a suspension.
if not (len(new_retries) == 1 and 1 <= new_retries[0][4] <= 60 and out["Status"] == "PENDING"):
    problems.append(
        "B: failure number 310 of a step with max_attempts=400, backoff_rate=10.0, max_delay=60s: expected one RETRY "
        f"record with a delay in [1, 60] and a PENDING invocation; got output {out}, new RETRY records {new_retries}, "
        f"FAIL records {fails}, backend status {step_op.status.value} (the failure is recorded nowhere; user code saw {seen})"
    )

if problems:
    print()
    for p in problems:
        print("VIOLATION", p)
    raise AssertionError("C12 violated: packaged retry strategy overflows instead of returning a capped delay")
print("no violation")
