"""C12 finding 2: a step's retry attempt is started in an abandoned thread while the invocation suspends.

Clause violated: "absent crashes in mid-attempt, the function runs exactly min(failures+1, maximum attempts) times
across all invocations" and "consults its retry strategy with the number of attempts made so far (1 for the first
failure, one more after each recorded retry)". With AT_MOST_ONCE_PER_RETRY the lost attempt is additionally charged as
a StepInterruptedError, so a step that failed ONCE with max_attempts=2 ends durably FAILED.

Site: concurrency/executor.py: ConcurrentExecutor._on_task_complete / should_execution_suspend  versus
      TimerScheduler._timer_loop. The decision "every branch is finished or suspended -> suspend the invocation" is
      taken without excluding the timer thread: a branch whose step-retry timer (>= 1 s) becomes due after the decision
      but before TimerScheduler.shutdown() is popped, reset_to_pending() and resubmitted. It runs the step's next
      attempt (START is sent, the user function is entered) while execute() raises the suspension and the handler
      returns PENDING; checkpointing is then stopped, so the attempt's SUCCEED is refused. The next invocation finds the
      step READY/STARTED and runs the function again (AT_LEAST_ONCE) or charges an interruption (AT_MOST_ONCE).

Needs: a step retrying inside a map/parallel branch whose timer becomes due in the window between the suspend decision
(taken in the pool thread that completed the last other branch) and the scheduler shutdown in the thread blocked in
execute(). The window is normally short (it grows with the number of branches: both the decision and the
future.cancel() loop are O(branches), and with CPU throttling), so this script forces it: it holds the deciding thread,
after its decision, until the timer has fired - pure scheduling, no SDK state is modified. A control run without the
hold shows the same program satisfying the property.

Run:  PYTHONPATH=/tmp/wt/h1_C12/src /venv/bin/python finding_2.py        (about 20 s)
"""
from __future__ import annotations
import datetime, threading, time, json
from dataclasses import replace
from unittest.mock import Mock
from aws_durable_execution_sdk_python.execution import (
    durable_execution, DurableExecutionInvocationInputWithClient, InitialExecutionState)
from aws_durable_execution_sdk_python.lambda_service import (
    CheckpointOutput, CheckpointUpdatedExecutionState, Operation, OperationAction, OperationStatus,
    OperationType, StepDetails, ContextDetails, WaitDetails, CallbackDetails, ExecutionDetails, StateOutput)

UTC = datetime.UTC

class Crash(BaseException):
    pass

class Backend:
    def __init__(self, page_size=None):
        self.ops: dict[str, Operation] = {}
        self.order: list[str] = []
        self.log: list[tuple] = []   # (action, op_id, extra)
        self.lock = threading.Lock()
        self.token = 0
        self.page_size = page_size
        self.crash_after = None  # callable(update)->bool : accept then crash
        self.crash_before = None
        self.dirty: set[str] = set()
        self.ops["exec"] = Operation("exec", OperationType.EXECUTION, OperationStatus.STARTED,
                                     execution_details=ExecutionDetails(input_payload="{}"))
        self.order.append("exec")
        self.pages = {}

    # --- service api
    def checkpoint(self, durable_execution_arn, checkpoint_token, updates, client_token=None):
        with self.lock:
            self._tick()
            changed = set(self.dirty); self.dirty.clear()
            crash = False
            for u in updates:
                if self.crash_before and self.crash_before(u):
                    raise RuntimeError("crash-before")
                self._apply(u)
                changed.add(u.operation_id)
                if self.crash_after and self.crash_after(u):
                    crash = True
                    break
            if crash:
                raise RuntimeError("crash-after-accept")
            self.token += 1
            return CheckpointOutput(checkpoint_token=f"t{self.token}",
                new_execution_state=CheckpointUpdatedExecutionState(operations=[self.ops[i] for i in self.order if i in changed]))

    def get_execution_state(self, durable_execution_arn, checkpoint_token, next_marker, max_items=1000):
        ops = self.pages[next_marker]
        i = int(next_marker)
        nm = str(i+1) if str(i+1) in self.pages else None
        return StateOutput(operations=ops, next_marker=nm)

    def _tick(self):
        now = datetime.datetime.now(tz=UTC)
        for i, op in list(self.ops.items()):
            if op.status is OperationStatus.PENDING and op.operation_type is OperationType.STEP:
                ts = op.step_details.next_attempt_timestamp
                if ts is not None and ts <= now:
                    self.ops[i] = replace(op, status=OperationStatus.READY)
                    self.dirty.add(i)
            if op.operation_type is OperationType.WAIT and op.status is OperationStatus.STARTED:
                ts = op.wait_details.scheduled_end_timestamp
                if ts is not None and ts <= now:
                    self.ops[i] = replace(op, status=OperationStatus.SUCCEEDED)
                    self.dirty.add(i)

    def _apply(self, u):
        cur = self.ops.get(u.operation_id)
        self.log.append((u.action.value, u.operation_type.value, u.operation_id, u.name,
                         u.step_options.next_attempt_delay_seconds if u.step_options else None))
        if cur is None:
            self.order.append(u.operation_id)
        now = datetime.datetime.now(tz=UTC)
        t = u.operation_type
        if t is OperationType.STEP:
            sd = cur.step_details if cur and cur.step_details else StepDetails()
            if cur and cur.status in (OperationStatus.SUCCEEDED, OperationStatus.FAILED):
                raise AssertionError(f"BACKEND: update {u.action} for terminal step {u.name}")
            if u.action is OperationAction.START:
                if cur and cur.status is OperationStatus.PENDING:
                    raise AssertionError("BACKEND: START while PENDING")
                st = OperationStatus.STARTED
            elif u.action is OperationAction.RETRY:
                d = u.step_options.next_attempt_delay_seconds
                assert isinstance(d, int) and d >= 1, f"BACKEND: bad delay {d!r}"
                if cur and cur.status is OperationStatus.PENDING:
                    raise AssertionError("BACKEND: RETRY while PENDING")
                sd = replace(sd, attempt=sd.attempt + 1, next_attempt_timestamp=now + datetime.timedelta(seconds=d), error=u.error, result=u.payload if u.payload else sd.result)
                st = OperationStatus.PENDING
            elif u.action is OperationAction.SUCCEED:
                sd = replace(sd, result=u.payload); st = OperationStatus.SUCCEEDED
            elif u.action is OperationAction.FAIL:
                sd = replace(sd, error=u.error); st = OperationStatus.FAILED
            else:
                raise AssertionError(u.action)
            self.ops[u.operation_id] = Operation(u.operation_id, t, st, parent_id=u.parent_id, name=u.name, sub_type=u.sub_type, step_details=sd)
        elif t is OperationType.CONTEXT:
            if u.action is OperationAction.START:
                self.ops[u.operation_id] = Operation(u.operation_id, t, OperationStatus.STARTED, parent_id=u.parent_id, name=u.name, sub_type=u.sub_type)
            elif u.action is OperationAction.SUCCEED:
                rc = bool(u.context_options and u.context_options.replay_children)
                self.ops[u.operation_id] = Operation(u.operation_id, t, OperationStatus.SUCCEEDED, parent_id=u.parent_id, name=u.name, sub_type=u.sub_type,
                                                     context_details=ContextDetails(replay_children=rc, result=u.payload))
            else:
                self.ops[u.operation_id] = Operation(u.operation_id, t, OperationStatus.FAILED, parent_id=u.parent_id, name=u.name, sub_type=u.sub_type,
                                                     context_details=ContextDetails(replay_children=False, result=None, error=u.error))
        elif t is OperationType.WAIT:
            s = u.wait_options.wait_seconds
            self.ops[u.operation_id] = Operation(u.operation_id, t, OperationStatus.STARTED, parent_id=u.parent_id, name=u.name, sub_type=u.sub_type,
                                                 wait_details=WaitDetails(scheduled_end_timestamp=now + datetime.timedelta(seconds=s)))
        elif t is OperationType.CALLBACK:
            self.ops[u.operation_id] = Operation(u.operation_id, t, OperationStatus.STARTED, parent_id=u.parent_id, name=u.name, sub_type=u.sub_type,
                                                 callback_details=CallbackDetails(callback_id="cb-" + u.operation_id[:8]))
        elif t is OperationType.EXECUTION:
            pass
        else:
            raise AssertionError(t)

    # --- test control
    def fire_timers(self):
        """Advance backend time: all PENDING steps become READY, all waits complete."""
        with self.lock:
            for i, op in list(self.ops.items()):
                if op.operation_type is OperationType.STEP and op.status is OperationStatus.PENDING:
                    self.ops[i] = replace(op, status=OperationStatus.READY)
                if op.operation_type is OperationType.WAIT and op.status is OperationStatus.STARTED:
                    self.ops[i] = replace(op, status=OperationStatus.SUCCEEDED)
            self.dirty.clear()

    def complete_callbacks(self, result='"ok"'):
        with self.lock:
            for i, op in list(self.ops.items()):
                if op.operation_type is OperationType.CALLBACK and op.status is OperationStatus.STARTED:
                    self.ops[i] = replace(op, status=OperationStatus.SUCCEEDED, callback_details=replace(op.callback_details, result=result))

    def history(self):
        with self.lock:
            return [self.ops[i] for i in self.order]

    def step_ops(self, name=None):
        return [o for o in self.history() if o.operation_type is OperationType.STEP and (name is None or o.name == name)]

    def records(self, action, name=None, typ="STEP"):
        return [r for r in self.log if r[0] == action and r[1] == typ and (name is None or r[3] == name)]


def lambda_ctx():
    c = Mock()
    c.aws_request_id = "rid"; c.client_context = None; c.identity = None
    c._epoch_deadline_time_in_ms = 0; c.invoked_function_arn = "arn"; c.tenant_id = None
    c.log_group_name = None; c.log_stream_name = None
    return c


def invoke(handler, backend: Backend):
    hist = backend.history()
    nm = ""
    if backend.page_size and len(hist) > backend.page_size:
        ps = backend.page_size
        chunks = [hist[i:i+ps] for i in range(0, len(hist), ps)]
        backend.pages = {str(k): chunks[k] for k in range(1, len(chunks))}
        hist = chunks[0]; nm = "1"
    ev = DurableExecutionInvocationInputWithClient(
        durable_execution_arn="arn:x", checkpoint_token=f"t{backend.token}",
        initial_execution_state=InitialExecutionState(operations=hist, next_marker=nm), service_client=backend)
    return handler(ev, lambda_ctx())


def run_to_completion(handler, backend: Backend, max_invocations=50, premature_every=0, on_invoke=None):
    """Invoke until not PENDING. Between invocations timers fire. Returns (final output, n_invocations)."""
    n = 0
    while True:
        n += 1
        assert n <= max_invocations, "too many invocations"
        try:
            out = invoke(handler, backend)
        except BaseException as e:  # invocation crashed (lambda retry)
            out = {"Status": "CRASHED", "exc": e}
        if on_invoke: on_invoke(n, out)
        if out["Status"] in ("SUCCEEDED", "FAILED"):
            return out, n
        if premature_every and n % premature_every == 0:
            continue  # re-invoke without firing timers
        backend.fire_timers()

# =========================================================================================================
# Scenario
# =========================================================================================================
import logging  # noqa: E402
import sys  # noqa: E402

logging.disable(logging.CRITICAL)

from aws_durable_execution_sdk_python.concurrency import executor as executor_module  # noqa: E402
from aws_durable_execution_sdk_python.config import Duration, JitterStrategy, StepConfig, StepSemantics  # noqa: E402
from aws_durable_execution_sdk_python.retries import RetryStrategyConfig, create_retry_strategy  # noqa: E402


class Boom(Exception):
    pass


# --- the only instrumentation: the pool thread that has just DECIDED to suspend the whole map/parallel is held
# --- (as if descheduled) until the timer thread has resumed the other branch. No SDK state is touched.
second_attempt_entered = threading.Event()
hold_decider = threading.Event()  # armed per scenario
_orig_should_suspend = executor_module.ConcurrentExecutor.should_execution_suspend


def _held_should_execution_suspend(self):
    result = _orig_should_suspend(self)
    if result.should_suspend and hold_decider.is_set():
        hold_decider.clear()
        second_attempt_entered.wait(timeout=10)
    return result


executor_module.ConcurrentExecutor.should_execution_suspend = _held_should_execution_suspend


def scenario(semantics: StepSemantics, force_interleaving: bool):
    """parallel(A, B). A: a step that fails once (max_attempts=2, retry delay 1 s). B: short step, then wait(30 s)."""
    MAX_ATTEMPTS, FAILURES = 2, 1
    second_attempt_entered.clear()
    if force_interleaving:
        hold_decider.set()
    else:
        hold_decider.clear()
    lock = threading.Lock()
    runs: list[float] = []
    consulted: list[tuple] = []
    inner = create_retry_strategy(
        RetryStrategyConfig(max_attempts=MAX_ATTEMPTS, initial_delay=Duration.from_seconds(1),
                            max_delay=Duration.from_seconds(1), jitter_strategy=JitterStrategy.NONE))

    def strategy(error, attempts_made):
        decision = inner(error, attempts_made)
        consulted.append((type(error).__name__, attempts_made, decision.should_retry))
        return decision

    t0 = time.time()

    def flaky(_sc):
        with lock:
            runs.append(round(time.time() - t0, 2))
            n = len(runs)
        if n <= FAILURES:
            raise Boom("transient")
        second_attempt_entered.set()
        time.sleep(0.4)  # the attempt is doing its work
        return "ok"

    def branch_a(ctx):
        try:
            return ctx.step(flaky, name="S", config=StepConfig(retry_strategy=strategy, step_semantics=semantics))
        except Exception as e:  # noqa: BLE001
            return f"S failed: {type(e).__name__}"

    def branch_b(ctx):
        ctx.step(lambda _s: "b", name="quick")
        ctx.wait(Duration.from_seconds(30), name="long wait")
        return "b done"

    @durable_execution
    def handler(_event, context):
        return [item.result for item in context.parallel([branch_a, branch_b], name="P").all]

    backend = Backend()
    statuses = []

    def on_invoke(_n, out):
        statuses.append(out["Status"])
        time.sleep(1.2)  # let any thread left over from the invocation finish before the next one

    out, n_inv = run_to_completion(handler, backend, on_invoke=on_invoke)
    step_op = backend.step_ops("S")[0]
    info = {
        "semantics": semantics.name,
        "forced": force_interleaving,
        "invocations": statuses,
        "result": out.get("Result"),
        "fn_runs_at": runs,
        "strategy_consulted": consulted,
        "S_records": [r[0] for r in backend.log if r[3] == "S"],
        "S_status": step_op.status.value,
    }
    expected_runs = min(FAILURES + 1, MAX_ATTEMPTS)
    errors = []
    if len(runs) != expected_runs:
        errors.append(f"step function ran {len(runs)} times, expected min(failures+1, max_attempts) = {expected_runs}")
    if consulted != [("Boom", 1, True)]:
        errors.append(f"strategy should have been consulted once (Boom, 1); was consulted with {consulted}")
    if step_op.status.value != "SUCCEEDED":
        errors.append(f"step ended {step_op.status.value}; one failure with max_attempts=2 must end SUCCEEDED")
    return info, errors


all_errors = []
for sem in (StepSemantics.AT_LEAST_ONCE_PER_RETRY, StepSemantics.AT_MOST_ONCE_PER_RETRY):
    # control: same program, no thread held -> property holds
    info, errors = scenario(sem, force_interleaving=False)
    print("control:", info)
    assert not errors, f"control run unexpectedly bad: {errors}"
    info, errors = scenario(sem, force_interleaving=True)
    print("forced :", info)
    if not second_attempt_entered.is_set():
        print("could not force the interleaving on this machine")
    for e in errors:
        print("VIOLATION", sem.name, "-", e)
    all_errors += errors
    print()

if all_errors:
    raise AssertionError(
        "C12 violated: a parallel/map that decides to suspend can still resume a branch whose retry timer is due; the "
        "step's next attempt then runs in an abandoned thread while the invocation returns PENDING -> the function runs "
        "more often than min(failures+1, max attempts) / an attempt is burned as StepInterruptedError, without any crash"
    )
print("no violation")
