import random, math, re
from aws_durable_execution_sdk_python.retries import *
from aws_durable_execution_sdk_python.config import Duration, JitterStrategy
bad = 0; rb = 0; kinds=set()
random.seed(1)
for trial in range(20000):
    ma = random.choice([0,1,2,3,5,10,50,2000])
    init = random.choice([0,1,2,5,7,60,300,1000])
    mx = random.choice([1,2,5,60,300,3600])
    rate = random.choice([0,0.5,1,1.0,1.5,2,2.0,3,10.0,0.1])
    jit = random.choice(list(JitterStrategy))
    cfg = RetryStrategyConfig(max_attempts=ma, initial_delay=Duration(init), max_delay=Duration(mx), backoff_rate=rate, jitter_strategy=jit)
    s = create_retry_strategy(cfg)
    for a in [1,2,3,4,9,49,500,1025,1999]:
        try:
            d = s(Exception("x"), a)
        except Exception as e:
            bad += 1; kinds.add((type(e).__name__, rate, a))
            continue
        if a >= ma:
            assert not d.should_retry
        else:
            assert d.should_retry
            ds = d.delay_seconds
            base = min(init * rate ** (a-1), mx)
            lo = {JitterStrategy.NONE: base, JitterStrategy.HALF: base/2, JitterStrategy.FULL: 0}[jit]
            if not (1 <= ds <= max(mx,1)) or not isinstance(ds, int) or ds < math.floor(lo) or ds > max(1, math.ceil(base)):
                rb += 1
                if rb < 30: print("RANGE", cfg, a, ds, base)
print("bad", bad, "rangebad", rb, sorted(kinds))
