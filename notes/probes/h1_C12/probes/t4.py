import logging, time, threading
logging.disable(logging.CRITICAL)
from sim import *
import sim
from aws_durable_execution_sdk_python.context import DurableContext
from aws_durable_execution_sdk_python.config import StepConfig, StepSemantics, Duration, JitterStrategy
from aws_durable_execution_sdk_python.retries import RetryStrategyConfig, create_retry_strategy
class Boom(Exception): pass

def run(sem, lag):
    calls = []; runs = []; times = []
    inner = create_retry_strategy(RetryStrategyConfig(max_attempts=4, initial_delay=Duration(1), max_delay=Duration(1), jitter_strategy=JitterStrategy.NONE))
    def strat(e, n):
        d = inner(e, n); calls.append(n); return d
    def fn(sc):
        runs.append(time.time())
        if len(runs) <= 2: raise Boom("x")
        return "ok"
    def b0(c): return c.step(fn, name="S", config=StepConfig(retry_strategy=strat, step_semantics=sem))
    def b1(c): return c.step(lambda s: (time.sleep(4.5), "slow")[1], name="slow")
    @durable_execution
    def h(ev, ctx):
        return [x.result for x in ctx.parallel([b0, b1], name="P").all]
    b = Backend()
    if lag:
        orig = b._tick
        def tick():
            # READY only `lag` seconds after the timestamp
            now = datetime.datetime.now(tz=UTC) - datetime.timedelta(seconds=lag)
            for i, op in list(b.ops.items()):
                if op.status is OperationStatus.PENDING and op.operation_type is OperationType.STEP:
                    ts = op.step_details.next_attempt_timestamp
                    if ts <= now:
                        b.ops[i] = replace(op, status=OperationStatus.READY); b.dirty.add(i)
        b._tick = tick
    t0 = time.time()
    out, n = run_to_completion(h, b)
    retry_times = []
    print(sem.name, "lag", lag, "inv", n, out, "calls", calls, "runs at", [round(r - t0, 2) for r in runs], [l[:1]+l[3:] for l in b.log if l[3] == "S"], "ckpt calls", b.token)
for sem in StepSemantics:
    run(sem, 0); run(sem, 0.7)
