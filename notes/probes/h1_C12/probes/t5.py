import logging, time, threading
logging.disable(logging.CRITICAL)
from sim import *
from aws_durable_execution_sdk_python.context import DurableContext
from aws_durable_execution_sdk_python.config import StepConfig, StepSemantics, Duration, JitterStrategy
from aws_durable_execution_sdk_python.retries import RetryStrategyConfig, create_retry_strategy
from aws_durable_execution_sdk_python.concurrency import executor as ex
class Boom(Exception): pass

STALL = float(__import__("sys").argv[1]) if len(__import__("sys").argv) > 1 else 0.6
orig = ex.ConcurrentExecutor.should_execution_suspend
def stalled(self):
    r = orig(self)
    if r.should_suspend and STALL:
        time.sleep(STALL)   # the deciding thread is descheduled between decision and signalling
    return r
ex.ConcurrentExecutor.should_execution_suspend = stalled

def run(sem):
    calls = []; runs = []
    inner = create_retry_strategy(RetryStrategyConfig(max_attempts=3, initial_delay=Duration(1), max_delay=Duration(1), jitter_strategy=JitterStrategy.NONE))
    def strat(e, n):
        d = inner(e, n); calls.append((type(e).__name__, n)); return d
    t0 = time.time()
    def fn(sc):
        runs.append(round(time.time() - t0, 2))
        if len(runs) <= 1: raise Boom("x")
        time.sleep(0.3)
        return "ok"
    def b0(c): return c.step(fn, name="S", config=StepConfig(retry_strategy=strat, step_semantics=sem))
    def b1(c):
        c.step(lambda s: time.sleep(0.55), name="slow")
        c.wait(Duration.from_seconds(30), name="w")
        return "b1"
    @durable_execution
    def h(ev, ctx):
        return [x.result for x in ctx.parallel([b0, b1], name="P").all]
    b = Backend()
    outs = []
    out, n = run_to_completion(h, b, on_invoke=lambda n, o: (outs.append((round(time.time()-t0,2), o["Status"])), time.sleep(1.0)))
    print(sem.name, "inv", n, outs, out, "strategy calls", calls, "fn runs at", runs, [l[:1]+l[3:] for l in b.log if l[3] == "S"])
for sem in StepSemantics:
    run(sem)
