import itertools, sys, logging
logging.disable(logging.CRITICAL)
from sim import *
from aws_durable_execution_sdk_python.context import DurableContext
from aws_durable_execution_sdk_python.config import StepConfig, StepSemantics, Duration, JitterStrategy
from aws_durable_execution_sdk_python.retries import RetryStrategyConfig, create_retry_strategy
from aws_durable_execution_sdk_python.lambda_service import OperationAction

class Boom(Exception): pass

def scenario(max_attempts, fail_k, semantics, crash_action, crash_nth, before):
    runs = []; calls = []
    inner = create_retry_strategy(RetryStrategyConfig(max_attempts=max_attempts, initial_delay=Duration(1), max_delay=Duration(4),
                                  jitter_strategy=JitterStrategy.HALF))
    def strat(e, n):
        d = inner(e, n); calls.append((type(e).__name__, n, d.should_retry, d.delay_seconds)); return d
    def fn(sc):
        runs.append(1)
        if len(runs) <= fail_k: raise Boom("b%d" % len(runs))
        return "ok"
    @durable_execution
    def h(ev, ctx: DurableContext):
        try:
            r = ctx.step(fn, name="S", config=StepConfig(retry_strategy=strat, step_semantics=semantics))
        except Exception as e:
            r = "failed:" + type(e).__name__
        return r
    b = Backend()
    seen = [0]; fired = [False]
    def pred(u):
        if fired[0]: return False
        if u.name == "S" and u.action is crash_action:
            seen[0] += 1
            if seen[0] == crash_nth:
                fired[0] = True; return True
        return False
    if before: b.crash_before = pred
    else: b.crash_after = pred
    out, n = run_to_completion(h, b)
    return b, out, n, runs, calls, fired[0]

bad = 0; nf = 0
for ma, k, sem, act, nth, before in itertools.product([1,2,3], [0,1,2,4], list(StepSemantics),
        [OperationAction.START, OperationAction.RETRY, OperationAction.FAIL, OperationAction.SUCCEED], [1,2], [False, True]):
    b, out, n, runs, calls, fired = scenario(ma, k, sem, act, nth, before)
    if not fired: continue
    nf += 1
    if nf % 17 == 0: print("SAMPLE", ma, k, sem.name, act.name, nth, before, calls, [l[:1]+l[3:] for l in b.log], len(runs), out)
    retries = b.records("RETRY", "S"); starts = b.records("START", "S"); fails = b.records("FAIL", "S")
    msgs = []
    if len(retries) > ma - 1: msgs.append(f"retries {len(retries)} > {ma-1}")
    # attempts passed to strategy must equal (#retries accepted before the call)+1 ; verify monotone non-decreasing by 0/1
    ns = [c[1] for c in calls]
    if any(x > ma for x in ns): msgs.append(f"attempt > max {ns}")
    if not before and act in (OperationAction.RETRY, OperationAction.FAIL, OperationAction.SUCCEED):
        exp = min(k+1, ma)
        if len(runs) != exp: msgs.append(f"runs {len(runs)} != {exp}")
        if ns != list(range(1, len(ns)+1)): msgs.append(f"seq {ns}")
    if len(fails) > 1: msgs.append("multiple FAIL")
    if out["Status"] != "SUCCEEDED": msgs.append(f"out {out}")
    if msgs:
        bad += 1
        print("BAD", ma, k, sem.name, act.name, nth, "before" if before else "after", msgs, calls, [l[:1]+l[3:] for l in b.log], len(runs))
print("done bad=", bad, "fired", nf)
