import logging, time, threading, random, sys
logging.disable(logging.CRITICAL)
from sim import *
from aws_durable_execution_sdk_python.config import StepConfig, StepSemantics, Duration, JitterStrategy
from aws_durable_execution_sdk_python.retries import RetryStrategyConfig, create_retry_strategy
class Boom(Exception): pass
N = int(sys.argv[1]); K = 3
def run(seed):
    runs = {}; lock = threading.Lock()
    strat = create_retry_strategy(RetryStrategyConfig(max_attempts=K+2, initial_delay=Duration(3), max_delay=Duration(3), jitter_strategy=JitterStrategy.FULL))
    def mk(i):
        def br(c):
            def fn(sc):
                with lock: runs[i] = runs.get(i, 0) + 1; r = runs[i]
                if r <= K: raise Boom(str(i))
                return i
            return c.step(fn, name=f"S{i}", config=StepConfig(retry_strategy=strat))
        return br
    @durable_execution
    def h(ev, ctx):
        return len(ctx.parallel([mk(i) for i in range(N)], name="P").all)
    b = Backend()
    n = 0
    while True:
        n += 1
        out = invoke(h, b)
        if out["Status"] != "PENDING": break
        # wait until earliest pending timestamp like the real backend would
        pend = [o.step_details.next_attempt_timestamp for o in b.history() if o.status is OperationStatus.PENDING]
        if pend:
            dt = (min(pend) - datetime.datetime.now(tz=UTC)).total_seconds()
            if dt > 0: time.sleep(dt)
        with b.lock: b._tick(); b.dirty.clear()
    extra = {i: r for i, r in runs.items() if r != K+1}
    print("seed", seed, "inv", n, out, "extra runs:", extra)
    return extra
for s in range(int(sys.argv[2])):
    run(s)
