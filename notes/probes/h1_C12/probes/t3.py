import itertools, sys, logging, time, threading
logging.disable(logging.CRITICAL)
from sim import *
from aws_durable_execution_sdk_python.context import DurableContext
from aws_durable_execution_sdk_python.config import StepConfig, StepSemantics, Duration, JitterStrategy, MapConfig, ParallelConfig, CompletionConfig, WaitForCallbackConfig
from aws_durable_execution_sdk_python.retries import RetryStrategyConfig, create_retry_strategy

class Boom(Exception): pass

def mk(max_attempts):
    calls = {}
    inner = create_retry_strategy(RetryStrategyConfig(max_attempts=max_attempts, initial_delay=Duration(1), max_delay=Duration(1), jitter_strategy=JitterStrategy.NONE))
    def for_key(key):
        def strat(e, n):
            d = inner(e, n); calls.setdefault(key, []).append((type(e).__name__, n, d.should_retry)); return d
        return strat
    return for_key, calls

def check(tag, b, runs, calls, ma, ks, names):
    msgs = []
    for key, k in ks.items():
        nm = names[key]
        exp = min(k+1, ma)
        r = runs.get(key, 0)
        if r != exp: msgs.append(f"{key}: runs {r} != {exp}")
        ns = [c[1] for c in calls.get(key, [])]
        if ns != list(range(1, len(ns)+1)): msgs.append(f"{key}: seq {ns}")
        rt = b.records("RETRY", nm)
        if len(rt) != min(k, ma-1): msgs.append(f"{key}: retries {len(rt)}")
        st = b.records("START", nm)
        if len(st) != r: msgs.append(f"{key}: starts {len(st)} runs {r}")
    print(tag, "OK" if not msgs else ("BAD", msgs, calls, [l[:1]+l[3:] for l in b.log]))
    return not msgs

def map_scenario(ma, ks, sem, nested=False):
    for_key, calls = mk(ma)
    runs = {}
    lock = threading.Lock()
    def item(ctx, it, idx, items):
        def fn(sc):
            with lock: runs[idx] = runs.get(idx, 0) + 1; r = runs[idx]
            if r <= ks[idx]: raise Boom(f"{idx}-{r}")
            return idx
        def body(c):
            try:
                return c.step(fn, name=f"S{idx}", config=StepConfig(retry_strategy=for_key(idx), step_semantics=sem))
            except Exception as e:
                return "F:" + type(e).__name__
        if nested:
            return ctx.run_in_child_context(body, name=f"child{idx}")
        return body(ctx)
    @durable_execution
    def h(ev, ctx):
        res = ctx.map(list(ks.keys()), item, name="M")
        return [i.result for i in res.all]
    b = Backend()
    t0 = time.time()
    out, n = run_to_completion(h, b)
    names = {i: f"S{i}" for i in ks}
    ok = check(f"map ma={ma} ks={ks} {sem.name} nested={nested} inv={n} {time.time()-t0:.1f}s {out.get('Result')}", b, runs, calls, ma, ks, names)
    return ok

ok = True
for sem in StepSemantics:
    ok &= map_scenario(3, {0: 0, 1: 1, 2: 2, 3: 5}, sem)
    ok &= map_scenario(2, {0: 1, 1: 3}, sem, nested=True)
    ok &= map_scenario(1, {0: 1, 1: 0}, sem)

# parallel inside map inside child
def deep():
    for_key, calls = mk(3)
    runs = {}; lock = threading.Lock(); ks = {"a": 2, "b": 4, "c": 1}
    def mkbranch(key):
        def br(c):
            def fn(sc):
                with lock: runs[key] = runs.get(key, 0) + 1; r = runs[key]
                if r <= ks[key]: raise Boom(key)
                return key
            try:
                return c.step(fn, name="S"+key, config=StepConfig(retry_strategy=for_key(key)))
            except Exception as e:
                return "F"
        return br
    def item(ctx, it, idx, items):
        return [x.result for x in ctx.parallel([mkbranch("a"), mkbranch("b")], name="P").all]
    @durable_execution
    def h(ev, ctx):
        r1 = ctx.run_in_child_context(lambda c: [x.result for x in c.map([1], item, name="M").all], name="outer")
        r2 = mkbranch("c")(ctx)
        return [r1, r2]
    b = Backend()
    out, n = run_to_completion(h, b)
    return check(f"deep inv={n} {out.get('Result')}", b, runs, calls, 3, ks, {k: "S"+k for k in ks})
ok &= deep()

# wait_for_callback submitter retries
def wfc():
    for_key, calls = mk(3)
    runs = {}; ks = {"sub": 2}
    def submitter(cb_id, c):
        runs["sub"] = runs.get("sub", 0) + 1
        if runs["sub"] <= 2: raise Boom("s")
    @durable_execution
    def h(ev, ctx):
        return ctx.wait_for_callback(submitter, name="W", config=WaitForCallbackConfig(retry_strategy=for_key("sub")))
    b = Backend()
    def on_inv(n, out): b.complete_callbacks() if n >= 3 else None
    out, n = run_to_completion(h, b, on_invoke=on_inv)
    return check(f"wfc inv={n} {out}", b, runs, calls, 3, ks, {"sub": "W submitter"})
ok &= wfc()
print("ALL OK" if ok else "SOME BAD")
