"""In-memory fake backend + driver for multi-invocation runs of a durable handler."""
from __future__ import annotations
import datetime, threading, time, json
from dataclasses import replace
from unittest.mock import Mock
from aws_durable_execution_sdk_python.execution import (
    durable_execution, DurableExecutionInvocationInputWithClient, InitialExecutionState)
from aws_durable_execution_sdk_python.lambda_service import (
    CheckpointOutput, CheckpointUpdatedExecutionState, Operation, OperationAction, OperationStatus,
    OperationType, StepDetails, ContextDetails, WaitDetails, CallbackDetails, ExecutionDetails, StateOutput)

UTC = datetime.UTC

class Crash(BaseException):
    pass

class Backend:
    def __init__(self, page_size=None):
        self.ops: dict[str, Operation] = {}
        self.order: list[str] = []
        self.log: list[tuple] = []   # (action, op_id, extra)
        self.lock = threading.Lock()
        self.token = 0
        self.page_size = page_size
        self.crash_after = None  # callable(update)->bool : accept then crash
        self.crash_before = None
        self.dirty: set[str] = set()
        self.ops["exec"] = Operation("exec", OperationType.EXECUTION, OperationStatus.STARTED,
                                     execution_details=ExecutionDetails(input_payload="{}"))
        self.order.append("exec")
        self.pages = {}

    # --- service api
    def checkpoint(self, durable_execution_arn, checkpoint_token, updates, client_token=None):
        with self.lock:
            self._tick()
            changed = set(self.dirty); self.dirty.clear()
            crash = False
            for u in updates:
                if self.crash_before and self.crash_before(u):
                    raise RuntimeError("crash-before")
                self._apply(u)
                changed.add(u.operation_id)
                if self.crash_after and self.crash_after(u):
                    crash = True
                    break
            if crash:
                raise RuntimeError("crash-after-accept")
            self.token += 1
            return CheckpointOutput(checkpoint_token=f"t{self.token}",
                new_execution_state=CheckpointUpdatedExecutionState(operations=[self.ops[i] for i in self.order if i in changed]))

    def get_execution_state(self, durable_execution_arn, checkpoint_token, next_marker, max_items=1000):
        ops = self.pages[next_marker]
        i = int(next_marker)
        nm = str(i+1) if str(i+1) in self.pages else None
        return StateOutput(operations=ops, next_marker=nm)

    def _tick(self):
        now = datetime.datetime.now(tz=UTC)
        for i, op in list(self.ops.items()):
            if op.status is OperationStatus.PENDING and op.operation_type is OperationType.STEP:
                ts = op.step_details.next_attempt_timestamp
                if ts is not None and ts <= now:
                    self.ops[i] = replace(op, status=OperationStatus.READY)
                    self.dirty.add(i)
            if op.operation_type is OperationType.WAIT and op.status is OperationStatus.STARTED:
                ts = op.wait_details.scheduled_end_timestamp
                if ts is not None and ts <= now:
                    self.ops[i] = replace(op, status=OperationStatus.SUCCEEDED)
                    self.dirty.add(i)

    def _apply(self, u):
        cur = self.ops.get(u.operation_id)
        self.log.append((u.action.value, u.operation_type.value, u.operation_id, u.name,
                         u.step_options.next_attempt_delay_seconds if u.step_options else None))
        if cur is None:
            self.order.append(u.operation_id)
        now = datetime.datetime.now(tz=UTC)
        t = u.operation_type
        if t is OperationType.STEP:
            sd = cur.step_details if cur and cur.step_details else StepDetails()
            if cur and cur.status in (OperationStatus.SUCCEEDED, OperationStatus.FAILED):
                raise AssertionError(f"BACKEND: update {u.action} for terminal step {u.name}")
            if u.action is OperationAction.START:
                if cur and cur.status is OperationStatus.PENDING:
                    raise AssertionError("BACKEND: START while PENDING")
                st = OperationStatus.STARTED
            elif u.action is OperationAction.RETRY:
                d = u.step_options.next_attempt_delay_seconds
                assert isinstance(d, int) and d >= 1, f"BACKEND: bad delay {d!r}"
                if cur and cur.status is OperationStatus.PENDING:
                    raise AssertionError("BACKEND: RETRY while PENDING")
                sd = replace(sd, attempt=sd.attempt + 1, next_attempt_timestamp=now + datetime.timedelta(seconds=d), error=u.error, result=u.payload if u.payload else sd.result)
                st = OperationStatus.PENDING
            elif u.action is OperationAction.SUCCEED:
                sd = replace(sd, result=u.payload); st = OperationStatus.SUCCEEDED
            elif u.action is OperationAction.FAIL:
                sd = replace(sd, error=u.error); st = OperationStatus.FAILED
            else:
                raise AssertionError(u.action)
            self.ops[u.operation_id] = Operation(u.operation_id, t, st, parent_id=u.parent_id, name=u.name, sub_type=u.sub_type, step_details=sd)
        elif t is OperationType.CONTEXT:
            if u.action is OperationAction.START:
                self.ops[u.operation_id] = Operation(u.operation_id, t, OperationStatus.STARTED, parent_id=u.parent_id, name=u.name, sub_type=u.sub_type)
            elif u.action is OperationAction.SUCCEED:
                rc = bool(u.context_options and u.context_options.replay_children)
                self.ops[u.operation_id] = Operation(u.operation_id, t, OperationStatus.SUCCEEDED, parent_id=u.parent_id, name=u.name, sub_type=u.sub_type,
                                                     context_details=ContextDetails(replay_children=rc, result=u.payload))
            else:
                self.ops[u.operation_id] = Operation(u.operation_id, t, OperationStatus.FAILED, parent_id=u.parent_id, name=u.name, sub_type=u.sub_type,
                                                     context_details=ContextDetails(replay_children=False, result=None, error=u.error))
        elif t is OperationType.WAIT:
            s = u.wait_options.wait_seconds
            self.ops[u.operation_id] = Operation(u.operation_id, t, OperationStatus.STARTED, parent_id=u.parent_id, name=u.name, sub_type=u.sub_type,
                                                 wait_details=WaitDetails(scheduled_end_timestamp=now + datetime.timedelta(seconds=s)))
        elif t is OperationType.CALLBACK:
            self.ops[u.operation_id] = Operation(u.operation_id, t, OperationStatus.STARTED, parent_id=u.parent_id, name=u.name, sub_type=u.sub_type,
                                                 callback_details=CallbackDetails(callback_id="cb-" + u.operation_id[:8]))
        elif t is OperationType.EXECUTION:
            pass
        else:
            raise AssertionError(t)

    # --- test control
    def fire_timers(self):
        """Advance backend time: all PENDING steps become READY, all waits complete."""
        with self.lock:
            for i, op in list(self.ops.items()):
                if op.operation_type is OperationType.STEP and op.status is OperationStatus.PENDING:
                    self.ops[i] = replace(op, status=OperationStatus.READY)
                if op.operation_type is OperationType.WAIT and op.status is OperationStatus.STARTED:
                    self.ops[i] = replace(op, status=OperationStatus.SUCCEEDED)
            self.dirty.clear()

    def complete_callbacks(self, result='"ok"'):
        with self.lock:
            for i, op in list(self.ops.items()):
                if op.operation_type is OperationType.CALLBACK and op.status is OperationStatus.STARTED:
                    self.ops[i] = replace(op, status=OperationStatus.SUCCEEDED, callback_details=replace(op.callback_details, result=result))

    def history(self):
        with self.lock:
            return [self.ops[i] for i in self.order]

    def step_ops(self, name=None):
        return [o for o in self.history() if o.operation_type is OperationType.STEP and (name is None or o.name == name)]

    def records(self, action, name=None, typ="STEP"):
        return [r for r in self.log if r[0] == action and r[1] == typ and (name is None or r[3] == name)]


def lambda_ctx():
    c = Mock()
    c.aws_request_id = "rid"; c.client_context = None; c.identity = None
    c._epoch_deadline_time_in_ms = 0; c.invoked_function_arn = "arn"; c.tenant_id = None
    c.log_group_name = None; c.log_stream_name = None
    return c


def invoke(handler, backend: Backend):
    hist = backend.history()
    nm = ""
    if backend.page_size and len(hist) > backend.page_size:
        ps = backend.page_size
        chunks = [hist[i:i+ps] for i in range(0, len(hist), ps)]
        backend.pages = {str(k): chunks[k] for k in range(1, len(chunks))}
        hist = chunks[0]; nm = "1"
    ev = DurableExecutionInvocationInputWithClient(
        durable_execution_arn="arn:x", checkpoint_token=f"t{backend.token}",
        initial_execution_state=InitialExecutionState(operations=hist, next_marker=nm), service_client=backend)
    return handler(ev, lambda_ctx())


def run_to_completion(handler, backend: Backend, max_invocations=50, premature_every=0, on_invoke=None):
    """Invoke until not PENDING. Between invocations timers fire. Returns (final output, n_invocations)."""
    n = 0
    while True:
        n += 1
        assert n <= max_invocations, "too many invocations"
        try:
            out = invoke(handler, backend)
        except BaseException as e:  # invocation crashed (lambda retry)
            out = {"Status": "CRASHED", "exc": e}
        if on_invoke: on_invoke(n, out)
        if out["Status"] in ("SUCCEEDED", "FAILED"):
            return out, n
        if premature_every and n % premature_every == 0:
            continue  # re-invoke without firing timers
        backend.fire_timers()
