import itertools, sys, logging
logging.disable(logging.CRITICAL)
from sim import *
from aws_durable_execution_sdk_python.context import DurableContext
from aws_durable_execution_sdk_python.config import StepConfig, StepSemantics, Duration, JitterStrategy
from aws_durable_execution_sdk_python.retries import RetryStrategyConfig, create_retry_strategy

class Boom(Exception): pass
class Other(Exception): pass

def scenario(max_attempts, fail_k, semantics, page_size=None, premature=0, nonretry_at=None):
    runs = []; calls = []
    inner = create_retry_strategy(RetryStrategyConfig(max_attempts=max_attempts, initial_delay=Duration(1), max_delay=Duration(4),
                                  jitter_strategy=JitterStrategy.FULL, retryable_error_types=[Boom]))
    def strat(e, n):
        d = inner(e, n); calls.append((type(e).__name__, n, d.should_retry, d.delay_seconds)); return d
    def fn(sc):
        runs.append(1)
        if nonretry_at is not None and len(runs) == nonretry_at: raise Other("nr")
        if len(runs) <= fail_k: raise Boom("b%d" % len(runs))
        return "ok"
    caught = []
    @durable_execution
    def h(ev, ctx: DurableContext):
        ctx.step(lambda s: "pre", name="pre")
        try:
            r = ctx.step(fn, name="S", config=StepConfig(retry_strategy=strat, step_semantics=semantics))
        except Exception as e:
            caught.append(type(e).__name__); r = "failed"
        ctx.step(lambda s: "post", name="post")
        return r
    b = Backend(page_size=page_size)
    out, n = run_to_completion(h, b, premature_every=premature)
    return b, out, n, runs, calls, caught

bad = 0
for ma, k, sem, ps, prem, nr in itertools.product([1,2,3,4], [0,1,2,3,5], list(StepSemantics), [None, 2], [0,2], [None, 2]):
    b, out, n, runs, calls, caught = scenario(ma, k, sem, ps, prem, nr)
    failures = k
    exp_runs = min(k+1, ma)
    if nr is not None and nr <= exp_runs and nr <= k+1:
        exp_runs = min(exp_runs, nr)
    retries = b.records("RETRY", "S")
    starts = b.records("START", "S")
    ok = True
    msgs = []
    if len(runs) != exp_runs: msgs.append(f"runs {len(runs)} != {exp_runs}")
    if [c[1] for c in calls] != list(range(1, len(calls)+1)): msgs.append(f"attempt seq {calls}")
    if len(retries) > ma - 1: msgs.append(f"retries {len(retries)}")
    if len(starts) != len(runs): msgs.append(f"starts {len(starts)} runs {len(runs)}")
    for r in retries:
        if not (1 <= r[4] <= 4): msgs.append(f"delay {r[4]}")
    if out["Status"] != "SUCCEEDED": msgs.append(f"out {out}")
    if msgs:
        bad += 1
        print("BAD", ma, k, sem.name, ps, prem, nr, msgs, calls, b.log)
print("done bad=", bad)
