import logging, time, threading, random
logging.disable(logging.CRITICAL)
from sim import *
from aws_durable_execution_sdk_python.context import DurableContext
from aws_durable_execution_sdk_python.config import StepConfig, StepSemantics, Duration, JitterStrategy, WaitForCallbackConfig, ParallelConfig, CompletionConfig
from aws_durable_execution_sdk_python.retries import RetryStrategyConfig, create_retry_strategy
from aws_durable_execution_sdk_python.waits import WaitForConditionConfig, WaitForConditionDecision
class Boom(Exception): pass

def run(seed):
    rnd = random.Random(seed)
    ma = rnd.choice([1,2,3])
    ks = {"sub": rnd.choice([0,1,2,3]), "x": rnd.choice([0,1,2,3]), "y": rnd.choice([0,1,4])}
    sems = {k: rnd.choice(list(StepSemantics)) for k in ks}
    calls = {}; runs = {}; lock = threading.Lock()
    inner = create_retry_strategy(RetryStrategyConfig(max_attempts=ma, initial_delay=Duration(1), max_delay=Duration(2), jitter_strategy=rnd.choice(list(JitterStrategy))))
    def strat(key):
        def s(e, n):
            d = inner(e, n)
            with lock: calls.setdefault(key, []).append(n)
            return d
        return s
    def failing(key):
        def fn(*a):
            with lock: runs[key] = runs.get(key, 0) + 1; r = runs[key]
            if r <= ks[key]: raise Boom(key)
            return key
        return fn
    def br_cb(c):
        try:
            return c.wait_for_callback(failing("sub"), name="W", config=WaitForCallbackConfig(retry_strategy=strat("sub")))
        except Exception as e: return "F"
    def br_x(c):
        def inner_child(cc):
            cc.wait(Duration.from_seconds(1), name="w1")
            try: return cc.step(failing("x"), name="Sx", config=StepConfig(retry_strategy=strat("x"), step_semantics=sems["x"]))
            except Exception: return "F"
        return c.run_in_child_context(inner_child, name="ic")
    def br_y(c):
        def chk(state, cctx): return state + 1
        n = c.wait_for_condition(chk, WaitForConditionConfig(initial_state=0, wait_strategy=lambda s, a: WaitForConditionDecision.stop_polling() if s >= 2 else WaitForConditionDecision.continue_waiting(Duration.from_seconds(1))), name="wc")
        try: return c.step(failing("y"), name="Sy", config=StepConfig(retry_strategy=strat("y"), step_semantics=sems["y"]))
        except Exception: return "F"
    @durable_execution
    def h(ev, ctx):
        return [x.result for x in ctx.parallel([br_cb, br_x, br_y], name="P").all]
    b = Backend(page_size=rnd.choice([None, 3]))
    def on_inv(n, out):
        if n >= 2: b.complete_callbacks()
    out, n = run_to_completion(h, b, on_invoke=on_inv, premature_every=rnd.choice([0, 3]))
    names = {"sub": "W submitter", "x": "Sx", "y": "Sy"}
    msgs = []
    for key, k in ks.items():
        exp = min(k+1, ma); r = runs.get(key, 0)
        if r != exp: msgs.append(f"{key}: runs {r} != {exp}")
        ns = calls.get(key, [])
        if ns != list(range(1, len(ns)+1)): msgs.append(f"{key}: seq {ns}")
        if len(b.records("RETRY", names[key])) != min(k, ma-1): msgs.append(f"{key}: retries")
        if len(b.records("START", names[key])) != r: msgs.append(f"{key}: starts")
    print(seed, "ma", ma, ks, "inv", n, out.get("Status"), out.get("Result"), "OK" if not msgs else ("BAD", msgs, [l[:1]+l[3:] for l in b.log]))
    return not msgs
ok = all([run(s) for s in range(12)])
print("ALL OK" if ok else "SOME BAD")
