"""C14 finding 2: on replay create_callback() (and invoke(), same code path) can raise
RuntimeError("dictionary changed size during iteration") instead of returning the recorded callback id.

Clause violated: "create_callback returns the same backend-issued callback id in every invocation"
(and, by the same mechanism, "invoke ... returns the deserialized result").

Code: DurableContext.create_callback / DurableContext.invoke call ExecutionState.track_replay() in a `finally`.
While the state is still REPLAYing, track_replay() -> ExecutionState._recorded_descendants() iterates
`self.operations.values()` (and track_replay itself iterates `self.operations.items()`) WITHOUT holding
`_operations_lock`, while the background checkpoint thread inserts new operations into the same dict in
fetch_paginated_operations() (which does hold that lock).  If a checkpoint response is merged while a branch thread
is inside that loop, the loop raises RuntimeError; the `finally` turns that into the outcome of create_callback(),
the branch's CONTEXT is checkpointed FAILED and the error becomes permanent history.

Program (legal use of the public API):

    def approval(c):                       # branch 0
        time.sleep(0.05)                   # any small amount of non-durable work
        cb = c.create_callback(name="approval")
        return cb.result()

    def other(c):                          # branch 1
        c.wait(Duration.from_seconds(1), name="pause")
        return c.step(lambda s: "new", name="new-step")

    ctx.parallel([approval, other])

Invocation 1 creates the callback and starts the wait -> PENDING.  The backend then completes both.  In invocation 2
branch 0 replays create_callback while branch 1 has gone on to a new step whose START checkpoint response is merged by
the background thread.

The interleaving is forced without touching the SDK: the EXECUTION operation that the fake backend hands over in the
history is an instance of a subclass of `Operation` whose `parent_id` attribute read (the first thing the loop in
_recorded_descendants does with each operation) pauses - only when reached from create_callback - until the fake backend
has answered the checkpoint call carrying the new step's START.  Nothing else is changed; state.operations is the
plain dict created by durable_execution.  Without forcing, the same failure shows up at random (see
probe_race_track_replay.py: 300 branches, sys.setswitchinterval(1e-6) -> 1-3 branches fail per run).

Run:  PYTHONPATH=/tmp/wt/h1_C14/src /venv/bin/python /tmp/wt/h1_C14/finding_2.py
Exits non-zero (AssertionError) on the current code.
"""

from __future__ import annotations

import datetime
import os
import sys
import threading
import time
import traceback
from unittest.mock import Mock

from aws_durable_execution_sdk_python.config import Duration
from aws_durable_execution_sdk_python.execution import (
    DurableExecutionInvocationInputWithClient,
    InitialExecutionState,
    durable_execution,
)
from aws_durable_execution_sdk_python.lambda_service import (
    CallbackDetails,
    CheckpointOutput,
    CheckpointUpdatedExecutionState,
    ContextDetails,
    ExecutionDetails,
    Operation,
    OperationAction,
    OperationStatus,
    OperationType,
    StateOutput,
    StepDetails,
    WaitDetails,
)

ARN = "arn:aws:lambda:us-east-1:123456789012:durable-execution/c14-f2"

# ---------------------------------------------------------------------------- interleaving control
armed = threading.Event()  # set for invocation 2 only
reader_inside = threading.Event()  # a create_callback thread is inside the loop over state.operations
new_step_start_answered = threading.Event()  # the backend answered the checkpoint with the new step's START
paused_once = threading.Event()


def _called_from_create_callback() -> bool:
    f = sys._getframe(2)  # noqa: SLF001
    names = set()
    while f is not None:
        names.add(f.f_code.co_name)
        f = f.f_back
    return "create_callback" in names and "_recorded_descendants" in names


class PausingOperation(Operation):
    """An Operation whose `parent_id` read can pause the reading thread (test instrumentation only)."""

    @property
    def parent_id(self):  # type: ignore[override]
        if armed.is_set() and not paused_once.is_set() and _called_from_create_callback():
            paused_once.set()
            reader_inside.set()
            # let the background thread merge the response that carries a NEW operation id
            if new_step_start_answered.wait(5):
                time.sleep(0.5)
        return self.__dict__.get("_parent_id")

    @parent_id.setter
    def parent_id(self, value):
        self.__dict__["_parent_id"] = value


# ---------------------------------------------------------------------------- fake backend
class FakeBackend:
    def __init__(self):
        self.lock = threading.Lock()
        self.ops: dict[str, Operation] = {}
        self.order: list[str] = []
        self._put(
            PausingOperation(
                operation_id="exec",
                operation_type=OperationType.EXECUTION,
                status=OperationStatus.STARTED,
                execution_details=ExecutionDetails(input_payload="{}"),
            )
        )
        self.updates = []

    def _put(self, op):
        if op.operation_id not in self.ops:
            self.order.append(op.operation_id)
        self.ops[op.operation_id] = op

    def checkpoint(self, durable_execution_arn, checkpoint_token, updates, client_token):
        carries_new_step = any(
            u.operation_type is OperationType.STEP and u.action is OperationAction.START and u.name == "new-step"
            for u in updates
        )
        if carries_new_step and armed.is_set():
            # answer only once the replaying branch is inside its loop (or give up after 5 s)
            reader_inside.wait(5)
        with self.lock:
            changed = []
            now = datetime.datetime.now(tz=datetime.UTC)
            for u in updates:
                self.updates.append(u)
                common = dict(
                    operation_id=u.operation_id,
                    operation_type=u.operation_type,
                    parent_id=u.parent_id,
                    name=u.name,
                    sub_type=u.sub_type,
                )
                if u.operation_type is OperationType.CALLBACK:
                    op = Operation(
                        status=OperationStatus.STARTED,
                        callback_details=CallbackDetails(callback_id="cb-1"),
                        **common,
                    )
                elif u.operation_type is OperationType.WAIT:
                    op = Operation(
                        status=OperationStatus.STARTED,
                        wait_details=WaitDetails(scheduled_end_timestamp=now + datetime.timedelta(seconds=1)),
                        **common,
                    )
                elif u.operation_type is OperationType.STEP:
                    if u.action is OperationAction.START:
                        op = Operation(status=OperationStatus.STARTED, step_details=StepDetails(), **common)
                    elif u.action is OperationAction.SUCCEED:
                        op = Operation(
                            status=OperationStatus.SUCCEEDED,
                            step_details=StepDetails(attempt=1, result=u.payload),
                            **common,
                        )
                    else:
                        op = Operation(
                            status=OperationStatus.FAILED, step_details=StepDetails(attempt=1, error=u.error), **common
                        )
                elif u.operation_type is OperationType.CONTEXT:
                    status = {
                        OperationAction.START: OperationStatus.STARTED,
                        OperationAction.SUCCEED: OperationStatus.SUCCEEDED,
                        OperationAction.FAIL: OperationStatus.FAILED,
                    }[u.action]
                    op = Operation(
                        status=status, context_details=ContextDetails(result=u.payload, error=u.error), **common
                    )
                else:
                    continue
                self._put(op)
                changed.append(op)
            out = CheckpointOutput(
                checkpoint_token="tok",  # noqa: S106
                new_execution_state=CheckpointUpdatedExecutionState(operations=changed),
            )
        if carries_new_step and armed.is_set():
            new_step_start_answered.set()
        return out

    def get_execution_state(self, durable_execution_arn, checkpoint_token, next_marker, max_items=1000):
        return StateOutput(operations=[], next_marker=None)

    def make_event(self):
        with self.lock:
            ops = [self.ops[i] for i in self.order]
        return DurableExecutionInvocationInputWithClient(
            durable_execution_arn=ARN,
            checkpoint_token="tok",  # noqa: S106
            initial_execution_state=InitialExecutionState(operations=ops, next_marker=""),
            service_client=self,
        )


# ---------------------------------------------------------------------------- the durable function
create_callback_outcomes: list[str] = []  # one entry per invocation


@durable_execution
def handler(event, ctx):
    def approval(c):
        time.sleep(0.05)
        try:
            cb = c.create_callback(name="approval")
        except Exception:
            create_callback_outcomes.append("RAISED " + traceback.format_exc(limit=-3).strip().splitlines()[-1])
            raise
        create_callback_outcomes.append(cb.callback_id)
        return cb.result()

    def other(c):
        c.wait(Duration.from_seconds(1), name="pause")
        return c.step(lambda s: "new", name="new-step")

    batch = ctx.parallel([approval, other])
    return batch.to_dict()


def invoke(backend):
    lambda_context = Mock()
    lambda_context.aws_request_id = "req"
    lambda_context.invoked_function_arn = "fn"
    lambda_context.tenant_id = None
    box: dict = {}

    def run():
        try:
            box["out"] = handler(backend.make_event(), lambda_context)
        except BaseException as e:  # noqa: BLE001
            box["exc"] = e

    t = threading.Thread(target=run, daemon=True)
    t.start()
    t.join(60)
    assert not t.is_alive(), "handler hung"
    if "exc" in box:
        raise box["exc"]
    return box["out"]


def main() -> None:
    import dataclasses

    backend = FakeBackend()

    out1 = invoke(backend)
    print("invocation 1:", out1, "create_callback ->", create_callback_outcomes)
    assert out1 == {"Status": "PENDING"}, out1
    assert create_callback_outcomes == ["cb-1"], create_callback_outcomes

    # the external system answers the callback, the timer of the wait fires
    with backend.lock:
        for op_id in backend.order:
            op = backend.ops[op_id]
            if op.operation_type is OperationType.CALLBACK:
                backend.ops[op_id] = dataclasses.replace(
                    op,
                    status=OperationStatus.SUCCEEDED,
                    callback_details=CallbackDetails(callback_id="cb-1", result="approved"),
                )
            elif op.operation_type is OperationType.WAIT:
                backend.ops[op_id] = dataclasses.replace(op, status=OperationStatus.SUCCEEDED)

    armed.set()
    out2 = invoke(backend)
    armed.clear()
    print("invocation 2:", out2)
    print("create_callback outcomes per invocation:", create_callback_outcomes)
    print("interleaving reached (replaying thread paused inside the loop):", reader_inside.is_set())
    failed = [
        (o.name, o.context_details.error)
        for o in backend.ops.values()
        if o.status is OperationStatus.FAILED and o.context_details
    ]
    print("operations checkpointed as FAILED:", failed)

    assert reader_inside.is_set(), "test set-up problem: the forced interleaving was not reached"
    assert create_callback_outcomes == ["cb-1", "cb-1"], (
        "C14 violated: create_callback must return the same backend-issued id in every invocation, but on replay it "
        f"did not: {create_callback_outcomes}"
    )
    assert not failed, f"C14 violated: branch failed although the callback SUCCEEDED: {failed}"
    assert out2["Status"] == "SUCCEEDED", out2
    print("OK")


if __name__ == "__main__":
    code = 0
    try:
        main()
    except AssertionError as e:
        print("ASSERTION FAILED:", e)
        code = 1
    sys.stdout.flush()
    os._exit(code)
