"""C14 finding 1: invokes in map/parallel branches do not suspend the invocation - it busy-polls the backend.

Clause violated: "invoke ... suspends while the call is outstanding" (must hold under nesting in map / parallel).

Program (legal, canonical use of the public API):

    ctx.map([1, 2, 3, 4, 5, 6], lambda c, item, i, items: c.invoke("fn", item), config=MapConfig(max_concurrency=2))

All six chained invokes are started (one START update each) and none of them completes.  The only
correct outcome of this invocation is {"Status": "PENDING"} shortly after the last START was recorded.

On the current code the handler never returns: InvokeOperationExecutor.execute() suspends the branch with
`suspend_with_optional_resume_delay(msg, self.config.timeout_seconds)`, and the default InvokeConfig timeout
("no timeout") is 0 seconds, i.e. "resume this branch NOW".  The TimerScheduler therefore resubmits each invoke
branch immediately (one empty checkpoint call per resume); as soon as two such branches are out of phase each
one always sees the other as PENDING/RUNNING, should_execution_suspend() never fires, and the map spins until the
Lambda times out, calling the checkpoint API ~10 times a second.  (Whether the branches get out of phase depends on
timing: with 6 items / max_concurrency=2 it happened in 8 of 8 trials, with 3 items / max_concurrency=1 in 6 of 8,
with 2 items / max_concurrency=1 in 7 of 8 - see probe_f1_rate.py.  The script makes up to 3 attempts and fails on the
first one that does not suspend.)

Run:  PYTHONPATH=/tmp/wt/h1_C14/src /venv/bin/python /tmp/wt/h1_C14/finding_1.py
Exits non-zero (AssertionError) on the current code.
"""

from __future__ import annotations

import os
import sys
import threading
import time
from unittest.mock import Mock

from aws_durable_execution_sdk_python.config import MapConfig
from aws_durable_execution_sdk_python.execution import (
    DurableExecutionInvocationInputWithClient,
    InitialExecutionState,
    durable_execution,
)
from aws_durable_execution_sdk_python.lambda_service import (
    ChainedInvokeDetails,
    CheckpointOutput,
    CheckpointUpdatedExecutionState,
    ContextDetails,
    ExecutionDetails,
    Operation,
    OperationAction,
    OperationStatus,
    OperationType,
    StateOutput,
)

ARN = "arn:aws:lambda:us-east-1:123456789012:durable-execution/c14-f1"


class FakeBackend:
    """Records checkpoints; chained invokes stay STARTED (the invoked functions are still running)."""

    def __init__(self):
        self.lock = threading.Lock()
        self.ops: dict[str, Operation] = {
            "exec": Operation(
                operation_id="exec",
                operation_type=OperationType.EXECUTION,
                status=OperationStatus.STARTED,
                execution_details=ExecutionDetails(input_payload="{}"),
            )
        }
        self.calls = 0
        self.empty_calls = 0
        self.invoke_starts = []

    def checkpoint(self, durable_execution_arn, checkpoint_token, updates, client_token):
        with self.lock:
            self.calls += 1
            if not updates:
                self.empty_calls += 1
            changed = []
            for u in updates:
                if u.operation_type is OperationType.CHAINED_INVOKE:
                    self.invoke_starts.append(u)
                    op = Operation(
                        operation_id=u.operation_id,
                        operation_type=u.operation_type,
                        status=OperationStatus.STARTED,
                        parent_id=u.parent_id,
                        name=u.name,
                        sub_type=u.sub_type,
                        chained_invoke_details=ChainedInvokeDetails(),
                    )
                elif u.operation_type is OperationType.CONTEXT:
                    status = {
                        OperationAction.START: OperationStatus.STARTED,
                        OperationAction.SUCCEED: OperationStatus.SUCCEEDED,
                        OperationAction.FAIL: OperationStatus.FAILED,
                    }[u.action]
                    op = Operation(
                        operation_id=u.operation_id,
                        operation_type=u.operation_type,
                        status=status,
                        parent_id=u.parent_id,
                        name=u.name,
                        sub_type=u.sub_type,
                        context_details=ContextDetails(result=u.payload, error=u.error),
                    )
                else:
                    continue
                self.ops[u.operation_id] = op
                changed.append(op)
            return CheckpointOutput(
                checkpoint_token=f"tok-{self.calls}",
                new_execution_state=CheckpointUpdatedExecutionState(operations=changed),
            )

    def get_execution_state(self, durable_execution_arn, checkpoint_token, next_marker, max_items=1000):
        return StateOutput(operations=[], next_marker=None)


@durable_execution
def handler(event, ctx):
    return ctx.map(
        [1, 2, 3, 4, 5, 6],
        lambda c, item, index, items: c.invoke("target-function", {"item": item}),
        config=MapConfig(max_concurrency=2),
    ).get_results()


def attempt() -> None:
    backend = FakeBackend()
    lambda_context = Mock()
    lambda_context.aws_request_id = "req"
    lambda_context.invoked_function_arn = "fn"
    lambda_context.tenant_id = None

    event = DurableExecutionInvocationInputWithClient(
        durable_execution_arn=ARN,
        checkpoint_token="tok-0",
        initial_execution_state=InitialExecutionState(operations=list(backend.ops.values()), next_marker=""),
        service_client=backend,
    )

    box: dict = {}

    def run():
        try:
            box["out"] = handler(event, lambda_context)
        except BaseException as e:  # noqa: BLE001
            box["exc"] = e

    t = threading.Thread(target=run, daemon=True)
    t0 = time.time()
    t.start()
    budget = 10.0  # seconds; a correct run needs well under 2 s (a few START checkpoints)
    t.join(budget)
    elapsed = time.time() - t0

    print(f"invoke START updates sent: {len(backend.invoke_starts)}")
    print(f"checkpoint API calls: {backend.calls} (of which empty polling calls: {backend.empty_calls})")
    print(f"handler returned: {not t.is_alive()} after {elapsed:.1f}s -> {box}")

    assert len(backend.invoke_starts) == 6, "expected exactly one START per invoke"
    assert not t.is_alive(), (
        f"C14 violated: 6 chained invokes are outstanding (all STARTED) but the invocation did not suspend "
        f"within {budget:.0f}s; instead it busy-polled the backend with {backend.empty_calls} empty checkpoint "
        f"calls and is still running (it would run until the Lambda timeout)"
    )
    assert box.get("out") == {"Status": "PENDING"}, f"expected PENDING, got {box}"
    assert backend.empty_calls <= 3, (
        f"C14 violated: invocation polled the backend {backend.empty_calls} times instead of suspending"
    )
    print("OK: invocation suspended with PENDING while the invokes were outstanding")


def main() -> None:
    for n in range(3):
        print(f"--- attempt {n + 1}")
        attempt()


if __name__ == "__main__":
    code = 0
    try:
        main()
    except AssertionError as e:
        print("ASSERTION FAILED:", e)
        code = 1
    sys.stdout.flush()
    os._exit(code)  # spinning SDK worker threads are not daemons; do not wait for them
