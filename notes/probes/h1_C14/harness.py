"""In-memory fake durable backend used by the probe / finding scripts of C14.

Records checkpoints, keeps an operation table and plays it back as history on re-invocation.
Only used to DRIVE the unmodified SDK; it is not part of the SDK.
"""

from __future__ import annotations

import datetime
import threading
import time
from unittest.mock import Mock

from aws_durable_execution_sdk_python.execution import (
    DurableExecutionInvocationInputWithClient,
    InitialExecutionState,
)
from aws_durable_execution_sdk_python.lambda_service import (
    CallbackDetails,
    ChainedInvokeDetails,
    CheckpointOutput,
    CheckpointUpdatedExecutionState,
    ContextDetails,
    ErrorObject,
    ExecutionDetails,
    Operation,
    OperationAction,
    OperationStatus,
    OperationType,
    StateOutput,
    StepDetails,
    WaitDetails,
)

ARN = "arn:aws:lambda:us-east-1:123456789012:durable-execution/test"


class FakeBackend:
    def __init__(self, input_payload: str = "{}", page_size: int | None = None):
        self.lock = threading.Lock()
        self.ops: dict[str, Operation] = {}
        self.order: list[str] = []
        self.updates: list = []  # every OperationUpdate received, in order
        self.batches: list[list] = []
        self.checkpoint_calls = 0
        self.dirty: set[str] = set()  # ops changed externally since last checkpoint response
        self.page_size = page_size
        self.cb_counter = 0
        self.token = 0
        self.on_checkpoint = None  # hook(updates) called before applying
        self.after_checkpoint = None  # hook(updates) called after applying (still before response)
        self._put(
            Operation(
                operation_id="exec-0",
                operation_type=OperationType.EXECUTION,
                status=OperationStatus.STARTED,
                execution_details=ExecutionDetails(input_payload=input_payload),
            )
        )

    # ------------------------------------------------------------------ storage
    def _put(self, op: Operation) -> None:
        if op.operation_id not in self.ops:
            self.order.append(op.operation_id)
        self.ops[op.operation_id] = op

    def _replace(self, op_id: str, **changes) -> Operation:
        import dataclasses

        op = dataclasses.replace(self.ops[op_id], **changes)
        self._put(op)
        return op

    # ------------------------------------------------------------------ service client protocol
    def checkpoint(self, durable_execution_arn, checkpoint_token, updates, client_token):
        if self.on_checkpoint:
            self.on_checkpoint(updates)
        with self.lock:
            self.checkpoint_calls += 1
            self.batches.append(list(updates))
            changed: list[str] = []
            for u in updates:
                self.updates.append(u)
                self._apply(u)
                changed.append(u.operation_id)
            if self.after_checkpoint:
                self.after_checkpoint(updates)
            for d in self.dirty:
                if d not in changed:
                    changed.append(d)
            self.dirty.clear()
            self.token += 1
            ops = [self.ops[i] for i in changed if i in self.ops]
            return CheckpointOutput(
                checkpoint_token=f"tok-{self.token}",
                new_execution_state=CheckpointUpdatedExecutionState(operations=ops),
            )

    def get_execution_state(self, durable_execution_arn, checkpoint_token, next_marker, max_items=1000):
        with self.lock:
            start = int(next_marker)
            ids = self.order[start : start + (self.page_size or 1000)]
            nxt = start + len(ids)
            return StateOutput(
                operations=[self.ops[i] for i in ids],
                next_marker=str(nxt) if nxt < len(self.order) else None,
            )

    # ------------------------------------------------------------------ applying updates
    def _apply(self, u) -> None:
        now = datetime.datetime.now(tz=datetime.UTC)
        existing = self.ops.get(u.operation_id)
        t = u.operation_type
        a = u.action
        if t is OperationType.EXECUTION:
            return
        if t is OperationType.CALLBACK:
            if existing is None:
                self.cb_counter += 1
                self._put(
                    Operation(
                        operation_id=u.operation_id,
                        operation_type=t,
                        status=OperationStatus.STARTED,
                        parent_id=u.parent_id,
                        name=u.name,
                        sub_type=u.sub_type,
                        start_timestamp=now,
                        callback_details=CallbackDetails(callback_id=f"cb-{self.cb_counter}"),
                    )
                )
            else:
                # a second START for the same id: backend would issue nothing new; record it
                self.duplicate_starts = getattr(self, "duplicate_starts", 0) + 1
            return
        if t is OperationType.CHAINED_INVOKE:
            if existing is None:
                self._put(
                    Operation(
                        operation_id=u.operation_id,
                        operation_type=t,
                        status=OperationStatus.STARTED,
                        parent_id=u.parent_id,
                        name=u.name,
                        sub_type=u.sub_type,
                        start_timestamp=now,
                        chained_invoke_details=ChainedInvokeDetails(),
                    )
                )
            else:
                self.duplicate_starts = getattr(self, "duplicate_starts", 0) + 1
            return
        if t is OperationType.WAIT:
            secs = u.wait_options.wait_seconds if u.wait_options else 1
            self._put(
                Operation(
                    operation_id=u.operation_id,
                    operation_type=t,
                    status=OperationStatus.STARTED,
                    parent_id=u.parent_id,
                    name=u.name,
                    sub_type=u.sub_type,
                    start_timestamp=now,
                    wait_details=WaitDetails(
                        scheduled_end_timestamp=now + datetime.timedelta(seconds=secs)
                    ),
                )
            )
            return
        if t is OperationType.STEP:
            attempt = existing.step_details.attempt if existing and existing.step_details else 0
            if a is OperationAction.START:
                self._put(
                    Operation(
                        operation_id=u.operation_id,
                        operation_type=t,
                        status=OperationStatus.STARTED,
                        parent_id=u.parent_id,
                        name=u.name,
                        sub_type=u.sub_type,
                        start_timestamp=now,
                        step_details=StepDetails(attempt=attempt),
                    )
                )
            elif a is OperationAction.SUCCEED:
                self._put(
                    Operation(
                        operation_id=u.operation_id,
                        operation_type=t,
                        status=OperationStatus.SUCCEEDED,
                        parent_id=u.parent_id,
                        name=u.name,
                        sub_type=u.sub_type,
                        step_details=StepDetails(attempt=attempt + 1, result=u.payload),
                    )
                )
            elif a is OperationAction.FAIL:
                self._put(
                    Operation(
                        operation_id=u.operation_id,
                        operation_type=t,
                        status=OperationStatus.FAILED,
                        parent_id=u.parent_id,
                        name=u.name,
                        sub_type=u.sub_type,
                        step_details=StepDetails(attempt=attempt + 1, error=u.error),
                    )
                )
            elif a is OperationAction.RETRY:
                delay = u.step_options.next_attempt_delay_seconds if u.step_options else 1
                self._put(
                    Operation(
                        operation_id=u.operation_id,
                        operation_type=t,
                        status=OperationStatus.PENDING,
                        parent_id=u.parent_id,
                        name=u.name,
                        sub_type=u.sub_type,
                        step_details=StepDetails(
                            attempt=attempt + 1,
                            next_attempt_timestamp=now + datetime.timedelta(seconds=delay),
                            result=u.payload,
                            error=u.error,
                        ),
                    )
                )
            return
        if t is OperationType.CONTEXT:
            if a is OperationAction.START:
                self._put(
                    Operation(
                        operation_id=u.operation_id,
                        operation_type=t,
                        status=OperationStatus.STARTED,
                        parent_id=u.parent_id,
                        name=u.name,
                        sub_type=u.sub_type,
                        start_timestamp=now,
                    )
                )
            elif a is OperationAction.SUCCEED:
                self._put(
                    Operation(
                        operation_id=u.operation_id,
                        operation_type=t,
                        status=OperationStatus.SUCCEEDED,
                        parent_id=u.parent_id,
                        name=u.name,
                        sub_type=u.sub_type,
                        context_details=ContextDetails(
                            replay_children=bool(
                                u.context_options and u.context_options.replay_children
                            ),
                            result=u.payload,
                        ),
                    )
                )
            elif a is OperationAction.FAIL:
                self._put(
                    Operation(
                        operation_id=u.operation_id,
                        operation_type=t,
                        status=OperationStatus.FAILED,
                        parent_id=u.parent_id,
                        name=u.name,
                        sub_type=u.sub_type,
                        context_details=ContextDetails(error=u.error),
                    )
                )
            return

    # ------------------------------------------------------------------ external events
    def find(self, op_type: OperationType, name: str | None = None) -> list[Operation]:
        return [
            self.ops[i]
            for i in self.order
            if self.ops[i].operation_type is op_type and (name is None or self.ops[i].name == name)
        ]

    def finish_callback(self, op_id: str, status: OperationStatus, result=None, error=None, locked=True):
        def do():
            cur = self.ops[op_id]
            self._replace(
                op_id,
                status=status,
                end_timestamp=datetime.datetime.now(tz=datetime.UTC),
                callback_details=CallbackDetails(
                    callback_id=cur.callback_details.callback_id, result=result, error=error
                ),
            )
            self.dirty.add(op_id)

        if locked:
            with self.lock:
                do()
        else:
            do()

    def finish_invoke(self, op_id: str, status: OperationStatus, result=None, error=None, locked=True):
        def do():
            self._replace(
                op_id,
                status=status,
                end_timestamp=datetime.datetime.now(tz=datetime.UTC),
                chained_invoke_details=ChainedInvokeDetails(result=result, error=error),
            )
            self.dirty.add(op_id)

        if locked:
            with self.lock:
                do()
        else:
            do()

    def set_status(self, op_id: str, status: OperationStatus):
        with self.lock:
            self._replace(op_id, status=status)
            self.dirty.add(op_id)

    def finish_waits(self):
        with self.lock:
            for i in self.order:
                if self.ops[i].operation_type is OperationType.WAIT and self.ops[i].status is OperationStatus.STARTED:
                    self._replace(i, status=OperationStatus.SUCCEEDED)

    def ready_steps(self):
        with self.lock:
            for i in self.order:
                if self.ops[i].operation_type is OperationType.STEP and self.ops[i].status is OperationStatus.PENDING:
                    self._replace(i, status=OperationStatus.READY)

    # ------------------------------------------------------------------ invocation
    def make_input(self) -> DurableExecutionInvocationInputWithClient:
        with self.lock:
            self.dirty.clear()
            if self.page_size:
                ids = self.order[: self.page_size]
                marker = str(len(ids)) if len(ids) < len(self.order) else ""
            else:
                ids = list(self.order)
                marker = ""
            return DurableExecutionInvocationInputWithClient(
                durable_execution_arn=ARN,
                checkpoint_token=f"tok-{self.token}",
                initial_execution_state=InitialExecutionState(
                    operations=[self.ops[i] for i in ids], next_marker=marker
                ),
                service_client=self,
            )

    def invoke(self, handler, timeout: float = 30.0):
        """Run one invocation of the (durable_execution-wrapped) handler; returns its output dict.

        Raises TimeoutError if the handler does not return within `timeout` seconds.
        """
        box: dict = {}

        def run():
            try:
                box["out"] = handler(self.make_input(), lambda_context())
            except BaseException as e:  # noqa: BLE001
                box["exc"] = e

        t = threading.Thread(target=run, daemon=True)
        start = time.time()
        t.start()
        t.join(timeout)
        box["elapsed"] = time.time() - start
        if t.is_alive():
            raise TimeoutError(f"handler did not return within {timeout}s")
        if "exc" in box:
            raise box["exc"]
        return box["out"]


def lambda_context():
    c = Mock()
    c.aws_request_id = "req"
    c.client_context = None
    c.identity = None
    c._epoch_deadline_time_in_ms = 0  # noqa: SLF001
    c.invoked_function_arn = "fn-arn"
    c.tenant_id = None
    return c


def err(message="boom", type_="SomeError", data=None, stack=None) -> ErrorObject:
    return ErrorObject(message=message, type=type_, data=data, stack_trace=stack)
