"""Side observation (liveness, NOT a C08 violation): TimerScheduler self-deadlock.

A parallel branch that waits on ctx.invoke() with the default InvokeConfig re-suspends with delay 0 and is re-submitted by the
TimerScheduler thread while a sibling is still running.  _timer_loop calls resubmit_callback() while holding TimerScheduler._lock;
if the re-submitted branch finishes before submit_task() has attached its done-callback, the callback runs inline in the timer
thread -> _on_task_complete -> schedule_resume() -> takes the same non-reentrant lock -> the timer thread deadlocks, the branch
stays RUNNING for ever and execute() never returns.
"""
import os, sys, time, faulthandler
from c08_harness import *
import aws_durable_execution_sdk_python.concurrency.models as models

FORCE = "--force" in sys.argv
if FORCE:
    # widen the window between thread_executor.submit() and future.add_done_callback() (legal: only slows a method down)
    orig = models.ExecutableWithState.run
    def slow_run(self, future):
        orig(self, future); time.sleep(0.02)
    models.ExecutableWithState.run = slow_run

prog = [{"k": "par", "branches": [[{"k": "inv"}], [{"k": "step"}]]}]
be = Backend(); rt = Runtime(be, sched_seed=1, max_sleep_ms=0)
rt.hooks["1.b1.1"] = lambda: time.sleep(6)      # slow sibling keeps the parallel alive for 6 s
t0 = time.time()
try:
    out = drive(prog, be, rt, inv_timeout=20)
    print("finished", out["Status"], "invocations", be.inv, f"{time.time()-t0:.1f}s")
    os._exit(0)
except AssertionError as e:
    print("->", e, f"after {time.time()-t0:.1f}s; backend calls {be.calls}")
    faulthandler.dump_traceback(file=sys.stdout, all_threads=True)
    os._exit(1)
