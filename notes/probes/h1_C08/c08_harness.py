"""Shared harness for the C08 hunt: in-memory backend + structural program interpreter + identity oracle.

Run scripts that import this with PYTHONPATH=/tmp/wt/h1_C08/src from /tmp/wt/h1_C08.
"""

from __future__ import annotations

import dataclasses
import datetime
import hashlib
import json
import logging
import random
import threading
import time
from unittest.mock import Mock

from aws_durable_execution_sdk_python.config import (
    ChildConfig,
    CompletionConfig,
    Duration,
    MapConfig,
    ParallelConfig,
    StepConfig,
    StepSemantics,
)
from aws_durable_execution_sdk_python.exceptions import (
    CallableRuntimeError,
    CallbackError,
    StepInterruptedError,
)
from aws_durable_execution_sdk_python.execution import (
    DurableExecutionInvocationInputWithClient,
    InitialExecutionState,
    durable_execution,
)
from aws_durable_execution_sdk_python.lambda_service import (
    CallbackDetails,
    ChainedInvokeDetails,
    CheckpointOutput,
    CheckpointUpdatedExecutionState,
    ContextDetails,
    ExecutionDetails,
    Operation,
    OperationAction,
    OperationStatus,
    OperationType,
    StateOutput,
    StepDetails,
    WaitDetails,
)
from aws_durable_execution_sdk_python.retries import RetryDecision
from aws_durable_execution_sdk_python.waits import (
    WaitForConditionConfig,
    WaitForConditionDecision,
)

logging.disable(logging.CRITICAL)

UTC = datetime.UTC


def H(s: str) -> str:
    return hashlib.blake2b(s.encode()).hexdigest()[:64]


def expected_id(path: tuple[str, ...]) -> str:
    """Independent oracle: id as a pure function of the structural position."""
    cur: str | None = None
    for tok in path:
        n = tok[1:] if tok.startswith("b") else tok
        cur = H(f"{cur}-{n}") if cur else H(n)
    assert cur is not None
    return cur


class CrashNow(Exception):
    pass


class Backend:
    """In-memory durable backend: records every update, plays history back (optionally paginated)."""

    def __init__(self, page_size: int | None = None, crash_at_calls: set[int] | None = None):
        self.lock = threading.RLock()
        self.ops: dict[str, Operation] = {
            "exec-0": Operation(
                operation_id="exec-0",
                operation_type=OperationType.EXECUTION,
                status=OperationStatus.STARTED,
                execution_details=ExecutionDetails(input_payload="{}"),
            )
        }
        self.log: list[tuple[int, object]] = []  # (invocation number, OperationUpdate)
        self.inv = 0
        self.calls = 0
        self.page_size = page_size
        self.crash_at_calls = crash_at_calls or set()
        self.anomalies: list[str] = []

    # --- service client protocol
    def checkpoint(self, durable_execution_arn, checkpoint_token, updates, client_token):
        with self.lock:
            self.calls += 1
            if self.calls in self.crash_at_calls:
                raise CrashNow(f"simulated crash at checkpoint call {self.calls}")
            for u in updates:
                self.log.append((self.inv, u))
                self._apply(u)
            self._tick()
            return CheckpointOutput(
                checkpoint_token=f"tok-{self.calls}",
                new_execution_state=CheckpointUpdatedExecutionState(
                    operations=[o for o in self.ops.values() if o.operation_type is not OperationType.EXECUTION],
                    next_marker=None,
                ),
            )

    def get_execution_state(self, durable_execution_arn, checkpoint_token, next_marker, max_items=1000):
        with self.lock:
            allops = list(self.ops.values())
            start = int(next_marker)
            end = start + (self.page_size or len(allops))
            return StateOutput(operations=allops[start:end], next_marker=str(end) if end < len(allops) else None)

    # --- state machine
    def _apply(self, u):
        old = self.ops.get(u.operation_id)
        now = datetime.datetime.now(tz=UTC)
        if old is not None:
            if old.operation_type is not u.operation_type:
                self.anomalies.append(
                    f"id {u.operation_id[:10]} reused with type {u.operation_type} (was {old.operation_type}); names {old.name!r} / {u.name!r}"
                )
            if (old.parent_id or None) != (u.parent_id or None):
                self.anomalies.append(f"id {u.operation_id[:10]} changed parent; names {old.name!r} / {u.name!r}")
            if (old.name or None) != (u.name or None):
                self.anomalies.append(f"id {u.operation_id[:10]} recorded under two names {old.name!r} / {u.name!r}")
        base = dict(
            operation_id=u.operation_id,
            operation_type=u.operation_type,
            parent_id=u.parent_id,
            name=u.name,
            sub_type=u.sub_type,
            start_timestamp=old.start_timestamp if old else now,
        )
        t, a = u.operation_type, u.action
        if t is OperationType.STEP:
            attempt = old.step_details.attempt if old and old.step_details else 0
            prev_result = old.step_details.result if old and old.step_details else None
            if a is OperationAction.START:
                op = Operation(status=OperationStatus.STARTED, step_details=StepDetails(attempt=attempt, result=prev_result), **base)
            elif a is OperationAction.RETRY:
                delay = u.step_options.next_attempt_delay_seconds if u.step_options else 1
                op = Operation(
                    status=OperationStatus.PENDING,
                    step_details=StepDetails(
                        attempt=attempt + 1,
                        next_attempt_timestamp=now + datetime.timedelta(seconds=delay),
                        result=u.payload,
                        error=u.error,
                    ),
                    **base,
                )
            elif a is OperationAction.SUCCEED:
                op = Operation(status=OperationStatus.SUCCEEDED, step_details=StepDetails(attempt=attempt + 1, result=u.payload), end_timestamp=now, **base)
            else:
                op = Operation(status=OperationStatus.FAILED, step_details=StepDetails(attempt=attempt + 1, error=u.error), end_timestamp=now, **base)
        elif t is OperationType.CONTEXT:
            if a is OperationAction.START:
                op = Operation(status=OperationStatus.STARTED, **base)
            elif a is OperationAction.SUCCEED:
                rc = bool(u.context_options and u.context_options.replay_children)
                op = Operation(status=OperationStatus.SUCCEEDED, context_details=ContextDetails(replay_children=rc, result=u.payload), end_timestamp=now, **base)
            else:
                op = Operation(status=OperationStatus.FAILED, context_details=ContextDetails(error=u.error), end_timestamp=now, **base)
        elif t is OperationType.WAIT:
            secs = u.wait_options.wait_seconds if u.wait_options else 1
            op = Operation(status=OperationStatus.STARTED, wait_details=WaitDetails(scheduled_end_timestamp=now + datetime.timedelta(seconds=secs)), **base)
        elif t is OperationType.CALLBACK:
            op = Operation(status=OperationStatus.STARTED, callback_details=CallbackDetails(callback_id="cb-" + u.operation_id[:12]), **base)
        elif t is OperationType.CHAINED_INVOKE:
            op = Operation(status=OperationStatus.STARTED, chained_invoke_details=ChainedInvokeDetails(), **base)
        else:  # EXECUTION result
            op = Operation(status=OperationStatus.SUCCEEDED, **{**base, "operation_type": OperationType.EXECUTION})
        self.ops[u.operation_id] = op

    def _tick(self, force: bool = False):
        now = datetime.datetime.now(tz=UTC)
        for k, o in list(self.ops.items()):
            if o.operation_type is OperationType.WAIT and o.status is OperationStatus.STARTED:
                if force or (o.wait_details and o.wait_details.scheduled_end_timestamp <= now):
                    self.ops[k] = dataclasses.replace(o, status=OperationStatus.SUCCEEDED, end_timestamp=now)
            elif o.operation_type is OperationType.STEP and o.status is OperationStatus.PENDING:
                if force or (o.step_details.next_attempt_timestamp and o.step_details.next_attempt_timestamp <= now):
                    self.ops[k] = dataclasses.replace(o, status=OperationStatus.READY)
            elif force and o.operation_type is OperationType.CALLBACK and o.status is OperationStatus.STARTED:
                self.ops[k] = dataclasses.replace(
                    o,
                    status=OperationStatus.SUCCEEDED,
                    callback_details=CallbackDetails(callback_id=o.callback_details.callback_id, result=json.dumps("cb-ok")),
                    end_timestamp=now,
                )
            elif force and o.operation_type is OperationType.CHAINED_INVOKE and o.status is OperationStatus.STARTED:
                self.ops[k] = dataclasses.replace(
                    o, status=OperationStatus.SUCCEEDED, chained_invoke_details=ChainedInvokeDetails(result=json.dumps("inv-ok")), end_timestamp=now
                )

    def deliver(self):
        """Between invocations: timers fire, callbacks / invokes complete."""
        with self.lock:
            self._tick(force=True)

    def attempt_of(self, op_id: str) -> int:
        with self.lock:
            o = self.ops.get(op_id)
            return o.step_details.attempt if o and o.step_details else 0

    def invocation_input(self):
        with self.lock:
            allops = list(self.ops.values())
        if self.page_size and len(allops) > self.page_size:
            first, marker = allops[: self.page_size], str(self.page_size)
        else:
            first, marker = allops, ""
        return DurableExecutionInvocationInputWithClient(
            durable_execution_arn="arn:test",
            checkpoint_token="tok-init",
            initial_execution_state=InitialExecutionState(operations=first, next_marker=marker),
            service_client=self,
        )


# ---------------------------------------------------------------- program interpreter


class Runtime:
    def __init__(self, backend: Backend, sched_seed: int, max_sleep_ms: int = 15):
        self.backend = backend
        self.rng = random.Random(sched_seed)
        self.rng_lock = threading.Lock()
        self.max_sleep_ms = max_sleep_ms
        self.hooks: dict[str, callable] = {}  # name -> callable run inside the step (forcing interleavings)

    def jitter(self):
        with self.rng_lock:
            ms = self.rng.uniform(0, self.max_sleep_ms)
        time.sleep(ms / 1000.0)


def _retry_strategy(max_attempts: int):
    def strat(err, attempt):
        if attempt < max_attempts:
            return RetryDecision.retry(Duration.from_seconds(1))
        return RetryDecision.no_retry()

    return strat


def run_ops(ctx, ops, prefix: tuple[str, ...], rt: Runtime):
    """Interpret a list of op specs on ctx. The n-th call on a context gets structural path prefix+(n,) and is
    named after that path, so that the backend log can be checked against the position."""
    out = []
    for i, op in enumerate(ops, start=1):
        path = prefix + (str(i),)
        name = ".".join(path)
        k = op["k"]
        try:
            if k == "step":
                oid = expected_id(path)

                def fn(sc, op=op, oid=oid, name=name):
                    rt.jitter()
                    hook = rt.hooks.get(name)
                    if hook:
                        hook()
                    if op.get("fail"):
                        raise ValueError(f"permanent failure {name}")
                    if rt.backend.attempt_of(oid) < op.get("retry", 0):
                        raise ValueError(f"transient failure {name}")
                    if op.get("big"):
                        return "x" * op["big"]
                    return f"r:{name}"

                cfg = StepConfig(
                    retry_strategy=_retry_strategy(op.get("retry", 0) + 1),
                    step_semantics=StepSemantics.AT_MOST_ONCE_PER_RETRY if op.get("amo") else StepSemantics.AT_LEAST_ONCE_PER_RETRY,
                )
                out.append(ctx.step(fn, name=name, config=cfg))
            elif k == "wait":
                ctx.wait(Duration.from_seconds(op.get("s", 1)), name=name)
                out.append("w")
            elif k == "cb":
                cb = ctx.create_callback(name=name)
                out.append(cb.result())
            elif k == "wfc":

                def submitter(cb_id, wctx):
                    rt.jitter()

                out.append(ctx.wait_for_callback(submitter, name=name))
            elif k == "inv":
                out.append(ctx.invoke("fn", {"p": name}, name=name))
            elif k == "cond":
                n = op.get("n", 2)

                def check(state, cctx):
                    rt.jitter()
                    return state + 1

                def strat(state, attempt, n=n):
                    if state >= n:
                        return WaitForConditionDecision.stop_polling()
                    return WaitForConditionDecision.continue_waiting(Duration.from_seconds(1))

                out.append(ctx.wait_for_condition(check, WaitForConditionConfig(wait_strategy=strat, initial_state=0), name=name))
            elif k == "child":
                out.append(ctx.run_in_child_context(lambda c, op=op, path=path: run_ops(c, op["body"], path, rt), name=name))
            elif k == "map":
                items = list(range(op["n"]))

                def mf(c, item, idx, its, op=op, path=path):
                    rt.jitter()
                    return run_ops(c, op["body"], path + (f"b{idx}",), rt)

                cfg = MapConfig(max_concurrency=op.get("mc"), completion_config=_cc(op))
                res = ctx.map(items, mf, name=name, config=cfg)
                out.append([str(it.status.value) for it in res.all])
            elif k == "par":
                fns = []
                for bi, body in enumerate(op["branches"]):

                    def bf(c, body=body, bi=bi, path=path):
                        rt.jitter()
                        return run_ops(c, body, path + (f"b{bi}",), rt)

                    fns.append(bf)
                cfg = ParallelConfig(max_concurrency=op.get("mc"), completion_config=_cc(op))
                res = ctx.parallel(fns, name=name, config=cfg)
                out.append([str(it.status.value) for it in res.all])
            else:
                raise AssertionError(k)
        except (CallableRuntimeError, CallbackError, StepInterruptedError) as e:
            if op.get("nocatch"):
                raise
            out.append(f"err:{type(e).__name__}")
    return out


def _cc(op):
    return CompletionConfig(
        min_successful=op.get("min_ok"),
        tolerated_failure_count=op.get("tol"),
    )


# ---------------------------------------------------------------- driver


def lambda_ctx():
    m = Mock()
    m.aws_request_id = "req"
    m.client_context = None
    m.identity = None
    m._epoch_deadline_time_in_ms = 0  # noqa: SLF001
    m.invoked_function_arn = "arn"
    m.tenant_id = None
    return m


def drive(program, backend: Backend, rt: Runtime, max_invocations: int = 40, inv_timeout: float = 60.0):
    """Run the program to completion over as many invocations as needed. Returns the final output dict."""

    @durable_execution
    def handler(event, context):
        return run_ops(context, program, (), rt)

    last = None
    for _ in range(max_invocations):
        backend.inv += 1
        box = {}

        def target():
            try:
                box["out"] = handler(backend.invocation_input(), lambda_ctx())
            except BaseException as e:  # noqa: BLE001
                box["exc"] = e

        th = threading.Thread(target=target, daemon=True)
        th.start()
        th.join(inv_timeout)
        if th.is_alive():
            raise AssertionError(f"HANG in invocation {backend.inv}")
        if "exc" in box:
            if isinstance(box["exc"], CrashNow):
                backend.deliver()
                continue
            raise box["exc"]
        last = box["out"]
        if last["Status"] != "PENDING":
            return last
        backend.deliver()
    raise AssertionError(f"did not finish in {max_invocations} invocations; last={last}")


# ---------------------------------------------------------------- identity oracle


def name_to_path(name: str) -> tuple[tuple[str, ...], str]:
    """Names given by run_ops are dotted paths; wait_for_callback adds suffixes to inner operations."""
    for suffix, extra in ((" create callback id", "1"), (" submitter", "2")):
        if name.endswith(suffix):
            return tuple(name[: -len(suffix)].split(".")) + (extra,), suffix
    return tuple(name.split(".")), ""


def check_log(backend: Backend) -> list[str]:
    """Check every update the backend ever received against the C08 statement. Returns list of violations."""
    v: list[str] = list(backend.anomalies)
    id_to_path: dict[str, tuple[str, ...]] = {}
    path_to_id: dict[tuple[str, ...], str] = {}
    # pass 1: updates that carry a path name
    pending_branches = []
    for inv, u in backend.log:
        if u.operation_type is OperationType.EXECUTION:
            continue
        nm = u.name or ""
        if nm.startswith(("map-item-", "parallel-branch-")):
            pending_branches.append((inv, u))
            continue
        path, _ = name_to_path(nm)
        _record(v, id_to_path, path_to_id, inv, u, path)
    for inv, u in pending_branches:
        idx = u.name.rsplit("-", 1)[1]
        ppath = id_to_path.get(u.parent_id)
        if ppath is None:
            v.append(f"inv {inv}: branch {u.name} reports parent {str(u.parent_id)[:10]} which is no recorded operation")
            continue
        _record(v, id_to_path, path_to_id, inv, u, ppath + (f"b{idx}",))
    return v


def _record(v, id_to_path, path_to_id, inv, u, path):
    exp = expected_id(path)
    if u.operation_id != exp:
        v.append(f"inv {inv}: position {'.'.join(path)} recorded under id {u.operation_id[:10]}, expected {exp[:10]} ({u.operation_type.value} {u.action.value})")
    exp_parent = expected_id(path[:-1]) if len(path) > 1 else None
    if (u.parent_id or None) != exp_parent:
        v.append(f"inv {inv}: position {'.'.join(path)} reports parent {str(u.parent_id)[:10]}, expected {str(exp_parent)[:10]} ({u.operation_type.value} {u.action.value})")
    prev = id_to_path.setdefault(u.operation_id, path)
    if prev != path:
        v.append(f"inv {inv}: id {u.operation_id[:10]} shared by positions {'.'.join(prev)} and {'.'.join(path)}")
    prev_id = path_to_id.setdefault(path, u.operation_id)
    if prev_id != u.operation_id:
        v.append(f"inv {inv}: position {'.'.join(path)} recorded under two ids {prev_id[:10]} and {u.operation_id[:10]}")


def id_map(backend: Backend) -> dict[str, str]:
    """name -> id, for comparing runs of the same program under different schedules."""
    m: dict[str, set[str]] = {}
    for _, u in backend.log:
        if u.operation_type is OperationType.EXECUTION:
            continue
        key = f"{u.parent_id}|{u.name}"
        m.setdefault(key, set()).add(u.operation_id)
    return {k: sorted(s) for k, s in m.items()}


# ---------------------------------------------------------------- random programs


def gen_ops(rng: random.Random, depth: int, in_branch: bool = False) -> list[dict]:
    n = rng.randint(1, 4 if depth else 5)
    ops = []
    for _ in range(n):
        r = rng.random()
        if depth < 3 and r < 0.14:
            ops.append({"k": "child", "body": gen_ops(rng, depth + 1, in_branch)})
        elif depth < 3 and r < 0.26:
            op = {"k": "map", "n": rng.randint(0, 4), "body": gen_ops(rng, depth + 1, True)}
            _rand_cfg(rng, op, op["n"])
            ops.append(op)
        elif depth < 3 and r < 0.40:
            nb = rng.randint(0, 4)
            op = {"k": "par", "branches": [gen_ops(rng, depth + 1, True) for _ in range(nb)]}
            _rand_cfg(rng, op, nb)
            ops.append(op)
        elif r < 0.50:
            ops.append({"k": "wait"})
        elif r < 0.56:
            ops.append({"k": "cb"})
        elif r < 0.62:
            ops.append({"k": "wfc"})
        elif r < 0.68:
            ops.append({"k": "inv"})
        elif r < 0.73:
            ops.append({"k": "cond", "n": rng.randint(1, 2)})
        elif r < 0.79:
            ops.append({"k": "step", "fail": 1, "nocatch": depth > 0 and rng.random() < 0.5})
        elif r < 0.86:
            ops.append({"k": "step", "retry": rng.randint(1, 2), "amo": rng.random() < 0.3})
        elif r < 0.89:
            ops.append({"k": "step", "big": 300_000})
        else:
            ops.append({"k": "step", "amo": rng.random() < 0.2})
    return ops


def _rand_cfg(rng, op, n):
    if n and rng.random() < 0.3:
        op["mc"] = rng.randint(1, n)
    if n and rng.random() < 0.3:
        op["min_ok"] = rng.randint(1, n)
    if rng.random() < 0.4:
        op["tol"] = rng.randint(0, max(n, 1))
