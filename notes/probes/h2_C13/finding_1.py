"""C13 finding 1 (borderline - aliasing): the first poll does not always receive the configured initial state.

WaitForConditionOperationExecutor.execute() hands `config.initial_state` - the very object stored in the
config - to the check function.  A check function that updates its state in place and returns it (a natural way to
write `check(state, ctx) -> state`) therefore rewrites the *configuration*.  Every later first poll that uses the
same WaitForConditionConfig in the same process (another map item / parallel branch, a second wait_for_condition
call, the next execution in a warm Lambda container with a module-level config) starts from the state the other
poll left behind instead of the configured initial state.  Later polls are not affected (they get the state
restored from the checkpoint), and neither is a first poll that runs after a crash (the new process builds a fresh
config) - so the states that are threaded through the polls depend on where the process happened to be restarted.

Run:  PYTHONPATH=/tmp/wt/h2_C13/src /venv/bin/python finding_1.py      (unmodified SDK, ~15 s)
"""

from __future__ import annotations

import copy
import datetime
import logging
import sys
import threading

from aws_durable_execution_sdk_python.config import Duration, MapConfig
from aws_durable_execution_sdk_python.execution import (
    DurableExecutionInvocationInputWithClient,
    InitialExecutionState,
    durable_execution,
)
from aws_durable_execution_sdk_python.lambda_service import (
    CheckpointOutput,
    CheckpointUpdatedExecutionState,
    ContextDetails,
    ExecutionDetails,
    Operation,
    OperationAction,
    OperationStatus,
    OperationType,
    StateOutput,
    StepDetails,
)
from aws_durable_execution_sdk_python.waits import (
    WaitForConditionConfig,
    WaitForConditionDecision,
)

logging.disable(logging.CRITICAL)
UTC = datetime.UTC


class Backend:
    """In-memory backend: records the checkpoints and plays them back as history."""

    def __init__(self):
        self.lock = threading.Lock()
        self.ops: dict[str, Operation] = {}
        self.order: list[str] = []
        self.crash_on = None  # callable(update) -> bool: the call fails before anything of it is recorded
        self._put(
            Operation(
                operation_id="exec",
                operation_type=OperationType.EXECUTION,
                status=OperationStatus.STARTED,
                execution_details=ExecutionDetails(input_payload="{}"),
            )
        )

    def _put(self, op):
        if op.operation_id not in self.ops:
            self.order.append(op.operation_id)
        self.ops[op.operation_id] = op

    def checkpoint(self, durable_execution_arn, checkpoint_token, updates, client_token):
        with self.lock:
            if self.crash_on and any(self.crash_on(u) for u in updates):
                self.crash_on = None
                raise RuntimeError("simulated crash: the process dies, nothing of this call is recorded")
            for u in updates:
                self._apply(u)
            return CheckpointOutput(
                checkpoint_token="t",
                new_execution_state=CheckpointUpdatedExecutionState(
                    operations=[self.ops[i] for i in self.order]
                ),
            )

    def get_execution_state(self, *a, **k):
        return StateOutput(operations=[], next_marker=None)

    def _apply(self, u):
        cur = self.ops.get(u.operation_id)
        now = datetime.datetime.now(tz=UTC)
        base = dict(
            operation_id=u.operation_id, operation_type=u.operation_type, parent_id=u.parent_id,
            name=u.name, sub_type=u.sub_type,
        )
        if u.operation_type is OperationType.STEP:
            sd = cur.step_details if cur and cur.step_details else StepDetails()
            if u.action is OperationAction.START:
                op = Operation(status=OperationStatus.STARTED, step_details=sd, **base)
            elif u.action is OperationAction.RETRY:
                delay = u.step_options.next_attempt_delay_seconds
                op = Operation(
                    status=OperationStatus.PENDING,
                    step_details=StepDetails(
                        attempt=sd.attempt + 1,
                        next_attempt_timestamp=now + datetime.timedelta(seconds=delay),
                        result=u.payload,
                    ),
                    **base,
                )
            elif u.action is OperationAction.SUCCEED:
                op = Operation(
                    status=OperationStatus.SUCCEEDED,
                    step_details=StepDetails(attempt=sd.attempt + 1, result=u.payload),
                    **base,
                )
            else:
                op = Operation(
                    status=OperationStatus.FAILED,
                    step_details=StepDetails(attempt=sd.attempt + 1, error=u.error),
                    **base,
                )
        elif u.operation_type is OperationType.CONTEXT:
            if u.action is OperationAction.START:
                op = Operation(status=OperationStatus.STARTED, context_details=ContextDetails(), **base)
            elif u.action is OperationAction.SUCCEED:
                rc = u.context_options.replay_children if u.context_options else False
                op = Operation(
                    status=OperationStatus.SUCCEEDED,
                    context_details=ContextDetails(replay_children=rc, result=u.payload),
                    **base,
                )
            else:
                op = Operation(
                    status=OperationStatus.FAILED, context_details=ContextDetails(error=u.error), **base
                )
        else:
            return
        self._put(op)

    def invoke(self, handler):
        with self.lock:
            # the retry timers of the backend have fired
            for i in self.order:
                if self.ops[i].status is OperationStatus.PENDING:
                    o = self.ops[i]
                    self.ops[i] = Operation(
                        operation_id=o.operation_id, operation_type=o.operation_type, status=OperationStatus.READY,
                        parent_id=o.parent_id, name=o.name, sub_type=o.sub_type, step_details=o.step_details,
                    )
            history = [self.ops[i] for i in self.order]
        event = DurableExecutionInvocationInputWithClient(
            durable_execution_arn="arn:test",
            checkpoint_token="t",
            initial_execution_state=InitialExecutionState(operations=history, next_marker=""),
            service_client=self,
        )

        class LambdaCtx:
            aws_request_id = "r"
            log_group_name = "g"
            log_stream_name = "s"
            function_name = "f"
            memory_limit_in_mb = "128"
            function_version = "1"
            invoked_function_arn = "arn"
            tenant_id = None
            client_context = None
            identity = None

            def get_remaining_time_in_millis(self):
                return 100000

        return durable_execution(handler)(event, LambdaCtx())


INITIAL = {"polls": 0}


def make_handler(first_polls: dict):
    """One map over three items; every item polls a condition twice. All items share ONE config."""

    def check(state, check_ctx):
        # an ordinary check function: bump a counter kept in the state, return the state
        state["polls"] += 1
        return state

    def strategy(state, attempt):
        if attempt >= 2:
            return WaitForConditionDecision.stop_polling()
        return WaitForConditionDecision.continue_waiting(Duration.from_seconds(1))

    def handler(event, ctx):
        # a new config per invocation (= per process), but shared by the three items
        config = WaitForConditionConfig(wait_strategy=strategy, initial_state=copy.deepcopy(INITIAL))

        def item_fn(child_ctx, item, index, items):
            def recording_check(state, check_ctx):
                first_polls.setdefault(index, copy.deepcopy(state))
                return check(state, check_ctx)

            return child_ctx.wait_for_condition(recording_check, config, name=f"cond-{index}")["polls"]

        return ctx.map(["a", "b", "c"], item_fn, config=MapConfig(max_concurrency=1)).get_results()

    return handler


def run(crash_on=None):
    backend = Backend()
    backend.crash_on = crash_on
    first_polls: dict = {}
    handler = make_handler(first_polls)
    for _ in range(10):
        try:
            out = backend.invoke(handler)
        except RuntimeError:
            continue  # the invocation died; the backend invokes again with the recorded history
        if out["Status"] != "PENDING":
            return first_polls, out
    raise AssertionError("did not finish")


def main():
    # run 1: no crash
    first_polls, out = run()
    print("no crash     : first poll of item 0/1/2 received", [first_polls[i] for i in range(3)], "->", out)

    # run 2: the process dies when item 1 wants to record its first poll (nothing of that call is recorded);
    #        the backend re-invokes with the history, the new process builds a new config
    first_polls_c, out_c = run(
        crash_on=lambda u: u.name == "cond-1" and u.action is OperationAction.RETRY
    )
    print("crash at item 1: handler result", out_c)

    problems = []
    for i in range(3):
        if first_polls[i] != INITIAL:
            problems.append(
                f"first poll of item {i} received {first_polls[i]!r} instead of the configured initial state {INITIAL!r}"
            )
    if out.get("Result") != out_c.get("Result"):
        problems.append(
            f"the result depends on the crash point: {out.get('Result')} without a crash, {out_c.get('Result')} "
            "when the process is restarted before item 1 records its first poll"
        )
    assert not problems, "C13 violated (first poll / crash independence):\n  " + "\n  ".join(problems)
    print("OK")


if __name__ == "__main__":
    try:
        main()
    except AssertionError as e:
        print("ASSERTION FAILED:", e)
        sys.exit(1)
