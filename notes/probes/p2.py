import threading, time, datetime
from unittest.mock import Mock
from aws_durable_execution_sdk_python.state import ExecutionState, CheckpointBatcherConfig
from aws_durable_execution_sdk_python.lambda_service import *
from aws_durable_execution_sdk_python.context import DurableContext
from aws_durable_execution_sdk_python.config import *
from aws_durable_execution_sdk_python.exceptions import *

class Backend:
    def __init__(self, fail_at=None):
        self.calls=[]; self.fail_at=fail_at; self.ops={}
    def checkpoint(self, durable_execution_arn, checkpoint_token, updates, client_token):
        self.calls.append(updates)
        if self.fail_at is not None and len(self.calls)>=self.fail_at:
            raise CheckpointError("boom", CheckpointErrorCategory.INVOCATION)
        out=[]
        for u in updates:
            st={OperationAction.START:OperationStatus.STARTED,OperationAction.SUCCEED:OperationStatus.SUCCEEDED,OperationAction.FAIL:OperationStatus.FAILED,OperationAction.RETRY:OperationStatus.PENDING}[u.action]
            o=Operation(u.operation_id,u.operation_type,st,parent_id=u.parent_id,step_details=StepDetails(result=u.payload) if u.operation_type is OperationType.STEP else None, context_details=ContextDetails(result=u.payload) if u.operation_type is OperationType.CONTEXT else None)
            out.append(o)
        return CheckpointOutput("t%d"%len(self.calls), CheckpointUpdatedExecutionState(out,None))
    def get_execution_state(self,*a,**k): return StateOutput([],None)

def run(fn, backend, ops=None, timeout=5):
    st=ExecutionState("arn","t0",dict(ops or {}),backend,CheckpointBatcherConfig(max_batch_time_seconds=0.05))
    t=threading.Thread(target=st.checkpoint_batches_forever,daemon=True); t.start()
    ctx=DurableContext.from_lambda_context(st, Mock())
    res={}
    def body():
        try: res['r']=fn(ctx)
        except BaseException as e: res['e']=e
    u=threading.Thread(target=body,daemon=True); u.start(); u.join(timeout)
    st.stop_checkpointing()
    return ("HANG" if u.is_alive() else res), backend

# C06: checkpoint failure inside a map branch
def wf(ctx):
    return ctx.map([1,2], lambda c,item,i,items: c.step(lambda _: item*2, name="s"))
r,b=run(wf, Backend(fail_at=2))
print("C06 map branch failure:", r)

# C09: empty map with max_concurrency
def wf2(ctx): return ctx.map([], lambda c,item,i,items: 1, config=MapConfig(max_concurrency=3))
r,b=run(wf2, Backend(), timeout=3); print("C09 empty map with max_concurrency:", r)
def wf3(ctx): return ctx.map([], lambda c,item,i,items: 1)
r,b=run(wf3, Backend(), timeout=3); print("C09 empty map default:", r)

# C04: READY step with AT_MOST_ONCE runs without START
import hashlib
sid=hashlib.blake2b(b"1").hexdigest()[:64]
ops={sid:Operation(sid,OperationType.STEP,OperationStatus.READY,step_details=StepDetails(attempt=1))}
entered=[]
def wf4(ctx): return ctx.step(lambda _: entered.append(1) or 7, name="s", config=StepConfig(step_semantics=StepSemantics.AT_MOST_ONCE_PER_RETRY))
r,b=run(wf4, Backend(), ops); print("C04 READY:", r, "entered", entered, "updates", [[(u.action.value) for u in c] for c in b.calls])
