from aws_durable_execution_sdk_python.serdes import serialize, deserialize
s = serialize(None, {1: "a", None: 2, True: 3, 1.5: 4}, "op", "arn")
print("C15 dict keys:", s, deserialize(None, s, "op", "arn"))
from aws_durable_execution_sdk_python.lambda_service import *
op = Operation("i", OperationType.CONTEXT, OperationStatus.SUCCEEDED, context_details=ContextDetails(replay_children=True, result="r", error=ErrorObject("m","t",None,None)))
print("C20 ctx:", Operation.from_dict(op.to_dict()).context_details)
op = Operation("i", OperationType.WAIT, OperationStatus.STARTED, wait_details=WaitDetails())
print("C20 wait:", Operation.from_dict(op.to_dict()).wait_details)
op = Operation("i", OperationType.CHAINED_INVOKE, OperationStatus.STARTED, chained_invoke_details=ChainedInvokeDetails())
print("C20 inv:", Operation.from_dict(op.to_dict()).chained_invoke_details)
from concurrent.futures import ThreadPoolExecutor
try:
    ThreadPoolExecutor(max_workers=0)
except Exception as e: print("C09 pool0:", type(e).__name__, e)
