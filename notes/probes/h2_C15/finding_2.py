"""C15 finding 2: bytearray and memoryview are ACCEPTED by the default serializer and come back as bytes.

Clause violated: "deserializing the serialized text yields an equal value of the same types at every nesting
level ... A value that cannot be reproduced exactly is rejected with a serialization error rather than
silently altered."

bytearray / memoryview are not subclasses of bytes (this is not the known "subclass comes back as its base
type" issue): serdes.py TypeCodec.encode has an explicit `case bytes() | bytearray() | memoryview()` that
converts them with bytes(obj) and tags them "B"; BytesCodec.decode always returns bytes. For a memoryview over
a non-byte buffer (array('i', ...)) the restored value is not even == to the original.
Consequence in a workflow: a step that returns a bytearray hands the caller a mutable bytearray in the
invocation that ran it and an immutable bytes object on replay - the same handler code succeeds the first time
and raises AttributeError on re-invocation.

Run:  PYTHONPATH=/tmp/wt/h2_C15/src /venv/bin/python finding_2.py
"""
import logging
import sys
import threading
from unittest.mock import Mock

logging.disable(logging.CRITICAL)

from aws_durable_execution_sdk_python.context import DurableContext
from aws_durable_execution_sdk_python.exceptions import ExecutionError
from aws_durable_execution_sdk_python.execution import (
    DurableExecutionInvocationInputWithClient,
    InitialExecutionState,
    durable_execution,
)
from aws_durable_execution_sdk_python.lambda_service import (
    CheckpointOutput,
    CheckpointUpdatedExecutionState,
    ExecutionDetails,
    Operation,
    OperationAction,
    OperationStatus,
    OperationType,
    StateOutput,
    StepDetails,
)
from aws_durable_execution_sdk_python.serdes import deserialize, serialize
import array

problems = []

# ---------------------------------------------------------------- part A: the serializer alone
for label, value in [
    ("bytearray", bytearray(b"abc")),
    ("memoryview", memoryview(b"abc")),
    ("bytearray nested in list/dict/tuple", [{"k": (bytearray(b"abc"),)}]),
    ("memoryview over array('i')", memoryview(array.array("i", [1, 2]))),
]:
    try:
        text = serialize(None, value, "op", "arn")
    except ExecutionError:
        continue  # rejected: that would be fine
    back = deserialize(None, text, "op", "arn")

    def same(a, b):
        if type(a) is not type(b):
            return False
        if isinstance(a, (list, tuple)):
            return len(a) == len(b) and all(same(x, y) for x, y in zip(a, b))
        if isinstance(a, dict):
            return a.keys() == b.keys() and all(same(a[k], b[k]) for k in a)
        return a == b

    if not same(value, back):
        problems.append(f"A: {label}: accepted, serialized as {text}, came back as {back!r} (equal: {value == back})")


# ---------------------------------------------------------------- part B: a real two-invocation workflow
class FakeBackend:
    """In-memory backend: records checkpoints and plays them back as history."""

    def __init__(self):
        self.lock = threading.Lock()
        self.ops = {}
        self.order = []
        self._put(
            Operation(
                operation_id="exec-0",
                operation_type=OperationType.EXECUTION,
                status=OperationStatus.STARTED,
                execution_details=ExecutionDetails(input_payload="{}"),
            )
        )

    def _put(self, op):
        if op.operation_id not in self.ops:
            self.order.append(op.operation_id)
        self.ops[op.operation_id] = op

    def checkpoint(self, durable_execution_arn, checkpoint_token, updates, client_token=None):
        status_of = {
            OperationAction.START: OperationStatus.STARTED,
            OperationAction.SUCCEED: OperationStatus.SUCCEEDED,
            OperationAction.FAIL: OperationStatus.FAILED,
            OperationAction.RETRY: OperationStatus.PENDING,
        }
        with self.lock:
            changed = []
            for u in updates:
                op = Operation(
                    operation_id=u.operation_id,
                    operation_type=u.operation_type,
                    status=status_of[u.action],
                    parent_id=u.parent_id,
                    name=u.name,
                    sub_type=u.sub_type,
                    step_details=StepDetails(attempt=0, result=u.payload, error=u.error)
                    if u.operation_type is OperationType.STEP
                    else None,
                )
                self._put(op)
                changed.append(op)
            return CheckpointOutput(
                checkpoint_token="tok",
                new_execution_state=CheckpointUpdatedExecutionState(operations=changed),
            )

    def get_execution_state(self, durable_execution_arn, checkpoint_token, next_marker, max_items=1000):
        return StateOutput(operations=[], next_marker=None)

    def history(self):
        with self.lock:
            return [self.ops[i] for i in self.order]


def invoke(handler, backend):
    event = DurableExecutionInvocationInputWithClient(
        durable_execution_arn="arn:test",
        checkpoint_token="tok0",
        initial_execution_state=InitialExecutionState(operations=backend.history(), next_marker=""),
        service_client=backend,
    )
    out = {}
    t = threading.Thread(target=lambda: out.setdefault("r", handler(event, Mock())), daemon=True)
    t.start()
    t.join(60)
    assert not t.is_alive(), "handler hung"
    return out["r"]


@durable_execution
def handler(event, context: DurableContext):
    buf = context.step(lambda _ctx: bytearray(b"header:"), name="make-buffer")
    buf.extend(b"payload")  # legal on what the step function returned
    return buf.decode()


backend = FakeBackend()
first = invoke(handler, backend)
assert first["Status"] == "SUCCEEDED" and first["Result"] == '"header:payload"', first
second = invoke(handler, backend)  # re-invocation with the recorded history (replay)
if second != first:
    problems.append(
        f"B: first invocation {first['Status']} {first.get('Result')}, re-invocation with the recorded history "
        f"{second['Status']}: {(second.get('Error') or {}).get('ErrorType')}: {(second.get('Error') or {}).get('ErrorMessage')}"
    )

assert not problems, "C15 violated:\n  " + "\n  ".join(problems)
print("no violation")
