"""C15 finding 1: nested tuples of depth ~250..330 are ACCEPTED by the default serializer, but the text it
produces cannot be deserialized again (RecursionError -> ExecutionError "Deserialization failed").

Clause violated: "deserializing the serialized text yields an equal value ... to any nesting depth ...
A value that cannot be reproduced exactly is rejected with a serialization error rather than silently altered."

Cause: serdes.py ContainerCodec.decode(TypeTag.TUPLE) rebuilds the tuple with a *generator expression*
(tuple(self._unwrap(v, ...) for v in value)), which costs one more Python frame per nesting level than the
encoder's (inlined) list comprehension: decode needs 4 frames per tuple level, encode only 3. With the default
recursion limit (1000) every tuple nesting depth between ~250 and ~330 serializes fine and then fails to decode.

Run:  PYTHONPATH=/tmp/wt/h2_C15/src /venv/bin/python finding_1.py
"""
import logging
import sys
import threading
from unittest.mock import Mock

logging.disable(logging.CRITICAL)

from aws_durable_execution_sdk_python.context import DurableContext
from aws_durable_execution_sdk_python.exceptions import ExecutionError
from aws_durable_execution_sdk_python.execution import (
    DurableExecutionInvocationInputWithClient,
    InitialExecutionState,
    durable_execution,
)
from aws_durable_execution_sdk_python.lambda_service import (
    CheckpointOutput,
    CheckpointUpdatedExecutionState,
    ExecutionDetails,
    Operation,
    OperationAction,
    OperationStatus,
    OperationType,
    StateOutput,
    StepDetails,
)
from aws_durable_execution_sdk_python.serdes import deserialize, serialize

DEPTH = 300
assert sys.getrecursionlimit() == 1000, "script assumes the default recursion limit"


def nested_tuple(depth):
    value = "leaf"
    for _ in range(depth):
        value = (value,)
    return value


# ---------------------------------------------------------------- part A: the serializer alone
problems = []
value = nested_tuple(DEPTH)
text = serialize(None, value, "op-1", "arn")  # accepted: no serialization error
try:
    back = deserialize(None, text, "op-1", "arn")
    if back != value:
        problems.append("A: value came back different")
except ExecutionError as e:
    problems.append(
        f"A: a {DEPTH}-deep nested tuple was accepted by serialize() but its text cannot be deserialized: "
        f"{e} (cause: {type(e.__cause__).__name__})"
    )

# for comparison: the same depth built from lists-with-a-tuple or dicts round-trips (symmetric frame cost)
other = "leaf"
for _ in range(DEPTH):
    other = {"k": other}
assert deserialize(None, serialize(None, other, "o", "a"), "o", "a") == other


# ---------------------------------------------------------------- part B: a real two-invocation workflow
class FakeBackend:
    """In-memory backend: records checkpoints and plays them back as history."""

    def __init__(self):
        self.lock = threading.Lock()
        self.ops = {}
        self.order = []
        self._put(
            Operation(
                operation_id="exec-0",
                operation_type=OperationType.EXECUTION,
                status=OperationStatus.STARTED,
                execution_details=ExecutionDetails(input_payload="{}"),
            )
        )

    def _put(self, op):
        if op.operation_id not in self.ops:
            self.order.append(op.operation_id)
        self.ops[op.operation_id] = op

    def checkpoint(self, durable_execution_arn, checkpoint_token, updates, client_token=None):
        status_of = {
            OperationAction.START: OperationStatus.STARTED,
            OperationAction.SUCCEED: OperationStatus.SUCCEEDED,
            OperationAction.FAIL: OperationStatus.FAILED,
            OperationAction.RETRY: OperationStatus.PENDING,
        }
        with self.lock:
            changed = []
            for u in updates:
                op = Operation(
                    operation_id=u.operation_id,
                    operation_type=u.operation_type,
                    status=status_of[u.action],
                    parent_id=u.parent_id,
                    name=u.name,
                    sub_type=u.sub_type,
                    step_details=StepDetails(attempt=0, result=u.payload, error=u.error)
                    if u.operation_type is OperationType.STEP
                    else None,
                )
                self._put(op)
                changed.append(op)
            return CheckpointOutput(
                checkpoint_token="tok",
                new_execution_state=CheckpointUpdatedExecutionState(operations=changed),
            )

    def get_execution_state(self, durable_execution_arn, checkpoint_token, next_marker, max_items=1000):
        return StateOutput(operations=[], next_marker=None)

    def history(self):
        with self.lock:
            return [self.ops[i] for i in self.order]


def invoke(handler, backend):
    event = DurableExecutionInvocationInputWithClient(
        durable_execution_arn="arn:test",
        checkpoint_token="tok0",
        initial_execution_state=InitialExecutionState(operations=backend.history(), next_marker=""),
        service_client=backend,
    )
    out = {}
    t = threading.Thread(target=lambda: out.setdefault("r", handler(event, Mock())), daemon=True)
    t.start()
    t.join(60)
    assert not t.is_alive(), "handler hung"
    return out["r"]


@durable_execution
def handler(event, context: DurableContext):
    tree = context.step(lambda _ctx: nested_tuple(DEPTH), name="build-tree")
    depth = 0
    while isinstance(tree, tuple):
        tree = tree[0]
        depth += 1
    return depth


backend = FakeBackend()
first = invoke(handler, backend)
step_ops = [op for op in backend.history() if op.operation_type is OperationType.STEP]
assert first["Status"] == "SUCCEEDED" and first["Result"] == str(DEPTH), first
assert step_ops and step_ops[0].status is OperationStatus.SUCCEEDED, "step result was checkpointed as SUCCEEDED"

second = invoke(handler, backend)  # re-invocation with the recorded history (replay)
if second != first:
    problems.append(
        "B: the first invocation checkpointed the step result and SUCCEEDED, the re-invocation with that "
        f"history returns {second['Status']}: {(second.get('Error') or {}).get('ErrorMessage')}"
    )

assert not problems, "C15 violated:\n  " + "\n  ".join(problems)
print("no violation")
