"""C15 finding 3: a timezone-aware datetime whose tzinfo is a real time zone (zoneinfo.ZoneInfo, or any
tzinfo with DST rules) is ACCEPTED and comes back with a fixed-offset datetime.timezone instead.

Clause violated: "deserializing the serialized text yields an equal value ... A value that cannot be reproduced
exactly is rejected with a serialization error rather than silently altered."

serdes.py DateTimeCodec.encode writes obj.isoformat() only (the numeric UTC offset valid at that instant);
DateTimeCodec.decode uses datetime.fromisoformat(), which yields tzinfo=timezone(offset). The zone is lost:
 (1) in the repeated hour at the end of DST the restored value is not == to the original (PEP 495 inter-zone
     comparison) and, for fold=1, does not even have the same hash;
 (2) for every other instant `==` holds, but the value behaves differently: wall-clock arithmetic that crosses a
     DST change gives another instant, tzname()/dst() differ. A handler that computes a deadline from a step
     result therefore computes a different deadline on replay than in the invocation that ran the step.

Run:  PYTHONPATH=/tmp/wt/h2_C15/src /venv/bin/python finding_3.py
"""
import logging
import sys
import threading
from unittest.mock import Mock

logging.disable(logging.CRITICAL)

from aws_durable_execution_sdk_python.context import DurableContext
from aws_durable_execution_sdk_python.exceptions import ExecutionError
from aws_durable_execution_sdk_python.execution import (
    DurableExecutionInvocationInputWithClient,
    InitialExecutionState,
    durable_execution,
)
from aws_durable_execution_sdk_python.lambda_service import (
    CheckpointOutput,
    CheckpointUpdatedExecutionState,
    ExecutionDetails,
    Operation,
    OperationAction,
    OperationStatus,
    OperationType,
    StateOutput,
    StepDetails,
)
from aws_durable_execution_sdk_python.serdes import deserialize, serialize
from datetime import datetime, timedelta, timezone, tzinfo

try:
    from zoneinfo import ZoneInfo

    NEW_YORK = ZoneInfo("America/New_York")
except Exception:  # no tz database available: a hand-written tzinfo with the same rules for 2024/2025

    class _Eastern(tzinfo):
        def _is_dst(self, dt):
            naive = dt.replace(tzinfo=None)
            start, end = datetime(naive.year, 3, 10, 2), datetime(naive.year, 11, 3, 2)
            if naive.year == 2025:
                start, end = datetime(2025, 3, 9, 2), datetime(2025, 11, 2, 2)
            if end - timedelta(hours=1) <= naive < end:
                return dt.fold == 0
            return start <= naive < end

        def utcoffset(self, dt):
            return timedelta(hours=-4 if self._is_dst(dt) else -5)

        def dst(self, dt):
            return timedelta(hours=1 if self._is_dst(dt) else 0)

        def tzname(self, dt):
            return "EDT" if self._is_dst(dt) else "EST"

    NEW_YORK = _Eastern()

problems = []

# ---------------------------------------------------------------- part A: the serializer alone
ambiguous = datetime(2024, 11, 3, 1, 30, fold=1, tzinfo=NEW_YORK)  # 01:30 EST, the second 01:30 of that night
text = serialize(None, ambiguous, "op", "arn")  # accepted
back = deserialize(None, text, "op", "arn")
if back != ambiguous:
    problems.append(f"A1: {ambiguous!r} accepted, serialized as {text}, came back as {back!r} which is != the original")

winter = datetime(2024, 1, 1, 12, 0, tzinfo=NEW_YORK)
back = deserialize(None, serialize(None, winter, "op", "arn"), "op", "arn")
later_orig = (winter + timedelta(days=180)).astimezone(timezone.utc)
later_back = (back + timedelta(days=180)).astimezone(timezone.utc)
if later_orig != later_back or back.tzname() != winter.tzname():
    problems.append(
        f"A2: {winter!r} came back as {back!r}: +180 days is {later_orig.isoformat()} for the original and "
        f"{later_back.isoformat()} for the restored value; tzname {winter.tzname()!r} -> {back.tzname()!r}"
    )


# ---------------------------------------------------------------- part B: a real two-invocation workflow
class FakeBackend:
    """In-memory backend: records checkpoints and plays them back as history."""

    def __init__(self):
        self.lock = threading.Lock()
        self.ops = {}
        self.order = []
        self._put(
            Operation(
                operation_id="exec-0",
                operation_type=OperationType.EXECUTION,
                status=OperationStatus.STARTED,
                execution_details=ExecutionDetails(input_payload="{}"),
            )
        )

    def _put(self, op):
        if op.operation_id not in self.ops:
            self.order.append(op.operation_id)
        self.ops[op.operation_id] = op

    def checkpoint(self, durable_execution_arn, checkpoint_token, updates, client_token=None):
        status_of = {
            OperationAction.START: OperationStatus.STARTED,
            OperationAction.SUCCEED: OperationStatus.SUCCEEDED,
            OperationAction.FAIL: OperationStatus.FAILED,
            OperationAction.RETRY: OperationStatus.PENDING,
        }
        with self.lock:
            changed = []
            for u in updates:
                op = Operation(
                    operation_id=u.operation_id,
                    operation_type=u.operation_type,
                    status=status_of[u.action],
                    parent_id=u.parent_id,
                    name=u.name,
                    sub_type=u.sub_type,
                    step_details=StepDetails(attempt=0, result=u.payload, error=u.error)
                    if u.operation_type is OperationType.STEP
                    else None,
                )
                self._put(op)
                changed.append(op)
            return CheckpointOutput(
                checkpoint_token="tok",
                new_execution_state=CheckpointUpdatedExecutionState(operations=changed),
            )

    def get_execution_state(self, durable_execution_arn, checkpoint_token, next_marker, max_items=1000):
        return StateOutput(operations=[], next_marker=None)

    def history(self):
        with self.lock:
            return [self.ops[i] for i in self.order]


def invoke(handler, backend):
    event = DurableExecutionInvocationInputWithClient(
        durable_execution_arn="arn:test",
        checkpoint_token="tok0",
        initial_execution_state=InitialExecutionState(operations=backend.history(), next_marker=""),
        service_client=backend,
    )
    out = {}
    t = threading.Thread(target=lambda: out.setdefault("r", handler(event, Mock())), daemon=True)
    t.start()
    t.join(60)
    assert not t.is_alive(), "handler hung"
    return out["r"]


@durable_execution
def handler(event, context: DurableContext):
    created = context.step(lambda _ctx: datetime(2024, 1, 1, 12, 0, tzinfo=NEW_YORK), name="created-at")
    deadline = created + timedelta(days=180)  # "same wall-clock time, 180 days later"
    return deadline.astimezone(timezone.utc).isoformat()


backend = FakeBackend()
first = invoke(handler, backend)
assert first["Status"] == "SUCCEEDED", first
second = invoke(handler, backend)  # re-invocation with the recorded history (replay)
if second != first:
    problems.append(
        f"B: the handler computed deadline {first.get('Result')} in the invocation that ran the step and "
        f"{second.get('Result')} when re-invoked with the recorded history"
    )

assert not problems, "C15 violated:\n  " + "\n  ".join(problems)
print("no violation")
