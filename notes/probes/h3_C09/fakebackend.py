"""In-memory fake of the durable execution backend, used by the finding_*.py / scenario scripts.

It records every checkpoint update, keeps the operation table a real backend would keep, answers each
checkpoint call with the operations it changed, and hands the whole table back as history on a re-invocation.
"""

from __future__ import annotations

import datetime
import json
import threading
from dataclasses import replace

from aws_durable_execution_sdk_python.execution import (
    DurableExecutionInvocationInputWithClient,
    InitialExecutionState,
)
from aws_durable_execution_sdk_python.lambda_service import (
    CallbackDetails,
    CheckpointOutput,
    CheckpointUpdatedExecutionState,
    ContextDetails,
    ExecutionDetails,
    Operation,
    OperationAction,
    OperationStatus,
    OperationType,
    StateOutput,
    StepDetails,
    WaitDetails,
)
from aws_durable_execution_sdk_python.state import CheckpointBatcherConfig

UTC = datetime.UTC


class FakeBackend:
    def __init__(self, input_payload="{}", page_size=None):
        self.lock = threading.Lock()
        self.ops: dict[str, Operation] = {}
        self.order: list[str] = []
        self.updates = []  # every update, in arrival order
        self.calls = 0
        self.page_size = page_size
        self.hooks = []  # callables(update) run under no lock before the update is applied
        self._put(
            Operation(
                operation_id="exec-1",
                operation_type=OperationType.EXECUTION,
                status=OperationStatus.STARTED,
                execution_details=ExecutionDetails(input_payload=input_payload),
            )
        )

    def _put(self, op):
        if op.operation_id not in self.ops:
            self.order.append(op.operation_id)
        self.ops[op.operation_id] = op

    # --- service client interface
    def checkpoint(self, durable_execution_arn, checkpoint_token, updates, client_token=None):
        for u in updates:
            for h in self.hooks:
                h(u)
        with self.lock:
            self.calls += 1
            if self.auto_time:
                self._tick()
            changed = []
            for u in updates:
                self.updates.append(u)
                changed.append(self._apply(u))
            # a real backend returns what changed (incl. changes made by the outside world)
            changed_ids = {c for c in changed if c}
            changed_ids |= self._dirty
            self._dirty = set()
            return CheckpointOutput(
                checkpoint_token=f"tok-{self.calls}",
                new_execution_state=CheckpointUpdatedExecutionState(
                    operations=[self.ops[i] for i in self.order if i in changed_ids]
                ),
            )

    _dirty: set = set()
    auto_time = True

    def _tick(self):
        """Timers of the backend: waits that are due succeed, retries that are due become READY."""
        now = datetime.datetime.now(tz=UTC)
        for i in self.order:
            op = self.ops[i]
            if (
                op.operation_type is OperationType.WAIT
                and op.status is OperationStatus.STARTED
                and op.wait_details.scheduled_end_timestamp <= now
            ):
                self.ops[i] = replace(op, status=OperationStatus.SUCCEEDED)
                self._dirty = self._dirty | {i}
            if (
                op.operation_type is OperationType.STEP
                and op.status is OperationStatus.PENDING
                and op.step_details.next_attempt_timestamp <= now
            ):
                self.ops[i] = replace(op, status=OperationStatus.READY)
                self._dirty = self._dirty | {i}

    def get_execution_state(self, durable_execution_arn, checkpoint_token, next_marker, max_items=1000):
        with self.lock:
            start = int(next_marker)
            ids = self.order[start : start + (self.page_size or 1000)]
            nxt = start + len(ids)
            return StateOutput(
                operations=[self.ops[i] for i in ids],
                next_marker=str(nxt) if nxt < len(self.order) else None,
            )

    def _apply(self, u):
        now = datetime.datetime.now(tz=UTC)
        old = self.ops.get(u.operation_id)
        t = u.operation_type
        a = u.action
        if t is OperationType.EXECUTION:
            return None
        if old is not None and old.status in {
            OperationStatus.SUCCEEDED,
            OperationStatus.FAILED,
        }:
            raise AssertionError(
                f"backend: update {a} for terminal operation {u.operation_id} ({u.name})"
            )
        base = old or Operation(
            operation_id=u.operation_id,
            operation_type=t,
            status=OperationStatus.STARTED,
            parent_id=u.parent_id,
            name=u.name,
            sub_type=u.sub_type,
            start_timestamp=now,
        )
        if t is OperationType.CONTEXT:
            if a is OperationAction.START:
                op = base
            elif a is OperationAction.SUCCEED:
                op = replace(
                    base,
                    status=OperationStatus.SUCCEEDED,
                    context_details=ContextDetails(
                        replay_children=bool(u.context_options and u.context_options.replay_children),
                        result=u.payload,
                    ),
                )
            else:
                op = replace(
                    base,
                    status=OperationStatus.FAILED,
                    context_details=ContextDetails(error=u.error),
                )
        elif t is OperationType.STEP:
            attempt = (old.step_details.attempt if old and old.step_details else 0)
            if a is OperationAction.START:
                op = replace(base, status=OperationStatus.STARTED, step_details=StepDetails(attempt=attempt + 1))
            elif a is OperationAction.SUCCEED:
                op = replace(base, status=OperationStatus.SUCCEEDED, step_details=StepDetails(attempt=max(attempt, 1), result=u.payload))
            elif a is OperationAction.FAIL:
                op = replace(base, status=OperationStatus.FAILED, step_details=StepDetails(attempt=max(attempt, 1), error=u.error))
            else:  # RETRY
                delay = u.step_options.next_attempt_delay_seconds if u.step_options else 0
                op = replace(
                    base,
                    status=OperationStatus.PENDING,
                    step_details=StepDetails(
                        attempt=max(attempt, 1),
                        next_attempt_timestamp=now + datetime.timedelta(seconds=delay),
                        result=u.payload,
                        error=u.error,
                    ),
                )
        elif t is OperationType.WAIT:
            secs = u.wait_options.wait_seconds if u.wait_options else 1
            op = replace(
                base,
                status=OperationStatus.STARTED,
                wait_details=WaitDetails(scheduled_end_timestamp=now + datetime.timedelta(seconds=secs)),
            )
        elif t is OperationType.CALLBACK:
            op = replace(
                base,
                status=OperationStatus.STARTED,
                callback_details=CallbackDetails(callback_id=f"cb-{u.operation_id[:8]}"),
            )
        else:
            op = base
        self._put(op)
        return op.operation_id

    # --- the outside world
    def complete_waits(self, force=True):
        """Mark every open wait as SUCCEEDED and every PENDING step as READY."""
        with self.lock:
            for i in self.order:
                op = self.ops[i]
                if op.operation_type is OperationType.WAIT and op.status is OperationStatus.STARTED:
                    self.ops[i] = replace(op, status=OperationStatus.SUCCEEDED)
                    self._dirty = self._dirty | {i}
                if op.operation_type is OperationType.STEP and op.status is OperationStatus.PENDING:
                    self.ops[i] = replace(op, status=OperationStatus.READY)
                    self._dirty = self._dirty | {i}

    def complete_callback(self, name=None, result='"cb"', op_id=None):
        with self.lock:
            n = 0
            for i in self.order:
                op = self.ops[i]
                if (
                    op.operation_type is OperationType.CALLBACK
                    and op.status is OperationStatus.STARTED
                    and (name is None or op.name == name)
                    and (op_id is None or i == op_id)
                ):
                    self.ops[i] = replace(
                        op,
                        status=OperationStatus.SUCCEEDED,
                        callback_details=replace(op.callback_details, result=result),
                    )
                    self._dirty = self._dirty | {i}
                    n += 1
            return n

    def by_name(self, name):
        return [self.ops[i] for i in self.order if self.ops[i].name == name]

    def dump(self):
        for i in self.order:
            op = self.ops[i]
            print(
                f"  {i[:8]} parent={str(op.parent_id)[:8]} {op.operation_type.value:8} {str(op.sub_type.value if op.sub_type else None):18} "
                f"{op.name!s:22} {op.status.value}"
            )

    # --- invocation
    def invocation_input(self):
        with self.lock:
            if self.auto_time:
                self._tick()
                self._dirty = set()
            all_ops = [self.ops[i] for i in self.order]
        if self.page_size:
            first = all_ops[: self.page_size]
            marker = str(self.page_size) if len(all_ops) > self.page_size else ""
        else:
            first, marker = all_ops, ""
        return DurableExecutionInvocationInputWithClient(
            durable_execution_arn="arn:test",
            checkpoint_token="tok-0",
            initial_execution_state=InitialExecutionState(operations=first, next_marker=marker),
            service_client=self,
        )


def invoke(handler, backend, timeout=30):
    """Run one invocation of a @durable_execution handler in a thread; returns the response dict.

    Raises TimeoutError if the invocation does not answer within `timeout` seconds.
    """
    box = {}

    def run():
        try:
            box["out"] = handler(backend.invocation_input(), None)
        except BaseException as e:  # noqa: BLE001
            box["exc"] = e

    t = threading.Thread(target=run, daemon=True)
    t.start()
    t.join(timeout)
    if t.is_alive():
        msg = f"invocation did not answer within {timeout}s"
        raise TimeoutError(msg)
    if "exc" in box:
        raise box["exc"]
    return box["out"]


def fast_batches(window=0.01):
    """Shorten the default batching window (1 s) so that scenarios do not take a second per checkpoint."""
    import aws_durable_execution_sdk_python.state as st

    d = st.CheckpointBatcherConfig.__init__.__defaults__
    st.CheckpointBatcherConfig.__init__.__defaults__ = (d[0], window, d[2])


def summarize(batch):
    return (
        [(i.index, i.status.value, i.result, (i.error.type, i.error.message) if i.error else None) for i in batch.all],
        batch.completion_reason.value,
    )


__all__ = ["FakeBackend", "invoke", "fast_batches", "summarize", "CheckpointBatcherConfig", "json"]
