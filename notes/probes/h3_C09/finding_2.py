"""C09 finding 2 - in a re-invocation a map/parallel with a concurrency limit does not return when its completion
policy is decided: the successes (failures) recorded by earlier invocations are only counted when a pool worker
gets round to re-traversing those branches, so the call keeps waiting for a branch that is still running
although the minimum number of successes has been reached.

Run:  PYTHONPATH=/tmp/wt/h3_C09/src /venv/bin/python /tmp/wt/h3_C09/finding_2.py
"""

import logging
import os
import sys
import threading
import time

sys.path.insert(0, os.path.dirname(os.path.abspath(__file__)))

from fakebackend import FakeBackend, invoke, summarize  # noqa: E402

from aws_durable_execution_sdk_python.config import (  # noqa: E402
    CompletionConfig,
    ParallelConfig,
)
from aws_durable_execution_sdk_python.execution import durable_execution  # noqa: E402

logging.disable(logging.CRITICAL)

BLOCK_SECONDS = 8.0
release = threading.Event()
marks = {}


def submit(callback_id, wfc_context):
    """Hand the callback id to some external system (nothing to do in this demonstration)."""


def b0(ctx):
    ctx.wait_for_callback(submit, name="approval-0")
    return "A"


def b1(ctx):
    ctx.wait_for_callback(submit, name="approval-1")
    # a branch that "blocks": long-running work after its callback has been answered
    marks["b1 blocks"] = time.time()
    release.wait(BLOCK_SECONDS)
    return "B"


def b2(ctx):
    return "C"  # succeeds at once, in the first invocation


CONFIG = ParallelConfig(
    max_concurrency=1,
    completion_config=CompletionConfig(min_successful=2, tolerated_failure_count=3),
)

delivered = []


@durable_execution
def handler(event, ctx):
    marks["call"] = time.time()
    result = ctx.parallel([b0, b1, b2], name="P", config=CONFIG)
    marks["return"] = time.time()
    delivered.append(summarize(result))
    return "done"


backend = FakeBackend()

# invocation 1: b0 and b1 suspend on their callbacks, b2 succeeds (1 success < min_successful=2) -> PENDING
out = invoke(handler, backend, 60)
assert out["Status"] == "PENDING", out
assert backend.by_name("parallel-branch-2")[0].status.value == "SUCCEEDED", "precondition: branch 2 finished in invocation 1"

# the outside world answers both callbacks
assert backend.complete_callback() == 2

# invocation 2: as soon as b0 succeeds there are two successful branches (b2 from invocation 1, and b0):
# min_successful=2 is reached while b1 is still running.
out = invoke(handler, backend, 60)
release.set()
assert out["Status"] == "SUCCEEDED", out
items, reason = delivered[-1]
waited = marks["return"] - marks["b1 blocks"]
print(f"parallel() returned {marks['return'] - marks['call']:.1f}s after it was called, "
      f"{waited:.1f}s after the still-running branch 1 began to block (it blocks for {BLOCK_SECONDS}s)")
print("delivered:", items, reason)

# (Whether branch 2 is then reported SUCCEEDED or STARTED depends on whether the pool worker re-traverses it
#  before execute() builds the result - both have been observed; finding_1.py pins the STARTED case.)
assert waited < BLOCK_SECONDS - 1, (
    f"C09 violated: parallel() waited {waited:.1f}s for branch 1, which was still running, although "
    "min_successful=2 had been reached by branch 2 (succeeded in invocation 1, on record) and branch 0 "
    "(succeeded in this invocation) - the call has to return [SUCCEEDED, STARTED, SUCCEEDED] at that moment"
)
print("OK")
