"""C09 finding 1 - a large (ReplayChildren) map/parallel does not deliver the same batch result on replay:
a branch that FINISHED IN AN EARLIER INVOCATION but had not been re-traversed yet when the policy was decided
in the re-invocation is reported STARTED in the first delivery and SUCCEEDED (reason ALL_COMPLETED instead of
MIN_SUCCESSFUL_REACHED) when the call is replayed.  No race, no forced schedule: three plain invocations.

Run:  PYTHONPATH=/tmp/wt/h3_C09/src /venv/bin/python /tmp/wt/h3_C09/finding_1.py
"""

import logging
import os
import sys
import time

sys.path.insert(0, os.path.dirname(os.path.abspath(__file__)))

from fakebackend import FakeBackend, invoke, summarize  # noqa: E402

from aws_durable_execution_sdk_python.config import (  # noqa: E402
    CompletionConfig,
    ParallelConfig,
)
from aws_durable_execution_sdk_python.execution import durable_execution  # noqa: E402

logging.disable(logging.CRITICAL)

BIG = 150_000  # two of these exceed the 256 KB checkpoint limit -> the parallel is recorded as a summary


def submit(callback_id, wfc_context):
    """Hand the callback id to some external system (nothing to do in this demonstration)."""


def b0(ctx):
    ctx.wait_for_callback(submit, name="approval-0")
    return "A" * BIG


def b1(ctx):
    ctx.wait_for_callback(submit, name="approval-1")
    return "B" * BIG


def b2(ctx):
    # finishes in the FIRST invocation. Its own result is above the limit too, so its record is a
    # ReplayChildren record and looking at it again means running this body again (1.5 s).
    time.sleep(1.5)
    return "C" * 300_000


CONFIG = ParallelConfig(
    max_concurrency=1,
    completion_config=CompletionConfig(min_successful=2, tolerated_failure_count=3),
)

delivered = []


@durable_execution
def handler(event, ctx):
    result = ctx.parallel([b0, b1, b2], name="P", config=CONFIG)
    items, reason = summarize(result)
    delivered.append(([(i, status, None if r is None else r[0] + f"*{len(r)}") for i, status, r, _ in items], reason))
    return "done"


backend = FakeBackend()

# invocation 1: b0 and b1 suspend on their callbacks, b2 succeeds (1 success < min_successful=2) -> PENDING
out = invoke(handler, backend, 60)
assert out["Status"] == "PENDING", out
branch2 = backend.by_name("parallel-branch-2")[0]
assert branch2.status.value == "SUCCEEDED", "precondition: branch 2 finished in invocation 1"

# the outside world answers both callbacks
assert backend.complete_callback() == 2

# invocation 2: b0 and b1 succeed -> min_successful reached, the call returns.
out = invoke(handler, backend, 60)
assert out["Status"] == "SUCCEEDED", out
first = delivered[-1]
parent = backend.by_name("P")[0]
assert parent.context_details.replay_children, "precondition: the parallel was recorded in ReplayChildren mode"

# invocation 3: the handler is replayed from the recorded history
time.sleep(2)  # let the left-over thread of invocation 2 end, it plays no part
out = invoke(handler, backend, 60)
assert out["Status"] == "SUCCEEDED", out
replayed = delivered[-1]

print("first delivery :", first)
print("replay         :", replayed)
assert first == replayed, (
    "C09 violated: the batch result delivered on replay differs from the one delivered first:\n"
    f"   first : {first}\n   replay: {replayed}"
)
print("OK")
