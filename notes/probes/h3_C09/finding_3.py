"""C09 finding 3 (forced schedule) - the suspend verdict and the completion policy are evaluated from two
different sources that are not updated together: a branch publishes its terminal status
(ExecutableWithState.complete / fail) BEFORE it is counted (ExecutionCounters.complete_task / fail_task).
A sibling that suspends in between sees "not decided" in the counters and "nothing is running any more" in
the statuses, and parks the whole invocation (PENDING) although min_successful has been reached.
execute() then prefers the suspend verdict over the result.

The interleaving is forced by wrapping two SDK methods with threading.Events (nothing in src/ is modified);
without the wrappers the window is a few byte codes wide.

Run:  PYTHONPATH=/tmp/wt/h3_C09/src /venv/bin/python /tmp/wt/h3_C09/finding_3.py
"""

import logging
import os
import sys
import threading

sys.path.insert(0, os.path.dirname(os.path.abspath(__file__)))

from fakebackend import FakeBackend, invoke, summarize  # noqa: E402

from aws_durable_execution_sdk_python.concurrency.executor import ConcurrentExecutor  # noqa: E402
from aws_durable_execution_sdk_python.concurrency.models import ExecutionCounters  # noqa: E402
from aws_durable_execution_sdk_python.config import (  # noqa: E402
    CompletionConfig,
    ParallelConfig,
)
from aws_durable_execution_sdk_python.execution import durable_execution  # noqa: E402

logging.disable(logging.CRITICAL)

status_published = threading.Event()  # branch 1 is COMPLETED but not counted yet
sibling_judged = threading.Event()  # branch 0 has suspended and evaluated the suspend verdict

# --- forcing the schedule -------------------------------------------------------------------------
original_complete_task = ExecutionCounters.complete_task
original_should_suspend = ConcurrentExecutor.should_execution_suspend


def complete_task(self):
    # called right after exe_state.complete(result): hold the counting back until the sibling has judged
    status_published.set()
    sibling_judged.wait(10)
    original_complete_task(self)


def should_execution_suspend(self):
    verdict = original_should_suspend(self)
    if status_published.is_set():
        sibling_judged.set()
    return verdict


ExecutionCounters.complete_task = complete_task
ConcurrentExecutor.should_execution_suspend = should_execution_suspend
# --------------------------------------------------------------------------------------------------


def waits_for_approval(ctx):
    callback = ctx.create_callback(name="approval")
    status_published.wait(10)  # (schedule) suspend only after the sibling has published its status
    return callback.result()  # not answered yet: suspends this branch


def quick(ctx):
    return "fast"


CONFIG = ParallelConfig(completion_config=CompletionConfig(min_successful=1, tolerated_failure_count=1))
delivered = []


@durable_execution
def handler(event, ctx):
    result = ctx.parallel([waits_for_approval, quick], name="P", config=CONFIG)
    delivered.append(summarize(result))
    return "done"


backend = FakeBackend()
out = invoke(handler, backend, 60)
print("invocation answered:", out, " delivered:", delivered)
assert out["Status"] == "SUCCEEDED" and delivered, (
    "C09 violated: branch 1 succeeded, so min_successful=1 was reached and parallel() had to return "
    "[STARTED, SUCCEEDED] / MIN_SUCCESSFUL_REACHED - instead the call suspended and the invocation answered "
    f"{out['Status']} (it now waits for a callback nobody needs)"
)
assert delivered[-1] == ([(0, "STARTED", None, None), (1, "SUCCEEDED", "fast", None)], "MIN_SUCCESSFUL_REACHED"), delivered
print("OK")
