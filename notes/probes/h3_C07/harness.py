"""In-memory fake backend + driver for the durable execution SDK (scratch harness, C07)."""

from __future__ import annotations

import dataclasses
import datetime
import itertools
import threading
import time
from concurrent.futures import ThreadPoolExecutor
from concurrent.futures import TimeoutError as FutTimeout

from aws_durable_execution_sdk_python.execution import (
    DurableExecutionInvocationInputWithClient,
    InitialExecutionState,
    durable_execution,
)
from aws_durable_execution_sdk_python.lambda_service import (
    CallbackDetails,
    ChainedInvokeDetails,
    CheckpointOutput,
    CheckpointUpdatedExecutionState,
    ContextDetails,
    ExecutionDetails,
    Operation,
    OperationAction,
    OperationStatus,
    OperationType,
    StateOutput,
    StepDetails,
    WaitDetails,
)

UTC = datetime.UTC


def now_dt():
    return datetime.datetime.now(tz=UTC)


class Backend:
    """Fake durable backend.

    live_timers=True : timers fire according to the wall clock, also while an invocation runs.
    live_timers=False: timers fire only between invocations (driver calls fire_due_timers()).
    """

    def __init__(self, input_payload="{}", live_timers=True, page_size=None, latency=0.0, timer_lag=0.0):
        self.lock = threading.RLock()
        self.ops: dict[str, Operation] = {}
        self.order: list[str] = []
        self.dirty: set[str] = set()
        self.timers: list[tuple[float, str, str]] = []  # (due, op_id, kind)
        self.live_timers = live_timers
        self.page_size = page_size
        self.latency = latency
        self.timer_lag = timer_lag
        self.calls: list[list] = []
        self.token = itertools.count()
        self.cb_ids = itertools.count()
        self.execution_done = None
        self.crash_after = None  # crash the invocation at this checkpoint call number (per invocation)
        self.crash_before_apply = False
        self.call_no = 0
        self.crashed = False
        self._put(
            Operation(
                operation_id="exec-0",
                operation_type=OperationType.EXECUTION,
                status=OperationStatus.STARTED,
                execution_details=ExecutionDetails(input_payload=input_payload),
            ),
            dirty=False,
        )

    # --- storage helpers
    def _put(self, op: Operation, dirty=True):
        if op.operation_id not in self.ops:
            self.order.append(op.operation_id)
        self.ops[op.operation_id] = op
        if dirty:
            self.dirty.add(op.operation_id)

    def fire_due_timers(self, force=False, now=None):
        with self.lock:
            now = time.time() if now is None else now
            remaining = []
            for due, op_id, kind in self.timers:
                if due + self.timer_lag <= now or force:
                    op = self.ops[op_id]
                    if kind == "wait" and op.status is OperationStatus.STARTED:
                        self._put(dataclasses.replace(op, status=OperationStatus.SUCCEEDED))
                    elif kind == "retry" and op.status is OperationStatus.PENDING:
                        self._put(dataclasses.replace(op, status=OperationStatus.READY))
                else:
                    remaining.append((due, op_id, kind))
            self.timers = remaining

    def next_timer(self):
        with self.lock:
            return min((t[0] + self.timer_lag for t in self.timers), default=None)

    # --- external events
    def open_callbacks(self):
        with self.lock:
            return [
                o
                for o in self.ops.values()
                if o.operation_type is OperationType.CALLBACK
                and o.status is OperationStatus.STARTED
            ]

    def open_invokes(self):
        with self.lock:
            return [
                o
                for o in self.ops.values()
                if o.operation_type is OperationType.CHAINED_INVOKE
                and o.status is OperationStatus.STARTED
            ]

    def complete_callback(self, op_id, result='"cb"'):
        with self.lock:
            op = self.ops[op_id]
            self._put(
                dataclasses.replace(
                    op,
                    status=OperationStatus.SUCCEEDED,
                    callback_details=CallbackDetails(
                        callback_id=op.callback_details.callback_id, result=result
                    ),
                )
            )

    def complete_invoke(self, op_id, result='"inv"'):
        with self.lock:
            op = self.ops[op_id]
            self._put(
                dataclasses.replace(
                    op,
                    status=OperationStatus.SUCCEEDED,
                    chained_invoke_details=ChainedInvokeDetails(result=result),
                )
            )

    # --- service client protocol
    def checkpoint(self, durable_execution_arn, checkpoint_token, updates, client_token):
        if self.latency:
            time.sleep(self.latency)
        with self.lock:
            self.call_no += 1
            if self.crashed:
                raise RuntimeError("sandbox is gone")
            if self.crash_after is not None and self.call_no >= self.crash_after:
                self.crashed = True
                if self.crash_before_apply:
                    raise RuntimeError("simulated crash before apply")
            self.calls.append(list(updates))
            for u in updates:
                self._apply(u)
            if self.crashed:
                raise RuntimeError("simulated crash after apply")
            if self.live_timers:
                self.fire_due_timers()
            changed = [self.ops[i] for i in self.order if i in self.dirty]
            self.dirty.clear()
            return CheckpointOutput(
                checkpoint_token=f"tok-{next(self.token)}",
                new_execution_state=CheckpointUpdatedExecutionState(
                    operations=changed, next_marker=None
                ),
            )

    def get_execution_state(self, durable_execution_arn, checkpoint_token, next_marker, max_items=1000):
        with self.lock:
            allops = [self.ops[i] for i in self.order]
            start = int(next_marker)
            size = self.page_size or 1000
            page = allops[start : start + size]
            nm = str(start + size) if start + size < len(allops) else None
            return StateOutput(operations=page, next_marker=nm)

    def _apply(self, u):
        t, a = u.operation_type, u.action
        old = self.ops.get(u.operation_id)
        base = old or Operation(
            operation_id=u.operation_id,
            operation_type=t,
            status=OperationStatus.STARTED,
            parent_id=u.parent_id,
            name=u.name,
            sub_type=u.sub_type,
        )
        if old is not None and old.status in (
            OperationStatus.SUCCEEDED,
            OperationStatus.FAILED,
        ) and t is not OperationType.EXECUTION:
            raise AssertionError(f"update {a} for terminal operation {u.operation_id} {u.name}")
        if t is OperationType.EXECUTION:
            self.execution_done = u
            return
        if t is OperationType.STEP:
            sd = base.step_details or StepDetails()
            if a is OperationAction.START:
                self._put(dataclasses.replace(base, status=OperationStatus.STARTED, step_details=sd))
            elif a is OperationAction.RETRY:
                delay = u.step_options.next_attempt_delay_seconds
                due = time.time() + delay
                sd = StepDetails(
                    attempt=sd.attempt + 1,
                    next_attempt_timestamp=datetime.datetime.fromtimestamp(due, tz=UTC),
                    result=u.payload,
                    error=u.error,
                )
                self._put(dataclasses.replace(base, status=OperationStatus.PENDING, step_details=sd))
                self.timers.append((due, u.operation_id, "retry"))
            elif a is OperationAction.SUCCEED:
                sd = dataclasses.replace(sd, result=u.payload, attempt=sd.attempt + 1)
                self._put(dataclasses.replace(base, status=OperationStatus.SUCCEEDED, step_details=sd))
            elif a is OperationAction.FAIL:
                sd = dataclasses.replace(sd, error=u.error, attempt=sd.attempt + 1)
                self._put(dataclasses.replace(base, status=OperationStatus.FAILED, step_details=sd))
        elif t is OperationType.WAIT:
            due = time.time() + u.wait_options.wait_seconds
            self._put(
                dataclasses.replace(
                    base,
                    status=OperationStatus.STARTED,
                    wait_details=WaitDetails(
                        scheduled_end_timestamp=datetime.datetime.fromtimestamp(due, tz=UTC)
                    ),
                )
            )
            self.timers.append((due, u.operation_id, "wait"))
        elif t is OperationType.CALLBACK:
            self._put(
                dataclasses.replace(
                    base,
                    status=OperationStatus.STARTED,
                    callback_details=CallbackDetails(callback_id=f"cb-{next(self.cb_ids)}"),
                )
            )
        elif t is OperationType.CHAINED_INVOKE:
            self._put(
                dataclasses.replace(
                    base, status=OperationStatus.STARTED, chained_invoke_details=ChainedInvokeDetails()
                )
            )
        elif t is OperationType.CONTEXT:
            if a is OperationAction.START:
                self._put(dataclasses.replace(base, status=OperationStatus.STARTED))
            elif a is OperationAction.SUCCEED:
                rc = bool(u.context_options and u.context_options.replay_children)
                self._put(
                    dataclasses.replace(
                        base,
                        status=OperationStatus.SUCCEEDED,
                        context_details=ContextDetails(replay_children=rc, result=u.payload),
                    )
                )
            elif a is OperationAction.FAIL:
                self._put(
                    dataclasses.replace(
                        base,
                        status=OperationStatus.FAILED,
                        context_details=ContextDetails(replay_children=False, result=None, error=u.error),
                    )
                )

    # --- for the driver
    def invocation_input(self):
        with self.lock:
            self.dirty.clear()
            self.call_no = 0
            self.crashed = False
            allops = [self.ops[i] for i in self.order]
            if self.page_size:
                first, nm = allops[: self.page_size], (
                    str(self.page_size) if len(allops) > self.page_size else ""
                )
            else:
                first, nm = allops, ""
            return DurableExecutionInvocationInputWithClient(
                durable_execution_arn="arn:test",
                checkpoint_token=f"tok-{next(self.token)}",
                initial_execution_state=InitialExecutionState(operations=first, next_marker=nm),
                service_client=self,
            )

    def dump(self):
        with self.lock:
            return [
                (o.name, o.operation_type.value, o.status.value, o.operation_id[:6], (o.parent_id or "")[:6])
                for o in (self.ops[i] for i in self.order)
            ]


class Activity:
    """Counts user functions that are executing right now."""

    def __init__(self):
        self.lock = threading.Lock()
        self.running: dict[str, int] = {}
        self.log: list[tuple[float, str, str]] = []

    def enter(self, name):
        with self.lock:
            self.running[name] = self.running.get(name, 0) + 1
            self.log.append((time.time(), "enter", name))

    def exit(self, name):
        with self.lock:
            self.running[name] -= 1
            if not self.running[name]:
                del self.running[name]
            self.log.append((time.time(), "exit", name))

    def snapshot(self):
        with self.lock:
            return dict(self.running)

    def track(self, name, fn):
        def wrapped(*a, **k):
            self.enter(name)
            try:
                return fn(*a, **k)
            finally:
                self.exit(name)

        return wrapped


class InvocationHang(AssertionError):
    pass


def invoke_once(handler, backend: Backend, timeout=30.0):
    """Run one invocation of the wrapped handler in a thread; raise InvocationHang on timeout."""
    wrapped = durable_execution(handler)
    pool = ThreadPoolExecutor(max_workers=1, thread_name_prefix="invocation")
    fut = pool.submit(wrapped, backend.invocation_input(), None)
    try:
        return fut.result(timeout=timeout)
    except FutTimeout:
        raise InvocationHang(f"invocation did not return within {timeout}s") from None
    finally:
        pool.shutdown(wait=False)


def drive(
    handler,
    backend: Backend,
    activity: Activity | None = None,
    max_invocations=30,
    timeout=30.0,
    deliver="after_pending",  # when open callbacks / invokes are completed
    on_pending=None,
    verbose=False,
    crash_plan=None,  # n -> (crash_after_call_no | None, before_apply)
    spurious=None,  # list collecting invocations that answered PENDING with nothing registered
):
    """Invoke until SUCCEEDED / FAILED. Returns (final output, list of outputs)."""
    outputs = []
    for n in range(max_invocations):
        if crash_plan is not None:
            backend.crash_after, backend.crash_before_apply = crash_plan(n)
        try:
            out = invoke_once(handler, backend, timeout)
        except RuntimeError as e:
            if "simulated crash" not in str(e) and "sandbox is gone" not in str(e):
                raise
            outputs.append({"Status": "CRASHED"})
            time.sleep(0.3)  # let leaked threads die
            backend.fire_due_timers()
            continue
        outputs.append(out)
        if verbose:
            print(f"invocation {n}: {out}")
        if out["Status"] != "PENDING":
            return out, outputs
        running = activity.snapshot() if activity else {}
        if on_pending:
            on_pending(n, out, running)
        # the backend must have something registered that will wake the execution
        nt = backend.next_timer()
        cbs, invs = backend.open_callbacks(), backend.open_invokes()
        if not (nt is not None or cbs or invs):
            if spurious is None:
                raise AssertionError(
                    f"PENDING returned but nothing is registered with the backend: {backend.dump()}"
                )
            spurious.append(n)
            continue
        if (deliver == "after_pending" or nt is None) and (cbs or invs):
            for o in cbs:
                backend.complete_callback(o.operation_id)
            for o in invs:
                backend.complete_invoke(o.operation_id)
        elif nt is not None:
            delay = nt - time.time()
            if delay > 0:
                time.sleep(delay + 0.01)
        backend.fire_due_timers()
    raise AssertionError(f"execution did not finish within {max_invocations} invocations: {outputs[-3:]}")
