"""C07 finding 1 - an invocation answers PENDING although nothing the workflow is parked on is still
registered with the backend: the only timer has fired, and the SDK has been told so.

Trigger (plain timing, no forced interleaving):
  invocation 1:  parallel [ A: ctx.wait(4 s) ,  B: callback.result() ; step ]  -> both parked -> PENDING (fine)
  t = 1 s     :  the callback is delivered -> invocation 2 (history: WAIT STARTED, CALLBACK SUCCEEDED)
  invocation 2:  A replays the wait. WaitOperationExecutor.execute() parks it for the FULL 4 s counted
                 from *now* (until t = 5 s); the ScheduledEndTimestamp of the record (t = 4 s) is ignored.
                 B runs its step (ordinary user work, 3.3 s).
  t = 4 s     :  the backend fires the wait timer. B's next checkpoint response (t = 4.4 s) carries the
                 WAIT as SUCCEEDED into the SDK's operation map.
  t = 4.6 s   :  B finishes. ConcurrentExecutor.should_execution_suspend() sees A 'suspended until 5 s' and
                 the invocation answers PENDING - for an execution that is parked on nothing.

Clause violated: "returns PENDING only after every unfinished part of the workflow is parked on a timer or
external event that is already registered with the backend ... so the execution is always woken again".

Run:  PYTHONPATH=src:. python finding_1.py      (exits non-zero on the current code)
"""

import logging
import sys
import time

from aws_durable_execution_sdk_python.config import Duration
from aws_durable_execution_sdk_python.lambda_service import OperationStatus, OperationType
from harness import Backend, invoke_once

logging.disable(logging.CRITICAL)

WAIT_SECONDS = 4
CALLBACK_AT = 1.0
WORK_SECONDS = 3.3


class RecordingBackend(Backend):
    def __init__(self):
        super().__init__(live_timers=True)  # timers fire punctually, by the wall clock
        self.told_wait_succeeded_at = None

    def checkpoint(self, durable_execution_arn, checkpoint_token, updates, client_token):
        out = super().checkpoint(durable_execution_arn, checkpoint_token, updates, client_token)
        for op in out.new_execution_state.operations:
            if op.operation_type is OperationType.WAIT and op.status is OperationStatus.SUCCEEDED:
                self.told_wait_succeeded_at = self.told_wait_succeeded_at or time.time()
        return out


def handler(event, ctx):
    def branch_wait(c):
        c.wait(Duration.from_seconds(WAIT_SECONDS), name="the-wait")
        return "waited"

    def branch_callback_then_work(c):
        cb = c.create_callback(name="cb")
        cb.result()

        def work(sc):
            time.sleep(WORK_SECONDS)
            return "worked"

        return c.step(work, name="work")

    return ctx.parallel([branch_wait, branch_callback_then_work], name="par").get_results()


def main():
    be = RecordingBackend()
    t0 = time.time()

    out1 = invoke_once(handler, be, timeout=30)
    print(f"t={time.time() - t0:4.1f}s invocation 1 answered {out1}")
    assert out1["Status"] == "PENDING"
    assert be.next_timer() is not None and be.open_callbacks(), "invocation 1 is parked correctly"

    time.sleep(max(0.0, CALLBACK_AT - (time.time() - t0)))
    be.complete_callback(be.open_callbacks()[0].operation_id)
    print(f"t={time.time() - t0:4.1f}s callback delivered, backend invokes again")

    out2 = invoke_once(handler, be, timeout=30)
    t_answer = time.time()
    statuses = {o[0]: o[2] for o in be.dump()}
    print(f"t={t_answer - t0:4.1f}s invocation 2 answered {out2}")
    print("       backend operations:", statuses)
    if be.told_wait_succeeded_at:
        print(f"       the SDK was handed WAIT=SUCCEEDED at t={be.told_wait_succeeded_at - t0:4.1f}s")

    if out2["Status"] == "PENDING":
        nothing_registered = (
            be.next_timer() is None and not be.open_callbacks() and not be.open_invokes()
        )
        told_before_answer = (
            be.told_wait_succeeded_at is not None and be.told_wait_succeeded_at < t_answer
        )
        assert not (nothing_registered and told_before_answer), (
            "C07 violated: invocation 2 answered PENDING although the wait it is 'parked' on is already "
            f"{statuses['the-wait']} in the backend, the SDK was handed that completion "
            f"{t_answer - be.told_wait_succeeded_at:.2f}s before it answered, and no timer / callback / invoke "
            "is registered with the backend any more: nothing will wake this execution again"
        )
    print("no violation observed")


if __name__ == "__main__":
    try:
        main()
    except AssertionError as e:
        print("FINDING:", e)
        sys.exit(1)
