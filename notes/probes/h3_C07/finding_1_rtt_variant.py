"""C07 finding 1 - PENDING is answered although the only timer the workflow is parked on has already
fired AND the SDK has already been told so: nothing is registered with the backend any more.

Same code site as the known callback/invoke item (ConcurrentExecutor.should_execution_suspend looks at
branch statuses only) but a different trigger: no external party is involved, only the SDK's own timers.
A branch that parks on ctx.wait() / a step retry is resumed by the SDK's local timer at
    T_local   = (time the START/RETRY *response* was received) + delay
while the backend's timer fires at
    T_backend = (time the START/RETRY *request* was applied)  + delay        (always earlier).
Every checkpoint a sibling branch makes in (T_backend, T_local) brings the operation back as SUCCEEDED /
READY. If that sibling then finishes before T_local, the verdict is "suspend until T_local" and the
invocation answers PENDING for an execution whose every timer has fired.

Run:  PYTHONPATH=src:. python finding_1.py      (exits non-zero on the current code)
"""

import logging
import sys
import threading
import time

from aws_durable_execution_sdk_python.config import Duration
from aws_durable_execution_sdk_python.lambda_service import OperationStatus, OperationType
from harness import Backend, invoke_once

logging.disable(logging.CRITICAL)


class SlowResponseBackend(Backend):
    """The response to the call that carries the WAIT START travels back slowly (0.7 s)."""

    def __init__(self):
        super().__init__(live_timers=True)
        self.delivered_wait_succeeded_at = None
        self.wait_fired = threading.Event()

    def checkpoint(self, durable_execution_arn, checkpoint_token, updates, client_token):
        out = super().checkpoint(durable_execution_arn, checkpoint_token, updates, client_token)
        for op in out.new_execution_state.operations:
            if op.operation_type is OperationType.WAIT and op.status is OperationStatus.SUCCEEDED:
                self.delivered_wait_succeeded_at = time.time()
        if any(u.operation_type is OperationType.WAIT for u in updates):
            time.sleep(0.7)  # slow network on the way back; the request has been applied already
        return out


def main():
    be = SlowResponseBackend()

    def handler(event, ctx):
        def branch_wait(c):
            c.wait(Duration.from_seconds(1), name="the-wait")
            return "waited"

        def branch_work(c):
            def work(sc):
                # ordinary user work that happens to end shortly after the backend's timer is due
                deadline = time.time() + 5
                while be.next_timer() is None and time.time() < deadline:  # WAIT START not applied yet
                    time.sleep(0.01)
                due = be.next_timer()
                time.sleep(max(0.0, due - time.time()) + 0.05)
                return "worked"

            return c.step(work, name="work")

        return ctx.parallel([branch_wait, branch_work], name="par").get_results()

    out = invoke_once(handler, be, timeout=30)
    print("invocation 1 answered:", out)
    ops = {o[0]: o[2] for o in be.dump()}
    print("backend operations   :", ops)
    pending_timers = be.next_timer()
    told = be.delivered_wait_succeeded_at is not None

    if out["Status"] == "PENDING":
        assert not (
            pending_timers is None and not be.open_callbacks() and not be.open_invokes() and told
        ), (
            "C07 violated: the invocation answered PENDING although the wait it is 'parked' on is already "
            f"SUCCEEDED in the backend (status {ops['the-wait']}), that completion had been delivered to the SDK "
            "in a checkpoint response before PENDING was answered, and no timer / callback / invoke is "
            "registered with the backend any more - nothing will ever wake this execution"
        )
    print("no violation observed")


if __name__ == "__main__":
    try:
        main()
    except AssertionError as e:
        print("FINDING:", e)
        sys.exit(1)
