"""Random workflow programs driven against the fake backend; checks the C07 invariants."""

import logging
import threading
import random
import sys
import time
import traceback

from aws_durable_execution_sdk_python.config import (
    CompletionConfig,
    Duration,
    InvokeConfig,
    MapConfig,
    ParallelConfig,
    StepConfig,
    StepSemantics,
)
from aws_durable_execution_sdk_python.retries import RetryDecision
from aws_durable_execution_sdk_python.waits import (
    WaitForConditionConfig,
    WaitForConditionDecision,
)
from harness import Activity, Backend, InvocationHang, drive

logging.disable(logging.CRITICAL)


EXTRA = False
LIVE_DELIVERY = False
LAG = 0.0
CRASH = False


def gen_body(rng, depth, allow_early=False):
    n = rng.randint(1, 3)
    return [gen_node(rng, depth, allow_early) for _ in range(n)]


def gen_node(rng, depth, allow_early):
    kinds = ["step", "step", "wait", "callback", "invoke", "wfc", "rawcb"]
    if EXTRA:
        kinds += ["failstep", "big"]
    if depth < 2:
        kinds += ["parallel", "map", "child", "parallel", "map"]
        if EXTRA:
            kinds += ["failchild", "bigchild"]
    k = rng.choice(kinds)
    if k == "step":
        return (
            "step",
            rng.choice([0, 0, 1, 2]),
            rng.choice([0, 0, 0.3, 1.2]),
            rng.choice([False, True]),
        )
    if k == "wait":
        return ("wait", 1)
    if k == "failstep":
        return ("failstep", rng.choice([0, 1]))
    if k == "big":
        return ("big",)
    if k == "failchild":
        return ("failchild", gen_body(rng, depth + 1, allow_early))
    if k == "bigchild":
        return ("bigchild", gen_body(rng, depth + 1, allow_early))
    if k == "callback":
        return ("callback",)
    if k == "rawcb":
        return ("rawcb",)
    if k == "invoke":
        return ("invoke", rng.choice([0, 0, 1]))
    if k == "wfc":
        return ("wfc", rng.randint(1, 3), rng.choice([0, 1, 1]))
    if k == "child":
        return ("child", gen_body(rng, depth + 1, allow_early))
    if k == "parallel":
        nb = rng.randint(1, 4)
        mc = rng.choice([None, None, 1, 2])
        ms = rng.choice([None, 1]) if allow_early else None
        return ("parallel", [gen_body(rng, depth + 1, allow_early) for _ in range(nb)], mc, ms)
    if k == "map":
        ni = rng.randint(0, 4)
        mc = rng.choice([None, None, 1, 2])
        ms = rng.choice([None, 1]) if allow_early else None
        return ("map", ni, gen_body(rng, depth + 1, allow_early), mc, ms)
    raise AssertionError(k)


BIG = "B" * 300_000


class Interp:
    def __init__(self, act):
        self.act = act
        self.counts = {}

    def retry(self, n):
        def strat(err, attempt):
            return RetryDecision.retry(Duration.from_seconds(1)) if attempt <= n else RetryDecision.no_retry()

        return strat

    def run_body(self, ctx, body, path):
        out = []
        for i, node in enumerate(body):
            out.append(self.run_node(ctx, node, f"{path}.{i}"))
        return out

    def run_node(self, ctx, node, path):
        k = node[0]
        if k == "step":
            _, fails, sleep, amo = node

            def fn(sc):
                self.counts[path] = self.counts.get(path, 0) + 1
                if sleep:
                    time.sleep(sleep)
                if self.counts[path] <= fails:
                    raise ValueError(f"{path} fails {self.counts[path]}")
                return path

            return ctx.step(
                self.act.track(path, fn),
                name=path,
                config=StepConfig(
                    retry_strategy=self.retry(3),
                    step_semantics=StepSemantics.AT_MOST_ONCE_PER_RETRY
                    if amo
                    else StepSemantics.AT_LEAST_ONCE_PER_RETRY,
                ),
            )
        if k == "wait":
            return ctx.wait(Duration.from_seconds(node[1]), name=path)
        if k == "failstep":
            def ffn(sc):
                raise KeyError(path)

            try:
                return ctx.step(self.act.track(path, ffn), name=path, config=StepConfig(retry_strategy=self.retry(node[1])))
            except Exception as e:  # noqa: BLE001
                return f"caught {type(e).__name__}"
        if k == "big":
            return BIG
        if k == "failchild":
            def fbody(c):
                self.run_body(c, node[1], path)
                raise RuntimeError(path)

            try:
                return ctx.run_in_child_context(fbody, name=path)
            except Exception as e:  # noqa: BLE001
                return f"caught {type(e).__name__}"
        if k == "bigchild":
            return ctx.run_in_child_context(lambda c: [self.run_body(c, node[1], path), BIG][1], name=path)[:5]
        if k == "callback":
            return ctx.wait_for_callback(self.act.track(path + "-submit", lambda cid, c: None), name=path)
        if k == "rawcb":
            cb = ctx.create_callback(name=path)
            return cb.result()
        if k == "invoke":
            cfg = InvokeConfig(timeout=Duration.from_seconds(node[1])) if node[1] else None
            return ctx.invoke("fn", {"p": path}, name=path, config=cfg)
        if k == "wfc":
            _, polls, delay = node

            def check(st, c):
                return st + 1

            return ctx.wait_for_condition(
                self.act.track(path, check),
                WaitForConditionConfig(
                    wait_strategy=lambda st, att: WaitForConditionDecision.stop_polling()
                    if st >= polls
                    else WaitForConditionDecision.continue_waiting(Duration.from_seconds(delay)),
                    initial_state=0,
                ),
                name=path,
            )
        if k == "child":
            return ctx.run_in_child_context(lambda c: self.run_body(c, node[1], path), name=path)
        if k == "parallel":
            _, branches, mc, ms = node
            fns = [
                (lambda c, b=b, j=j: self.run_body(c, b, f"{path}b{j}")) for j, b in enumerate(branches)
            ]
            cc = CompletionConfig(min_successful=ms) if ms else CompletionConfig(
                tolerated_failure_percentage=100
            )
            r = ctx.parallel(fns, name=path, config=ParallelConfig(max_concurrency=mc, completion_config=cc))
            return [str(x)[:20] for x in r.get_results()]
        if k == "map":
            _, ni, body, mc, ms = node
            cc = CompletionConfig(min_successful=ms) if ms else CompletionConfig(
                tolerated_failure_percentage=100
            )
            r = ctx.map(
                list(range(ni)),
                lambda c, it, idx, items: self.run_body(c, body, f"{path}i{idx}"),
                name=path,
                config=MapConfig(max_concurrency=mc, completion_config=cc),
            )
            return [str(x)[:20] for x in r.get_results()]
        raise AssertionError(k)


def run_seed(seed, allow_early=False, live=True, latency=None, verbose=False):
    rng = random.Random(seed)
    prog = gen_body(rng, 0, allow_early)
    act = Activity()
    interp = Interp(act)
    lat = latency if latency is not None else rng.choice([0.0, 0.0, 0.02, 0.08])
    be = Backend(live_timers=live, latency=lat, timer_lag=LAG)

    def handler(event, ctx):
        return str(interp.run_body(ctx, prog, "r"))[:2000]

    def on_pending(n, out, running):
        if not allow_early:
            assert not running, f"PENDING returned while user functions run: {running}"

    deliver = rng.choice(["after_pending", "timers_first"])
    spurious = []
    stop_live = threading.Event()
    if LIVE_DELIVERY:
        def deliverer():
            seen = {}
            while not stop_live.is_set():
                now = time.time()
                for o in be.open_callbacks() + be.open_invokes():
                    due = seen.setdefault(o.operation_id, now + rng.choice([0.0, 0.2, 0.7, 1.5]))
                    if now >= due:
                        if o.operation_type.value == "CALLBACK":
                            be.complete_callback(o.operation_id)
                        else:
                            be.complete_invoke(o.operation_id)
                time.sleep(0.05)

        threading.Thread(target=deliverer, daemon=True).start()
    crash_plan = None
    if CRASH:
        crng = random.Random(seed * 7 + 1)

        def crash_plan(n):
            if n < 6 and crng.random() < 0.6:
                return crng.randint(1, 6), crng.random() < 0.5
            return None, False

    try:
        out, outs = drive(
            handler, be, act, max_invocations=80, timeout=60, on_pending=None if CRASH else on_pending,
            deliver=deliver, spurious=spurious, crash_plan=crash_plan,
        )
        assert out["Status"] == "SUCCEEDED" or (CRASH and out["Status"] == "FAILED"), out
        stop_live.set()
        return f"{len(outs)} spurious={len(spurious)}"
    except BaseException:
        stop_live.set()
        print("PROGRAM", prog, "latency", lat, "deliver", deliver)
        for row in be.dump():
            print("   ", row)
        raise


if __name__ == "__main__":
    start, count = int(sys.argv[1]), int(sys.argv[2])
    allow_early = len(sys.argv) > 3 and "early" in sys.argv[3]
    EXTRA = len(sys.argv) > 3 and "extra" in sys.argv[3]
    LIVE_DELIVERY = len(sys.argv) > 3 and "live" in sys.argv[3]
    CRASH = len(sys.argv) > 3 and "crash" in sys.argv[3]
    LAG = 0.8 if len(sys.argv) > 3 and "lag" in sys.argv[3] else 0.0
    bad = 0
    for seed in range(start, start + count):
        t = time.time()
        try:
            n = run_seed(seed, allow_early=allow_early)
            print(f"seed {seed}: ok {n} invocations {time.time() - t:.1f}s", flush=True)
        except BaseException as e:  # noqa: BLE001
            bad += 1
            print(f"seed {seed}: FAIL {type(e).__name__}: {str(e)[:300]}", flush=True)
            if not isinstance(e, (AssertionError, InvocationHang)):
                traceback.print_exc()
    sys.exit(1 if bad else 0)
