"""Suspicion (not counted as a finding): verdict starvation / livelock of a map/parallel when two or more
branches are parked 'until now'.

A branch that replays a step / wait_for_condition whose record is PENDING with a NextAttemptTimestamp that
has already passed is parked with TimedSuspendExecution(now) ("suspending with immediate retry"). The resume
timer pops it at once (status PENDING), refreshes with an empty checkpoint and resubmits it. With ONE such
branch the executor still reaches its suspend verdict (the heap is empty while the branch runs). With TWO,
the timer thread always holds one of them in PENDING while the other one's done-callback evaluates
should_execution_suspend(): the verdict is never reached and the invocation keeps calling the backend
(~10 checkpoint calls per second) for as long as the backend reports the operations PENDING.

With a backend that flips PENDING -> READY punctually this lasts one or two rounds; with a backend whose
timers are late by d seconds it lasts d seconds; with a backend that processes timers only while no
invocation is in flight it never ends. Whether the last kind is 'a backend that fires its timers' is a
matter of interpretation, hence a suspicion.

Run: PYTHONPATH=src:. python suspicion_livelock.py   (exit 1 = invocation did not end within 20 s)
"""

import logging
import os
import sys
import time

from aws_durable_execution_sdk_python.config import Duration, StepConfig
from aws_durable_execution_sdk_python.retries import RetryDecision
from harness import Backend, InvocationHang, invoke_once

logging.disable(logging.CRITICAL)
COUNTS = {}


def flaky(name):
    def fn(sc):
        COUNTS[name] = COUNTS.get(name, 0) + 1
        if COUNTS[name] == 1:
            raise ValueError("first attempt fails")
        return name

    return fn


def make_handler(n_retrying):
    def handler(event, ctx):
        def retrying(i):
            return lambda c: c.step(
                flaky(f"r{i}"),
                name=f"r{i}",
                config=StepConfig(retry_strategy=lambda e, a: RetryDecision.retry(Duration.from_seconds(1))),
            )

        def parked(c):
            return c.create_callback(name="cb").result()

        return ctx.parallel([retrying(i) for i in range(n_retrying)] + [parked], name="p").get_results()

    return handler


def run(n_retrying):
    COUNTS.clear()
    be = Backend(live_timers=False)  # timers are processed only between invocations
    h = make_handler(n_retrying)
    out = invoke_once(h, be, timeout=20)
    assert out["Status"] == "PENDING"
    time.sleep(1.2)  # the retry timers are due now, but the callback arrives first and wakes the execution
    be.complete_callback(be.open_callbacks()[0].operation_id)
    t = time.time()
    try:
        out = invoke_once(h, be, timeout=20)
        print(f"{n_retrying} retrying branch(es): invocation 2 answered {out} after {time.time() - t:.1f}s, "
              f"{be.call_no} checkpoint calls")
        return True
    except InvocationHang:
        print(f"{n_retrying} retrying branch(es): invocation 2 still running after 20 s, "
              f"{be.call_no} checkpoint calls so far")
        return False


if __name__ == "__main__":
    ok1 = run(1)
    ok2 = run(2)
    sys.stdout.flush()
    os._exit(0 if (ok1 and ok2) else 1)  # the livelocked invocation never lets its threads go
