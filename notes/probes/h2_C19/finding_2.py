"""C19 finding 2 - "every release hands over to the next waiter without losing a wakeup".

Lock-level companion of finding 1 (same root cause: the queue is mutated before / around calls that can
raise, with no recovery).  No exception is injected into any critical section here.

Three threads: A holds the lock, H queues behind A and C queues behind H.  H makes its `with lock:` call
from inside a deep (but legal) recursion.  The scan tries every stack depth near the recursion limit.

 * at one depth H's critical section runs and finishes NORMALLY, then OrderedLock.release() does
   `self._waiters.popleft()` followed by `self._waiters[0].set()`; Event.set() needs one frame more than
   everything H did before, raises RecursionError after setting the flag but before notifying, so C's
   wake-up is lost: C blocks for ever, the lock is not broken, H gets a RecursionError out of a with-block
   whose body succeeded, and every later acquirer queues up behind C.
 * at the next depth the RecursionError is raised by event.wait() inside H's acquire(): H leaves without
   ever having owned the lock, its entry stays in the queue, A's release hands the lock to that orphan
   and C (and everybody after C) blocks for ever.

Expected at every depth: C either enters its critical section or gets an OrderedLockError.
"""

import os
import sys
import threading
import time

from aws_durable_execution_sdk_python.exceptions import OrderedLockError
from aws_durable_execution_sdk_python.threading import OrderedLock


def dive(n, f):
    if n == 0:
        return f()
    return dive(n - 1, f)


def queued(lock, n, alive=None):
    """wait until n entries are queued (observation of the private queue, used for sequencing only)"""
    end = time.time() + 5
    while len(lock._waiters) < n and time.time() < end and (alive is None or alive.is_alive()):  # noqa: SLF001
        time.sleep(0.001)


def scenario(depth):
    lock = OrderedLock()
    log = []
    lock.acquire()  # A = this thread

    def h():
        def body():
            with lock:
                log.append("H:in-cs")
            log.append("H:left-cs-normally")

        try:
            dive(depth, body)
        except RecursionError:
            log.append("H:RecursionError")
        except OrderedLockError:
            log.append("H:OrderedLockError")

    def c():
        try:
            with lock:
                log.append("C:in-cs")
        except OrderedLockError:
            log.append("C:OrderedLockError")

    th = threading.Thread(target=h, daemon=True)
    th.start()
    queued(lock, 2, th)
    tc = threading.Thread(target=c, daemon=True)
    tc.start()
    queued(lock, 3 if th.is_alive() else 2)
    lock.release()  # A hands over
    th.join(2)
    tc.join(2)
    return log, tc.is_alive(), lock.is_broken() if not tc.is_alive() else lock._is_broken  # noqa: SLF001


def main():
    lim = sys.getrecursionlimit()
    lost_on_release, orphan_in_acquire = [], []
    for depth in range(lim - 40, lim - 3):
        log, c_blocked, broken = scenario(depth)
        if c_blocked:
            print("depth %d: C BLOCKED FOR EVER  broken=%s  log=%s" % (depth, broken, log))
            if "H:in-cs" in log:
                lost_on_release.append(depth)
            else:
                orphan_in_acquire.append(depth)
    print("depths scanned: %d..%d" % (lim - 40, lim - 4))
    print("wake-up lost in release() after a normally completed critical section at depths:", lost_on_release)
    print("orphaned queue entry left by a failed acquire() at depths:", orphan_in_acquire)
    assert not lost_on_release, (
        "C19 VIOLATED (release hands over without losing a wakeup): H's critical section completed normally, "
        "release() removed H from the queue and then raised out of Event.set(); the next waiter C was never woken "
        "and blocks for ever although the lock is not broken (recursion depths %s)" % lost_on_release
    )
    assert not orphan_in_acquire, (
        "C19 VIOLATED (never wedged): an acquire() that raised left its entry in the queue; the lock was handed to "
        "that orphan and the next waiter blocks for ever (recursion depths %s)" % orphan_in_acquire
    )
    print("no violation observed")
    return 0


if __name__ == "__main__":
    import traceback

    try:
        code = main()
    except AssertionError:
        traceback.print_exc()
        code = 1
    sys.stdout.flush()
    sys.stderr.flush()
    os._exit(code)
