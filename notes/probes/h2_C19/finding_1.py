"""C19 finding 1 - "never wedged" / "future acquirers get an error instead of blocking".

OrderedLock.acquire() publishes its queue entry (self._waiters.append(event)) BEFORE the operations
that make the entry usable (event.set() for the first waiter, event.wait() for the others) and has no
roll-back.  When one of these calls raises, the caller leaves acquire() with that exception, __exit__
never runs (it was __enter__ that failed), the lock is NOT marked broken, and an orphaned entry stays
at the head of the queue: every later acquirer queues up behind it and blocks for ever.

Trigger used here (plain public API, no calibration of any kind): a durable function that recurses
with one ctx.step() per level, runs into the interpreter's recursion limit, catches the
RecursionError and goes on using the same context.  The step counter's ordered lock is the deepest
thing ctx.step() does on the way in (increment -> __enter__ -> acquire -> Event.set -> notify_all ->
notify -> _is_owned), so the RecursionError is raised inside acquire(), after the append.
Expected: the second ctx.step() returns (or at worst raises OrderedLockError).
Observed: it blocks for ever - the invocation hangs until the Lambda timeout.
"""

import sys
import threading
import time
from unittest.mock import Mock

from aws_durable_execution_sdk_python.context import DurableContext
from aws_durable_execution_sdk_python.execution import (
    DurableExecutionInvocationInput,
    DurableExecutionInvocationInputWithClient,
    durable_execution,
)
from aws_durable_execution_sdk_python.lambda_service import (
    CheckpointOutput,
    CheckpointUpdatedExecutionState,
)

seen: dict = {}


def descend(ctx: DurableContext, level: int) -> None:
    """one durable step per level of a (too) deeply nested structure"""
    ctx.step(lambda _sc: level, name=f"level-{level}")
    seen["levels"] = level
    descend(ctx, level + 1)


@durable_execution
def handler(event, ctx: DurableContext):
    seen["ctx"] = ctx
    try:
        descend(ctx, 0)
    except RecursionError:
        seen["caught"] = True
    # carry on with the same context: record that the structure was too deep
    seen["after"] = ctx.step(lambda _sc: "too deep", name="report")
    return seen["after"]


def main() -> int:
    # every level costs two synchronous checkpoints (~0.1 s with the default batcher), so the demo lowers the
    # recursion limit to keep the run short; with the default limit of 1000 the outcome is the same, only later.
    sys.setrecursionlimit(160)
    client = Mock()
    client.checkpoint = lambda durable_execution_arn, checkpoint_token, updates, client_token=None: CheckpointOutput(
        checkpoint_token="t", new_execution_state=CheckpointUpdatedExecutionState()
    )
    event = {
        "DurableExecutionArn": "arn",
        "CheckpointToken": "tok",
        "InitialExecutionState": {
            "Operations": [
                {"Id": "e1", "Type": "EXECUTION", "Status": "STARTED", "ExecutionDetails": {"InputPayload": "{}"}}
            ],
            "NextMarker": "",
        },
    }
    inp = DurableExecutionInvocationInputWithClient.from_durable_execution_invocation_input(
        DurableExecutionInvocationInput.from_dict(event), client
    )
    lambda_context = Mock()
    lambda_context.aws_request_id = "r"
    lambda_context.client_context = None
    lambda_context.identity = None
    lambda_context._epoch_deadline_time_in_ms = 0  # noqa: SLF001
    lambda_context.invoked_function_arn = "a"
    lambda_context.tenant_id = None

    out: dict = {}

    def invoke():
        try:
            out["result"] = handler(inp, lambda_context)
        except BaseException as e:  # noqa: BLE001
            out["result"] = repr(e)

    t = threading.Thread(target=invoke, daemon=True)
    t.start()
    deadline = time.time() + 90
    while t.is_alive() and not seen.get("caught") and time.time() < deadline:
        time.sleep(0.1)
    t.join(5)  # the step after the RecursionError needs ~0.2 s when the lock works

    print("recursion limit        :", sys.getrecursionlimit())
    print("levels completed       :", seen.get("levels"))
    print("RecursionError caught  :", seen.get("caught"))
    lock = seen["ctx"]._step_counter._lock  # noqa: SLF001  (observation only)
    print("lock broken            :", lock._is_broken, "  queue length:", len(lock._waiters), "  head event set:", lock._waiters[0].is_set() if lock._waiters else None)  # noqa: SLF001
    print("invocation result      :", out.get("result", "<none - still blocked>"))
    assert seen.get("caught"), "scenario did not reach the recursion limit"
    assert not t.is_alive(), (
        "C19 VIOLATED (never wedged): after a RecursionError raised inside OrderedLock.acquire() the step counter "
        "of the context is wedged - the next ctx.step() on the same context blocks for ever behind an orphaned "
        "queue entry (lock not broken, queue length %d) instead of acquiring or getting an OrderedLockError" % len(lock._waiters)  # noqa: SLF001
    )
    print("no violation observed")
    return 0


if __name__ == "__main__":
    import os
    import traceback

    try:
        code = main()
    except AssertionError:
        traceback.print_exc()
        code = 1
    sys.stdout.flush()
    sys.stderr.flush()
    os._exit(code)  # the wedged worker thread of the SDK's executor would otherwise keep the interpreter alive
