"""Systematic interleaving explorer for OrderedLock / OrderedCounter (property C19).

The REAL code of aws_durable_execution_sdk_python.threading is driven.  Only the two primitives it
imports (threading.Lock and threading.Event) are replaced, in the module namespace, by cooperative
models whose blocking operations are scheduling points of a controller that enumerates schedules
(depth-first, optionally preemption-bounded, or randomly).  The unlocked read of `_is_broken` in
acquire() is made a scheduling point as well through a property on a subclass.

Nothing under src/ or tests/ is modified.
"""

from __future__ import annotations

import collections
import random
import sys
import threading as T
import time

import aws_durable_execution_sdk_python.threading as M
from aws_durable_execution_sdk_python.exceptions import OrderedLockError

REAL_LOCK, REAL_EVENT = M.Lock, M.Event


class Injected(Exception):
    pass


class Task:
    def __init__(self, sched, idx, fn):
        self.sched, self.idx, self.fn = sched, idx, fn
        self.sem = T.Semaphore(0)
        self.done = False
        self.enabled = lambda: True
        self.desc = "start"
        self.thread = T.Thread(target=self._run, daemon=True)

    def _run(self):
        self.sched.local.task = self
        self.point(lambda: True, "start")
        try:
            self.fn(self)
        except BaseException as e:  # noqa: BLE001
            self.sched.errors.append((self.idx, "task function leaked %r" % (e,)))
        self.done = True
        self.sched.ctl.release()

    def point(self, enabled, desc):
        self.enabled, self.desc = enabled, desc
        self.sched.ctl.release()
        self.sem.acquire()


class Sched:
    def __init__(self, prefix, rnd=None, set_points=False):
        self.prefix, self.rnd, self.set_points = prefix, rnd, set_points
        self.local = T.local()
        self.ctl = T.Semaphore(0)
        self.tasks: list[Task] = []
        self.trace: list[tuple[int, int, bool]] = []  # (n_enabled, chosen, current_was_enabled)
        self.errors: list = []
        self.log: list = []
        self.deadlock = None

    def cur(self) -> Task:
        return self.local.task

    def run(self, fns):
        self.tasks = [Task(self, i, f) for i, f in enumerate(fns)]
        for t in self.tasks:
            t.thread.start()
        for _ in self.tasks:
            self.ctl.acquire()
        current = None
        depth = 0
        while True:
            live = [t for t in self.tasks if not t.done]
            if not live:
                return
            en = [t for t in live if t.enabled()]
            if not en:
                self.deadlock = [(t.idx, t.desc) for t in live]
                return
            cur_en = current in en
            if cur_en:  # index 0 == keep running the current thread (no preemption)
                en.remove(current)
                en.insert(0, current)
            if depth < len(self.prefix):
                c = self.prefix[depth]
            elif self.rnd is not None:
                c = self.rnd.randrange(len(en))
            else:
                c = 0
            self.trace.append((len(en), c, cur_en))
            depth += 1
            current = en[c]
            current.sem.release()
            self.ctl.acquire()


SCHED: Sched | None = None


class MLock:
    def __init__(self):
        self.owner = None

    def acquire(self, blocking=True, timeout=-1):
        t = SCHED.cur()
        t.point(lambda: self.owner is None, "mutex.acquire")
        assert self.owner is None
        self.owner = t
        return True

    def release(self):
        assert self.owner is SCHED.cur(), "mutex released by non-owner"
        self.owner = None

    def __enter__(self):
        self.acquire()
        return self

    def __exit__(self, *a):
        self.release()


class MEvent:
    def __init__(self):
        self.flag = False

    def set(self):
        if SCHED.set_points:
            SCHED.cur().point(lambda: True, "event.set")
        self.flag = True

    def is_set(self):
        return self.flag

    def wait(self, timeout=None):
        SCHED.cur().point(lambda: self.flag, "event.wait")
        return True


class LoggedDeque(collections.deque):
    """records the order in which acquirers pass the doorway (= arrival order)"""

    def append(self, x):
        SCHED.log.append(("arrive", SCHED.cur().idx, SCHED.cur().opno))
        super().append(x)


class ILock(M.OrderedLock):
    def __init__(self):
        super().__init__()
        self._waiters = LoggedDeque()

    @property
    def _is_broken(self):
        t = SCHED.cur()
        if self._lock.owner is not t:  # the unlocked read in acquire()
            t.point(lambda: True, "read _is_broken")
        return self.__dict__["_b"]

    @_is_broken.setter
    def _is_broken(self, v):
        self.__dict__["_b"] = v


# ----------------------------------------------------------------------------------------------
# programs.  An op is one of
#   "w"  with lock: critical section          "W"  with lock: critical section raising Injected
#   "e"  explicit acquire(); cs; release()    "r"  reset() (OrderedLockError tolerated)
#   "i"  counter.increment()
# ----------------------------------------------------------------------------------------------
def make_task(ops, lock, counter, state):
    def cs(t):
        SCHED.log.append(("enter", t.idx, t.opno))
        state["in"] += 1
        if state["in"] > 1:
            SCHED.errors.append("EXCLUSION violated: %d holders" % state["in"])
        t.point(lambda: True, "inside cs")
        state["in"] -= 1
        SCHED.log.append(("leave", t.idx, t.opno))

    def fn(t):
        for n, op in enumerate(ops):
            t.opno = n
            SCHED.log.append(("call", t.idx, n, op))
            try:
                if op == "w":
                    with lock:
                        cs(t)
                elif op == "W":
                    with lock:
                        cs(t)
                        SCHED.log.append(("break", t.idx, n))
                        raise Injected("boom %d.%d" % (t.idx, n))
                elif op == "e":
                    lock.acquire()
                    cs(t)
                    lock.release()
                elif op == "r":
                    lock.reset()
                    SCHED.log.append(("reset-ok", t.idx, n))
                elif op == "i":
                    v = counter.increment()
                    SCHED.log.append(("value", t.idx, n, v))
                SCHED.log.append(("ok", t.idx, n))
            except Injected as e:
                SCHED.log.append(("own-exc", t.idx, n, str(e)))
            except OrderedLockError as e:
                SCHED.log.append(("lock-error", t.idx, n, e.source_exception))
            except BaseException as e:  # noqa: BLE001
                SCHED.log.append(("other-exc", t.idx, n, repr(e)))

    return fn


def check(program, s: Sched):
    """oracle: returns a list of violations for one finished schedule"""
    v = list(s.errors)
    if s.deadlock:
        v.append("WEDGED: no runnable thread, blocked=%s" % (s.deadlock,))
        return v
    log = s.log
    arrive = [(e[1], e[2]) for e in log if e[0] == "arrive"]
    enter = [(e[1], e[2]) for e in log if e[0] == "enter"]
    has_counter = any("i" in ops for ops in program)
    if not has_counter:
        # FIFO: grants are a prefix-respecting subsequence of arrivals
        granted = [a for a in arrive if a in enter]
        if granted != enter:
            v.append("FIFO violated: arrivals %s, grants %s" % (arrive, enter))
    broken = False
    for e in log:
        k = e[0]
        if k == "break":
            broken = e
        elif k == "reset-ok":
            broken = False
        elif k == "enter" and broken:
            v.append("acquirer %s entered the critical section after %s" % (e, broken))
        elif k == "lock-error":
            op = program[e[1]][e[2]]
            if op == "r":
                continue
            if not broken and not any(x[0] == "break" for x in log[: log.index(e)]):
                v.append("ordered-lock error %s without a preceding break" % (e,))
        elif k == "own-exc":
            if program[e[1]][e[2]] != "W":
                v.append("foreign exception seen by %s" % (e,))
        elif k == "other-exc":
            v.append("unexpected exception %s" % (e,))
    for ti, ops in enumerate(program):
        for n, op in enumerate(ops):
            outcome = [e for e in log if e[0] in ("ok", "own-exc", "lock-error", "other-exc") and e[1] == ti and e[2] == n]
            if len(outcome) != 1:
                v.append("op %d.%d has outcomes %s" % (ti, n, outcome))
                continue
            if op == "W" and outcome[0][0] == "ok":
                v.append("holder %d.%d did not see its own exception" % (ti, n))
            if op == "W" and outcome[0][0] == "own-exc" and outcome[0][3] != "boom %d.%d" % (ti, n):
                v.append("holder %d.%d saw another exception %s" % (ti, n, outcome[0]))
    if not any(op in "W" for ops in program for op in ops):
        if any(e[0] != "ok" for e in log if e[0] in ("own-exc", "lock-error", "other-exc") and program[e[1]][e[2]] != "r"):
            v.append("failure without any injected exception")
    if has_counter:
        vals = {(e[1], e[2]): e[3] for e in log if e[0] == "value"}
        n = sum(ops.count("i") for ops in program)
        if sorted(vals.values()) != list(range(1, n + 1)):
            v.append("counter values %s are not 1..%d" % (sorted(vals.values()), n))
        for rank, a in enumerate(arrive, 1):
            if vals.get(a) != rank:
                v.append("counter: arrival #%d %s got %s" % (rank, a, vals.get(a)))
    return v


def one(program, prefix, rnd=None, set_points=False):
    global SCHED
    s = Sched(prefix, rnd, set_points)
    SCHED = s
    M.Lock, M.Event = MLock, MEvent
    try:
        lock = ILock()
        counter = M.OrderedCounter()
        counter._lock = ILock()  # noqa: SLF001  (harness instrumentation only)
        state = {"in": 0}
        s.run([make_task(ops, lock, counter, state) for ops in program])
    finally:
        M.Lock, M.Event = REAL_LOCK, REAL_EVENT
    return s


def explore(program, bound=None, budget=60.0, set_points=False, randoms=0, seed=0):
    """DFS over schedules (preemption bound `bound`, None = unbounded); returns (#schedules, violations, complete)"""
    t0 = time.time()
    prefix: list[int] = []
    n = 0
    found = {}
    complete = True
    while True:
        s = one(program, prefix, set_points=set_points)
        n += 1
        for x in check(program, s):
            found.setdefault(x.split(":")[0] if ":" in x else x, (x, [c for _, c, _ in s.trace], list(s.log)))
        tr = s.trace
        # next prefix: deepest position with an untried alternative (respecting the preemption bound)
        i = len(tr) - 1
        nxt = None
        while i >= 0:
            ne, c, cur_en = tr[i]
            if c + 1 < ne:
                if bound is not None:
                    pre = sum(1 for (_, cc, ce) in tr[:i] if ce and cc != 0) + (1 if cur_en else 0)
                    if pre > bound:
                        i -= 1
                        continue
                nxt = [cc for _, cc, _ in tr[:i]] + [c + 1]
                break
            i -= 1
        if nxt is None:
            break
        prefix = nxt
        if time.time() - t0 > budget:
            complete = False
            break
    rnd = random.Random(seed)
    for _ in range(randoms):
        s = one(program, [], rnd=rnd, set_points=set_points)
        n += 1
        for x in check(program, s):
            found.setdefault(x.split(":")[0] if ":" in x else x, (x, [c for _, c, _ in s.trace], list(s.log)))
    return n, found, complete


PROGRAMS = [
    # (name, program, preemption bound, set_points)
    ("2 threads x 2 with", ["ww", "ww"], None, False),
    ("3 threads x 1 with", ["w", "w", "w"], None, False),
    ("3 threads explicit/with mix", ["e", "w", "e"], None, False),
    ("3 threads, first raises", ["W", "w", "w"], None, False),
    ("3 threads, second op raises", ["wW", "w", "w"], 3, False),
    ("3 threads x 2, middle raises", ["ww", "Ww", "we"], 2, False),
    ("4 threads, one raises", ["w", "W", "w", "e"], 2, False),
    ("2 threads, raise, set() is a point", ["W", "ww"], None, True),
    ("3 threads, raise, set() is a point", ["W", "w", "w"], 3, True),
    ("2 raisers", ["W", "W", "w"], 3, False),
    ("raise + reset", ["W", "w", "r"], None, False),
    ("raise + reset + later acquirers", ["Ww", "rw", "w"], 3, False),
    ("counter 3 x 1", ["i", "i", "i"], None, False),
    ("counter 2 x 3", ["iii", "iii"], 3, False),
    ("counter 4 x 2", ["ii", "ii", "ii", "ii"], 2, False),
]

if __name__ == "__main__":
    budget = float(sys.argv[1]) if len(sys.argv) > 1 else 40.0
    bad = 0
    for name, prog, bound, sp in PROGRAMS:
        n, found, complete = explore(prog, bound=bound, budget=budget, set_points=sp, randoms=2000)
        print("%-40s %-28s bound=%-4s schedules=%-7d %s  violations=%d" % (name, prog, bound, n, "exhaustive" if complete else "time-capped", len(found)))
        for k, (msg, choices, log) in found.items():
            bad += 1
            print("   !!", msg)
            print("      choices", choices)
            for e in log:
                print("        ", e)
    sys.exit(1 if bad else 0)
