"""finding_2: PENDING is returned while a branch is NOT parked but executing a user step (stale suspend decision).

Run:  PYTHONPATH=/tmp/wt/h1_C07/src /venv/bin/python /tmp/wt/h1_C07/finding_2.py

Clause: "An invocation returns PENDING only after every unfinished part of the workflow is parked on a timer or
external event ... no in-flight work is silently abandoned."

Program (legal public API only):

    ctx.parallel([
        lambda c: (c.wait(1s), c.step(<user function, runs ~2 s>))[1],     # branch A
        lambda c: (c.step(<quick>), c.create_callback().result())[1],      # branch B: parks on a callback
    ])

Code: concurrency/executor.py. The decision to suspend is taken by the pool thread that runs
ConcurrentExecutor._on_task_complete for the branch that parks last (should_execution_suspend() reads the branch
statuses without any lock), and is only acted upon later by the handler thread in execute() (wakes from
_completion_event.wait(), raises self._suspend_exception, and only then shuts the TimerScheduler down). Nothing
re-validates the decision and nothing stops the TimerScheduler thread in between: if branch A's local resume time is
reached inside that window, the timer thread resets A to PENDING, refreshes the state, re-submits A and A's user step
function starts - and the invocation still returns PENDING, with A neither parked nor finished. The step is abandoned
mid-flight (Lambda freezes the sandbox after the response); with AT_MOST_ONCE_PER_RETRY semantics its START is already
recorded, so the next invocation reports it as interrupted.

The window is normally short (microseconds to a thread wake-up), so this script FORCES the interleaving, by wrapping
ConcurrentExecutor.should_execution_suspend (no SDK source is modified): when it has computed "suspend", the calling
pool thread is held - exactly as if the OS had preempted it before it publishes the decision - until the timer thread
has taken branch A (bounded at 5 s). Everything else is the unmodified SDK and the plain CPython scheduler.

NOTE: finding_1 (timer-thread self-deadlock) can also strike in this program; it does not here because branch A does
not finish before add_done_callback is reached (it blocks in a checkpoint / a 2 s step).
"""

from __future__ import annotations

import datetime
import os
import sys
import threading
import time
import traceback
from dataclasses import replace

from aws_durable_execution_sdk_python.concurrency import executor as executor_module
from aws_durable_execution_sdk_python.concurrency.models import BranchStatus
from aws_durable_execution_sdk_python.config import Duration
from aws_durable_execution_sdk_python.execution import (
    DurableExecutionInvocationInputWithClient,
    InitialExecutionState,
    durable_execution,
)
from aws_durable_execution_sdk_python.lambda_service import (
    CallbackDetails,
    CheckpointOutput,
    CheckpointUpdatedExecutionState,
    ContextDetails,
    ExecutionDetails,
    Operation,
    OperationAction,
    OperationStatus,
    OperationType,
    StateOutput,
    StepDetails,
    WaitDetails,
)

UTC = datetime.UTC


class Backend:
    """Minimal in-memory backend: records checkpoints, fires wait timers, plays the history back."""

    def __init__(self):
        self.lock = threading.RLock()
        self.ops: dict[str, Operation] = {}
        self.timers: list[tuple[datetime.datetime, str]] = []
        self.token = 0
        self.updates: list = []
        self.ops["exec"] = Operation(
            operation_id="exec",
            operation_type=OperationType.EXECUTION,
            status=OperationStatus.STARTED,
            execution_details=ExecutionDetails(input_payload="{}"),
        )

    def fire_due(self):
        with self.lock:
            now = datetime.datetime.now(tz=UTC)
            for when, op_id in list(self.timers):
                if when <= now:
                    self.timers.remove((when, op_id))
                    self.ops[op_id] = replace(self.ops[op_id], status=OperationStatus.SUCCEEDED)

    def checkpoint(self, durable_execution_arn, checkpoint_token, updates, client_token=None):
        with self.lock:
            self.fire_due()
            for u in updates:
                self.updates.append(u)
                base = dict(
                    operation_id=u.operation_id,
                    operation_type=u.operation_type,
                    parent_id=u.parent_id,
                    name=u.name,
                    sub_type=u.sub_type,
                )
                t, a = u.operation_type, u.action
                if t is OperationType.CONTEXT and a is OperationAction.START:
                    self.ops.setdefault(u.operation_id, Operation(status=OperationStatus.STARTED, **base))
                elif t is OperationType.CONTEXT and a is OperationAction.SUCCEED:
                    self.ops[u.operation_id] = Operation(
                        status=OperationStatus.SUCCEEDED, context_details=ContextDetails(result=u.payload), **base
                    )
                elif t is OperationType.CONTEXT and a is OperationAction.FAIL:
                    self.ops[u.operation_id] = Operation(
                        status=OperationStatus.FAILED, context_details=ContextDetails(error=u.error), **base
                    )
                elif t is OperationType.STEP and a is OperationAction.START:
                    self.ops[u.operation_id] = Operation(
                        status=OperationStatus.STARTED, step_details=StepDetails(attempt=0), **base
                    )
                elif t is OperationType.STEP and a is OperationAction.SUCCEED:
                    self.ops[u.operation_id] = Operation(
                        status=OperationStatus.SUCCEEDED, step_details=StepDetails(attempt=1, result=u.payload), **base
                    )
                elif t is OperationType.WAIT and a is OperationAction.START:
                    when = datetime.datetime.now(tz=UTC) + datetime.timedelta(seconds=u.wait_options.wait_seconds)
                    self.ops[u.operation_id] = Operation(
                        status=OperationStatus.STARTED, wait_details=WaitDetails(scheduled_end_timestamp=when), **base
                    )
                    self.timers.append((when, u.operation_id))
                elif t is OperationType.CALLBACK and a is OperationAction.START:
                    # nobody answers the callback during this test
                    self.ops[u.operation_id] = Operation(
                        status=OperationStatus.STARTED, callback_details=CallbackDetails(callback_id="cb-1"), **base
                    )
                else:
                    raise AssertionError(f"unexpected update {t} {a}")
            self.token += 1
            return CheckpointOutput(
                checkpoint_token=f"tok-{self.token}",
                new_execution_state=CheckpointUpdatedExecutionState(operations=list(self.ops.values())),
            )

    def get_execution_state(self, durable_execution_arn, checkpoint_token, next_marker, max_items=1000):
        return StateOutput(operations=[], next_marker=None)

    def invocation_input(self):
        with self.lock:
            self.fire_due()
            return DurableExecutionInvocationInputWithClient(
                durable_execution_arn="arn:test",
                checkpoint_token=f"tok-{self.token}",
                initial_execution_state=InitialExecutionState(operations=list(self.ops.values()), next_marker=""),
                service_client=self,
            )


# ---- instrumentation of the USER function of branch A
long_step_started = threading.Event()
long_step_finished = threading.Event()


def long_user_function(step_context):
    long_step_started.set()
    time.sleep(2.0)
    long_step_finished.set()
    return "a"


@durable_execution
def handler(event, ctx):
    def branch_a(c):
        c.wait(Duration.from_seconds(1), name="w")
        return c.step(long_user_function, name="long")

    def branch_b(c):
        c.step(lambda sc: "quick", name="quick")
        return c.create_callback(name="cb").result()

    return ctx.parallel([branch_a, branch_b], name="par").get_results()


# ---- forced interleaving: hold the thread that has just computed "suspend" until the timer thread took branch A
forced = {"held": 0.0}
_original = executor_module.ConcurrentExecutor.should_execution_suspend


def held_should_execution_suspend(self):
    result = _original(self)
    if result.should_suspend and len(self.executables_with_state) == 2:
        branch_a_state = self.executables_with_state[0]
        if branch_a_state.status is BranchStatus.SUSPENDED_WITH_TIMEOUT:
            t0 = time.time()
            # "preempted" here, after the decision was computed and before it is published
            while branch_a_state.status is BranchStatus.SUSPENDED_WITH_TIMEOUT and time.time() - t0 < 5:
                time.sleep(0.005)
            # give the re-submitted branch the time to reach its user function (a refresh checkpoint comes first)
            long_step_started.wait(3)
            forced["held"] = time.time() - t0
    return result


executor_module.ConcurrentExecutor.should_execution_suspend = held_should_execution_suspend


def main() -> int:
    backend = Backend()
    box = {}

    def run():
        try:
            box["out"] = handler(backend.invocation_input(), None)
        except BaseException as e:  # noqa: BLE001
            box["exc"] = e

    t = threading.Thread(target=run, daemon=True, name="invocation")
    t.start()
    t.join(30)
    assert not t.is_alive(), "invocation did not return within 30 s (that would be finding_1, not this one)"
    if "exc" in box:
        raise box["exc"]
    out = box["out"]
    returned_at = time.time()
    started = long_step_started.is_set()
    finished = long_step_finished.is_set()
    print(f"invocation returned {out}; decision was held for {forced['held']:.2f}s")
    print(f"branch A user step function: started={started} finished={finished} at the moment the invocation returned")
    step_updates = [(u.name, u.action.value) for u in backend.updates if u.operation_type is OperationType.STEP]
    print("step checkpoints accepted by the backend:", step_updates)

    if out == {"Status": "PENDING"} and started and not finished:
        # let the abandoned function finish to show that it really was mid-flight
        long_step_finished.wait(5)
        msg = (
            "C07 violated: the invocation returned PENDING while branch A was not parked - its user step function "
            "'long' had been started by the TimerScheduler and was still executing "
            f"(it ended {time.time() - returned_at:.2f}s after PENDING was returned; its result is never recorded). "
            "The suspend decision taken in _on_task_complete was stale when execute() acted on it."
        )
        raise AssertionError(msg)
    print("stale decision not observed")
    return 0


if __name__ == "__main__":
    try:
        rc = main()
    except AssertionError:
        traceback.print_exc(file=sys.stdout)
        rc = 1
    sys.stdout.flush()
    os._exit(rc)
