"""In-memory fake of the durable-execution backend, for driving the real SDK end to end.

Harness code only (not a finding). Run scripts that import this with PYTHONPATH=/tmp/wt/h1_C07/src.
"""

from __future__ import annotations

import datetime
import threading
import time
import uuid
from dataclasses import replace

from aws_durable_execution_sdk_python.execution import (
    DurableExecutionInvocationInputWithClient,
    InitialExecutionState,
)
from aws_durable_execution_sdk_python.lambda_service import (
    CallbackDetails,
    ChainedInvokeDetails,
    CheckpointOutput,
    CheckpointUpdatedExecutionState,
    ContextDetails,
    ExecutionDetails,
    Operation,
    OperationAction,
    OperationStatus,
    OperationType,
    StateOutput,
    StepDetails,
    WaitDetails,
)

UTC = datetime.UTC


def _now() -> datetime.datetime:
    return datetime.datetime.now(tz=UTC)


class FakeBackend:
    """Records checkpoints, fires timers (real clock), plays history back.

    invoke_delay: seconds after which a chained invoke completes (None = never by itself)
    invoke_result: JSON string result of chained invokes
    timer_lag: extra seconds by which the backend fires its timers late
    """

    def __init__(
        self,
        input_payload: str = "{}",
        invoke_delay: float | None = 0.5,
        invoke_result: str = '"invoked"',
        timer_lag: float = 0.0,
        page_size: int | None = None,
    ):
        self.lock = threading.RLock()
        self.ops: dict[str, Operation] = {}
        self.order: list[str] = []
        self.timers: list[tuple[datetime.datetime, str, str]] = []  # (when, op_id, kind)
        self.invoke_delay = invoke_delay
        self.invoke_result = invoke_result
        self.timer_lag = timer_lag
        self.page_size = page_size
        self.checkpoint_calls: list[list] = []
        self.token = 0
        self.async_events = 0  # timer firings / callback deliveries since the last history snapshot
        self.arn = "arn:fake:exec"
        self._put(
            Operation(
                operation_id="exec-0",
                operation_type=OperationType.EXECUTION,
                status=OperationStatus.STARTED,
                execution_details=ExecutionDetails(input_payload=input_payload),
            )
        )

    # -- storage
    def _put(self, op: Operation) -> None:
        if op.operation_id not in self.ops:
            self.order.append(op.operation_id)
        self.ops[op.operation_id] = op

    def all_ops(self) -> list[Operation]:
        with self.lock:
            self.fire_due()
            return [self.ops[i] for i in self.order]

    # -- timers / events
    def fire_due(self) -> bool:
        fired = False
        with self.lock:
            now = _now()
            rest = []
            for when, op_id, kind in self.timers:
                if when + datetime.timedelta(seconds=self.timer_lag) <= now:
                    self._fire(op_id, kind)
                    fired = True
                else:
                    rest.append((when, op_id, kind))
            self.timers = rest
        return fired

    def _fire(self, op_id: str, kind: str) -> None:
        op = self.ops[op_id]
        self.async_events += 1
        if kind == "wait" and op.status is OperationStatus.STARTED:
            self._put(replace(op, status=OperationStatus.SUCCEEDED, end_timestamp=_now()))
        elif kind == "retry" and op.status is OperationStatus.PENDING:
            self._put(replace(op, status=OperationStatus.READY))
        elif kind == "invoke" and op.status is OperationStatus.STARTED:
            self._put(
                replace(
                    op,
                    status=OperationStatus.SUCCEEDED,
                    chained_invoke_details=ChainedInvokeDetails(result=self.invoke_result),
                )
            )

    def next_timer(self) -> datetime.datetime | None:
        with self.lock:
            if not self.timers:
                return None
            return min(t[0] for t in self.timers) + datetime.timedelta(seconds=self.timer_lag)

    def open_callbacks(self) -> list[str]:
        with self.lock:
            return [
                op.callback_details.callback_id
                for op in self.ops.values()
                if op.operation_type is OperationType.CALLBACK
                and op.status is OperationStatus.STARTED
            ]

    def complete_callback(self, callback_id: str, result: str = '"cb"') -> None:
        with self.lock:
            for op in self.ops.values():
                if (
                    op.operation_type is OperationType.CALLBACK
                    and op.callback_details
                    and op.callback_details.callback_id == callback_id
                    and op.status is OperationStatus.STARTED
                ):
                    self.async_events += 1
                    self._put(
                        replace(
                            op,
                            status=OperationStatus.SUCCEEDED,
                            callback_details=CallbackDetails(callback_id=callback_id, result=result),
                        )
                    )

    # -- DurableServiceClient protocol
    def checkpoint(self, durable_execution_arn, checkpoint_token, updates, client_token=None):
        with self.lock:
            self.fire_due()
            self.checkpoint_calls.append(list(updates))
            for u in updates:
                self._apply(u)
            self.token += 1
            return CheckpointOutput(
                checkpoint_token=f"tok-{self.token}",
                new_execution_state=CheckpointUpdatedExecutionState(
                    operations=[self.ops[i] for i in self.order], next_marker=None
                ),
            )

    def get_execution_state(self, durable_execution_arn, checkpoint_token, next_marker, max_items=1000):
        with self.lock:
            start = int(next_marker)
            ops = [self.ops[i] for i in self.order]
            size = self.page_size or 1000
            page = ops[start : start + size]
            nm = str(start + size) if start + size < len(ops) else None
            return StateOutput(operations=page, next_marker=nm)

    def _apply(self, u) -> None:
        old = self.ops.get(u.operation_id)
        t, a = u.operation_type, u.action
        base = dict(
            operation_id=u.operation_id,
            operation_type=t,
            parent_id=u.parent_id,
            name=u.name,
            sub_type=u.sub_type,
        )
        if t is OperationType.EXECUTION:
            st = OperationStatus.SUCCEEDED if a is OperationAction.SUCCEED else OperationStatus.FAILED
            self._put(replace(self.ops["exec-0"], status=st))
            return
        if t is OperationType.CONTEXT:
            if a is OperationAction.START:
                if old is None:
                    self._put(Operation(status=OperationStatus.STARTED, start_timestamp=_now(), **base))
            elif a is OperationAction.SUCCEED:
                rc = bool(u.context_options and u.context_options.replay_children)
                self._put(
                    Operation(
                        status=OperationStatus.SUCCEEDED,
                        context_details=ContextDetails(replay_children=rc, result=u.payload),
                        **base,
                    )
                )
            elif a is OperationAction.FAIL:
                self._put(
                    Operation(
                        status=OperationStatus.FAILED,
                        context_details=ContextDetails(error=u.error),
                        **base,
                    )
                )
            return
        if t is OperationType.STEP:
            attempt = old.step_details.attempt if old and old.step_details else 0
            prev_result = old.step_details.result if old and old.step_details else None
            if a is OperationAction.START:
                self._put(
                    Operation(
                        status=OperationStatus.STARTED,
                        step_details=StepDetails(attempt=attempt, result=prev_result),
                        **base,
                    )
                )
            elif a is OperationAction.SUCCEED:
                self._put(
                    Operation(
                        status=OperationStatus.SUCCEEDED,
                        step_details=StepDetails(attempt=attempt + 1, result=u.payload),
                        **base,
                    )
                )
            elif a is OperationAction.FAIL:
                self._put(
                    Operation(
                        status=OperationStatus.FAILED,
                        step_details=StepDetails(attempt=attempt + 1, error=u.error),
                        **base,
                    )
                )
            elif a is OperationAction.RETRY:
                delay = u.step_options.next_attempt_delay_seconds if u.step_options else 1
                when = _now() + datetime.timedelta(seconds=delay)
                self._put(
                    Operation(
                        status=OperationStatus.PENDING,
                        step_details=StepDetails(
                            attempt=attempt + 1,
                            next_attempt_timestamp=when,
                            result=u.payload,
                            error=u.error,
                        ),
                        **base,
                    )
                )
                self.timers.append((when, u.operation_id, "retry"))
            return
        if t is OperationType.WAIT:
            if a is OperationAction.START:
                when = _now() + datetime.timedelta(seconds=u.wait_options.wait_seconds)
                self._put(
                    Operation(
                        status=OperationStatus.STARTED,
                        wait_details=WaitDetails(scheduled_end_timestamp=when),
                        **base,
                    )
                )
                self.timers.append((when, u.operation_id, "wait"))
            return
        if t is OperationType.CALLBACK:
            if a is OperationAction.START:
                self._put(
                    Operation(
                        status=OperationStatus.STARTED,
                        callback_details=CallbackDetails(callback_id=f"cb-{uuid.uuid4().hex[:8]}"),
                        **base,
                    )
                )
            return
        if t is OperationType.CHAINED_INVOKE:
            if a is OperationAction.START:
                self._put(
                    Operation(
                        status=OperationStatus.STARTED,
                        chained_invoke_details=ChainedInvokeDetails(),
                        **base,
                    )
                )
                if self.invoke_delay is not None:
                    when = _now() + datetime.timedelta(seconds=self.invoke_delay)
                    self.timers.append((when, u.operation_id, "invoke"))
            return
        msg = f"unhandled update {t} {a}"
        raise AssertionError(msg)

    # -- invocation input
    def invocation_input(self) -> DurableExecutionInvocationInputWithClient:
        ops = self.all_ops()
        self.async_events = 0
        size = self.page_size
        if size is None or len(ops) <= size:
            first, marker = ops, ""
        else:
            first, marker = ops[:size], str(size)
        return DurableExecutionInvocationInputWithClient(
            durable_execution_arn=self.arn,
            checkpoint_token=f"tok-{self.token}",
            initial_execution_state=InitialExecutionState(operations=first, next_marker=marker),
            service_client=self,
        )


class Hang(Exception):
    pass


def invoke_once(handler, backend: FakeBackend, timeout: float = 30.0):
    """Run one invocation in a daemon thread; raise Hang if it does not return in time."""
    box: dict = {}

    def run():
        try:
            box["out"] = handler(backend.invocation_input(), None)
        except BaseException as e:  # noqa: BLE001
            box["exc"] = e

    t = threading.Thread(target=run, daemon=True, name="invocation")
    t.start()
    t.join(timeout)
    if t.is_alive():
        msg = f"invocation did not return within {timeout}s"
        raise Hang(msg)
    if "exc" in box:
        raise box["exc"]
    return box["out"]


def drive(
    handler,
    backend: FakeBackend,
    max_invocations: int = 30,
    invocation_timeout: float = 30.0,
    on_pending=None,
    deliver_callbacks_after: float | None = 0.2,
):
    """Invoke until SUCCEEDED/FAILED. Returns (final_output, number_of_invocations).

    After PENDING: asserts that the backend has something registered that will wake the execution
    (a timer, an open callback) - otherwise the execution is stuck.
    """
    n = 0
    while n < max_invocations:
        n += 1
        out = invoke_once(handler, backend, invocation_timeout)
        if out["Status"] != "PENDING":
            return out, n
        if on_pending:
            on_pending(backend, n)
        backend.fire_due()
        # what will wake it?
        woke = False
        # anything already completed but not yet seen is a wake-up too: simplest is to check
        # timers first, then callbacks
        nt = backend.next_timer()
        cbs = backend.open_callbacks()
        if nt is None and not cbs:
            # maybe a timer fired between the suspension decision and now: that is a wake-up as well
            woke = backend_has_unseen_progress(backend)
            if not woke:
                msg = f"STUCK: PENDING after invocation {n} with no timer and no open callback registered"
                raise AssertionError(msg)
            continue
        if nt is not None:
            delay = (nt - _now()).total_seconds()
            if cbs and deliver_callbacks_after is not None and deliver_callbacks_after < delay:
                time.sleep(max(deliver_callbacks_after, 0))
                backend.complete_callback(cbs[0])
            else:
                time.sleep(max(delay, 0) + 0.01)
                backend.fire_due()
        else:
            if deliver_callbacks_after is None:
                msg = "only callbacks open and driver told not to deliver"
                raise AssertionError(msg)
            time.sleep(deliver_callbacks_after)
            backend.complete_callback(cbs[0])
    msg = f"no terminal status after {max_invocations} invocations"
    raise AssertionError(msg)


def backend_has_unseen_progress(backend: FakeBackend) -> bool:
    """A timer fired / a callback arrived while the invocation was running: the backend re-invokes."""
    return backend.async_events > 0
