"""finding_1: an invocation blocks forever (TimerScheduler self-deadlock), clause "no single invocation runs forever".

Run:  PYTHONPATH=/tmp/wt/h1_C07/src /venv/bin/python /tmp/wt/h1_C07/finding_1.py

Program (legal public API only):

    ctx.parallel([
        lambda c: c.invoke("fn", {...}),                       # branch A: chained invoke, default config (no timeout)
        lambda c: (c.wait(1s), c.step(<takes ~1.5 s>))[1],     # branch B: a wait, then a step that runs for a while
    ])

Invocation 1 registers the invoke and the wait with the backend and returns PENDING (correct).
The backend fires the 1 s timer and re-invokes with the recorded history (invoke STARTED, wait SUCCEEDED).
Invocation 2 never returns: no status, no exception, the handler thread is blocked for good.

Mechanism (concurrency/executor.py):
  * TimerScheduler._timer_loop calls self.resubmit_callback(exe_state) WHILE HOLDING self._lock.
  * resubmitter -> submit_task -> future.add_done_callback(on_done). Branch A only has to look at the STARTED
    invoke and suspend again, so its future is usually finished before add_done_callback is reached (the pool has
    to start a new worker thread for it, which hands the GIL to that worker). concurrent.futures then runs
    on_done synchronously IN THE TIMER THREAD.
  * on_done -> _on_task_complete -> (TimedSuspendExecution) scheduler.schedule_resume() -> `with self._lock`
    -> the timer thread waits for a non-reentrant lock that it holds itself.
  * When branch B finishes, execute() decides to suspend, leaves `with TimerScheduler(...)`, and
    TimerScheduler.shutdown() does `with self._lock` -> the handler thread blocks forever too.

The script needs no patching and no forced interleaving; it uses the plain CPython scheduler. It retries a few
times in case the race is not hit at the first attempt and fails as soon as one invocation hangs.
"""

from __future__ import annotations

import datetime
import faulthandler
import os
import sys
import threading
import time
from dataclasses import replace

from aws_durable_execution_sdk_python.config import Duration
from aws_durable_execution_sdk_python.execution import (
    DurableExecutionInvocationInputWithClient,
    InitialExecutionState,
    durable_execution,
)
from aws_durable_execution_sdk_python.lambda_service import (
    ChainedInvokeDetails,
    CheckpointOutput,
    CheckpointUpdatedExecutionState,
    ContextDetails,
    ExecutionDetails,
    Operation,
    OperationAction,
    OperationStatus,
    OperationType,
    StateOutput,
    StepDetails,
    WaitDetails,
)

UTC = datetime.UTC
INVOCATION_TIMEOUT = 20.0  # the step takes 1.5 s; a healthy invocation is done in ~2 s
ATTEMPTS = 5


class Backend:
    """Minimal in-memory backend: records checkpoints, fires wait timers, plays the history back."""

    def __init__(self):
        self.lock = threading.RLock()
        self.ops: dict[str, Operation] = {}
        self.timers: list[tuple[datetime.datetime, str]] = []
        self.token = 0
        self.ops["exec"] = Operation(
            operation_id="exec",
            operation_type=OperationType.EXECUTION,
            status=OperationStatus.STARTED,
            execution_details=ExecutionDetails(input_payload="{}"),
        )

    def fire_due(self):
        with self.lock:
            now = datetime.datetime.now(tz=UTC)
            for when, op_id in list(self.timers):
                if when <= now:
                    self.timers.remove((when, op_id))
                    self.ops[op_id] = replace(self.ops[op_id], status=OperationStatus.SUCCEEDED)

    def checkpoint(self, durable_execution_arn, checkpoint_token, updates, client_token=None):
        with self.lock:
            self.fire_due()
            for u in updates:
                base = dict(
                    operation_id=u.operation_id,
                    operation_type=u.operation_type,
                    parent_id=u.parent_id,
                    name=u.name,
                    sub_type=u.sub_type,
                )
                t, a = u.operation_type, u.action
                if t is OperationType.CONTEXT and a is OperationAction.START:
                    self.ops.setdefault(u.operation_id, Operation(status=OperationStatus.STARTED, **base))
                elif t is OperationType.CONTEXT and a is OperationAction.SUCCEED:
                    self.ops[u.operation_id] = Operation(
                        status=OperationStatus.SUCCEEDED, context_details=ContextDetails(result=u.payload), **base
                    )
                elif t is OperationType.CONTEXT and a is OperationAction.FAIL:
                    self.ops[u.operation_id] = Operation(
                        status=OperationStatus.FAILED, context_details=ContextDetails(error=u.error), **base
                    )
                elif t is OperationType.STEP and a is OperationAction.START:
                    self.ops[u.operation_id] = Operation(
                        status=OperationStatus.STARTED, step_details=StepDetails(attempt=0), **base
                    )
                elif t is OperationType.STEP and a is OperationAction.SUCCEED:
                    self.ops[u.operation_id] = Operation(
                        status=OperationStatus.SUCCEEDED, step_details=StepDetails(attempt=1, result=u.payload), **base
                    )
                elif t is OperationType.WAIT and a is OperationAction.START:
                    when = datetime.datetime.now(tz=UTC) + datetime.timedelta(seconds=u.wait_options.wait_seconds)
                    self.ops[u.operation_id] = Operation(
                        status=OperationStatus.STARTED, wait_details=WaitDetails(scheduled_end_timestamp=when), **base
                    )
                    self.timers.append((when, u.operation_id))
                elif t is OperationType.CHAINED_INVOKE and a is OperationAction.START:
                    # the invoked function is slow: it does not complete during this test
                    self.ops[u.operation_id] = Operation(
                        status=OperationStatus.STARTED, chained_invoke_details=ChainedInvokeDetails(), **base
                    )
                else:
                    raise AssertionError(f"unexpected update {t} {a}")
            self.token += 1
            return CheckpointOutput(
                checkpoint_token=f"tok-{self.token}",
                new_execution_state=CheckpointUpdatedExecutionState(operations=list(self.ops.values())),
            )

    def get_execution_state(self, durable_execution_arn, checkpoint_token, next_marker, max_items=1000):
        return StateOutput(operations=[], next_marker=None)

    def invocation_input(self):
        with self.lock:
            self.fire_due()
            return DurableExecutionInvocationInputWithClient(
                durable_execution_arn="arn:test",
                checkpoint_token=f"tok-{self.token}",
                initial_execution_state=InitialExecutionState(operations=list(self.ops.values()), next_marker=""),
                service_client=self,
            )


@durable_execution
def handler(event, ctx):
    def branch_a(c):
        return c.invoke("other-function", {"x": 1}, name="inv")

    def branch_b(c):
        c.wait(Duration.from_seconds(1), name="w")
        return c.step(lambda sc: (time.sleep(1.5), "b")[1], name="long")

    return ctx.parallel([branch_a, branch_b], name="par").get_results()


def invoke(backend: Backend):
    box = {}

    def run():
        try:
            box["out"] = handler(backend.invocation_input(), None)
        except BaseException as e:  # noqa: BLE001
            box["exc"] = e

    t = threading.Thread(target=run, daemon=True, name="invocation")
    t.start()
    t.join(INVOCATION_TIMEOUT)
    if t.is_alive():
        return "HANG"
    if "exc" in box:
        raise box["exc"]
    return box["out"]


def main() -> int:
    for attempt in range(ATTEMPTS):
        backend = Backend()
        out1 = invoke(backend)
        assert out1 == {"Status": "PENDING"}, f"invocation 1: expected PENDING, got {out1}"
        time.sleep(1.1)  # the backend fires the 1 s wait timer ...
        backend.fire_due()
        t0 = time.time()
        out2 = invoke(backend)  # ... and re-invokes with the recorded history
        if out2 == "HANG":
            print(f"attempt {attempt}: invocation 2 did not return within {INVOCATION_TIMEOUT}s. Thread dump:")
            faulthandler.dump_traceback(file=sys.stdout, all_threads=True)
            sys.stdout.flush()
            msg = (
                "C07 violated - 'no single invocation runs forever': the re-invocation of "
                "parallel([invoke, wait+step]) is blocked for good (timer thread self-deadlocked in "
                "TimerScheduler.schedule_resume called from its own resubmit callback; handler thread blocked in "
                "TimerScheduler.shutdown)."
            )
            raise AssertionError(msg)
        print(f"attempt {attempt}: invocation 2 returned {out2} after {time.time() - t0:.2f}s (race not hit)")
    print("no hang observed")
    return 0


if __name__ == "__main__":
    try:
        rc = main()
    except AssertionError:
        import traceback

        traceback.print_exc(file=sys.stdout)
        rc = 1
    sys.stdout.flush()
    # leaked non-daemon pool threads of the hung invocation would keep the interpreter alive
    os._exit(rc)
