"""C07 finding 1 - PENDING is returned for a map/parallel although the event a parked branch waits for has
already been delivered to (and recorded by) the very invocation that suspends; nothing is left registered with
the backend, so the execution is never woken again.

Run:  PYTHONPATH=/tmp/wt/h2_C07/src /venv/bin/python /tmp/wt/h2_C07/finding_1.py

Workflow (legal public API only):

    parallel(
        branch 0:  wait for an external event   (case A: ctx.wait_for_callback, case B: ctx.invoke without timeout,
                                                 case C: ctx.invoke with a 30 s timeout)
        branch 1:  ctx.step(<user function that takes 1.5 s>)   (keeps the invocation alive)
    )

The external event completes 0.5 s after it was registered, i.e. while branch 1 is still busy. The backend hands
the completion to the running invocation in the next checkpoint response - here the response to the SUCCEED record of
branch 1's step - which is the only channel there is to a running invocation (the SDK's own resume timer calls
create_checkpoint() with no update precisely to pick such changes up). The SDK merges it into
ExecutionState.operations, branch 1 finishes, and ConcurrentExecutor.should_execution_suspend() then looks at the
*branch statuses only*: branch 0 is still SUSPENDED (case C: SUSPENDED_WITH_TIMEOUT until t+30 s) -> suspend
verdict -> PENDING.

At that moment the SDK itself knows the awaited operation is SUCCEEDED, every timer has fired, and the backend has
nothing registered any more that could wake the execution: with a backend that re-invokes when something happens
that the last invocation has not been shown yet, the execution is stuck in PENDING for ever.
"""

from __future__ import annotations

import dataclasses
import datetime
import logging
import sys
import threading
import time

from aws_durable_execution_sdk_python.config import (
    CompletionConfig,
    Duration,
    InvokeConfig,
    ParallelConfig,
)
from aws_durable_execution_sdk_python.execution import (
    DurableExecutionInvocationInputWithClient,
    InitialExecutionState,
    durable_execution,
)
from aws_durable_execution_sdk_python.lambda_service import (
    CallbackDetails,
    ChainedInvokeDetails,
    CheckpointOutput,
    CheckpointUpdatedExecutionState,
    ContextDetails,
    ExecutionDetails,
    Operation,
    OperationAction,
    OperationStatus,
    OperationType,
    StateOutput,
    StepDetails,
    WaitDetails,
)

logging.getLogger().setLevel(logging.CRITICAL)
UTC = datetime.UTC
TERMINAL = {OperationStatus.SUCCEEDED, OperationStatus.FAILED}


class Backend:
    """Minimal in-memory durable backend: records updates, fires wait timers, completes callbacks / invokes
    `external_delay` seconds after they were registered, and reports every change exactly once to the running
    invocation (in the response of its next checkpoint call)."""

    def __init__(self, external_delay: float):
        self.lock = threading.RLock()
        self.ops: dict[str, Operation] = {}
        self.order: list[str] = []
        self.unseen: set[str] = set()  # changed, not yet shown to an invocation
        self.external: list[tuple[float, str]] = []  # (due, operation id)
        self.external_delay = external_delay
        self.responses: list[tuple[float, list[tuple[str, str, str | None]]]] = []
        self.t0 = time.time()
        self._put(
            Operation(
                "exec",
                OperationType.EXECUTION,
                OperationStatus.STARTED,
                execution_details=ExecutionDetails(input_payload="{}"),
            )
        )

    def _put(self, op: Operation) -> None:
        if op.operation_id not in self.ops:
            self.order.append(op.operation_id)
        self.ops[op.operation_id] = op
        self.unseen.add(op.operation_id)

    def fire_due(self) -> None:
        with self.lock:
            now = datetime.datetime.now(tz=UTC)
            for op in list(self.ops.values()):
                if (
                    op.operation_type is OperationType.WAIT
                    and op.status is OperationStatus.STARTED
                    and op.wait_details.scheduled_end_timestamp <= now
                ):
                    self._put(dataclasses.replace(op, status=OperationStatus.SUCCEEDED))
            for due, op_id in list(self.external):
                if due <= time.time():
                    self.external.remove((due, op_id))
                    op = self.ops[op_id]
                    if op.operation_type is OperationType.CALLBACK:
                        done = dataclasses.replace(
                            op,
                            status=OperationStatus.SUCCEEDED,
                            callback_details=CallbackDetails(
                                op.callback_details.callback_id, result="approved"
                            ),
                        )
                    else:
                        done = dataclasses.replace(
                            op,
                            status=OperationStatus.SUCCEEDED,
                            chained_invoke_details=ChainedInvokeDetails(result='"approved"'),
                        )
                    self._put(done)

    def registered_wake_sources(self) -> list[str]:
        """Timers / external events the backend still has to fire, or changes no invocation has been shown."""
        with self.lock:
            self.fire_due()
            pending = [
                f"{o.operation_type.value}:{o.name}"
                for o in self.ops.values()
                if o.operation_type in {OperationType.WAIT, OperationType.CALLBACK, OperationType.CHAINED_INVOKE}
                and o.status is OperationStatus.STARTED
            ]
            pending += [f"unseen:{self.ops[i].name}" for i in self.unseen]
            return pending

    # ---- DurableServiceClient
    def checkpoint(self, durable_execution_arn, checkpoint_token, updates, client_token):
        with self.lock:
            self.fire_due()
            now = datetime.datetime.now(tz=UTC)
            for u in updates:
                old = self.ops.get(u.operation_id)
                base = dict(
                    operation_id=u.operation_id,
                    operation_type=u.operation_type,
                    parent_id=u.parent_id,
                    name=u.name,
                    sub_type=u.sub_type,
                )
                if u.operation_type is OperationType.WAIT:
                    op = Operation(
                        status=OperationStatus.STARTED,
                        wait_details=WaitDetails(
                            now + datetime.timedelta(seconds=u.wait_options.wait_seconds)
                        ),
                        **base,
                    )
                elif u.operation_type is OperationType.CALLBACK:
                    op = Operation(
                        status=OperationStatus.STARTED,
                        callback_details=CallbackDetails(callback_id=f"cb-{u.operation_id[:8]}"),
                        **base,
                    )
                    self.external.append((time.time() + self.external_delay, u.operation_id))
                elif u.operation_type is OperationType.CHAINED_INVOKE:
                    op = Operation(
                        status=OperationStatus.STARTED,
                        chained_invoke_details=ChainedInvokeDetails(),
                        **base,
                    )
                    self.external.append((time.time() + self.external_delay, u.operation_id))
                elif u.operation_type is OperationType.STEP:
                    if u.action is OperationAction.START:
                        op = Operation(
                            status=OperationStatus.STARTED, step_details=StepDetails(), **base
                        )
                    else:
                        assert u.action is OperationAction.SUCCEED, u
                        op = Operation(
                            status=OperationStatus.SUCCEEDED,
                            step_details=StepDetails(result=u.payload),
                            **base,
                        )
                elif u.operation_type is OperationType.CONTEXT:
                    if u.action is OperationAction.START:
                        op = Operation(status=OperationStatus.STARTED, **base)
                    else:
                        assert u.action is OperationAction.SUCCEED, u
                        op = Operation(
                            status=OperationStatus.SUCCEEDED,
                            context_details=ContextDetails(result=u.payload),
                            **base,
                        )
                else:
                    raise AssertionError(u)
                assert not (old and old.status in TERMINAL), f"update for terminal operation: {u}"
                self._put(op)
            changed = [self.ops[i] for i in self.order if i in self.unseen]
            self.unseen.clear()
            self.responses.append(
                (
                    time.time() - self.t0,
                    [(o.operation_type.value, o.status.value, o.name) for o in changed],
                )
            )
            return CheckpointOutput(
                checkpoint_token=f"t{len(self.responses)}",
                new_execution_state=CheckpointUpdatedExecutionState(operations=changed),
            )

    def get_execution_state(self, durable_execution_arn, checkpoint_token, next_marker, max_items=1000):
        return StateOutput(operations=[], next_marker=None)

    def make_input(self):
        with self.lock:
            self.fire_due()
            self.unseen.clear()
            return DurableExecutionInvocationInputWithClient(
                durable_execution_arn="arn:test",
                checkpoint_token="t0",
                initial_execution_state=InitialExecutionState(
                    operations=[self.ops[i] for i in self.order], next_marker=""
                ),
                service_client=self,
            )


def run_case(label: str, external_wait) -> str | None:
    """Returns a description of the violation, or None."""
    backend = Backend(external_delay=0.5)
    seen_state = {}

    @durable_execution
    def handler(event, ctx):
        seen_state["state"] = ctx.state

        def branch_external(c):
            return external_wait(c)

        def slow(_sc):
            time.sleep(1.5)
            return "worked"

        def branch_busy(c):
            return c.step(slow, name="work")

        result = ctx.parallel(
            [branch_external, branch_busy],
            name="both",
            config=ParallelConfig(completion_config=CompletionConfig.all_completed()),
        )
        return result.get_results()

    box = {}
    th = threading.Thread(
        target=lambda: box.update(out=handler(backend.make_input(), None)), daemon=True
    )
    th.start()
    th.join(30)
    assert not th.is_alive(), "invocation hung"
    out = box["out"]
    print(f"--- case {label}: first invocation returned {out['Status']}")
    for t, changed in backend.responses:
        print(f"    t={t:5.2f}s checkpoint response shows: {changed}")
    if out["Status"] != "PENDING":
        return None

    # What the suspended invocation itself knew about the operation branch 0 is parked on:
    state = seen_state["state"]
    awaited = [
        o
        for o in state.operations.values()
        if o.operation_type in {OperationType.CALLBACK, OperationType.CHAINED_INVOKE}
    ]
    assert len(awaited) == 1
    awaited_status = awaited[0].status
    left = backend.registered_wake_sources()
    print(
        f"    SDK's own record of the awaited {awaited[0].operation_type.value} at the time of PENDING: "
        f"{awaited_status.value}; backend still has registered: {left}"
    )
    if awaited_status is OperationStatus.SUCCEEDED and not left:
        return (
            f"case {label}: invocation returned PENDING although it had already been handed the completion of the "
            f"{awaited[0].operation_type.value} its only parked branch waits for (status in ExecutionState.operations: "
            "SUCCEEDED), all timers have fired and nothing is registered with the backend any more -> "
            "the execution is never woken again (stuck in PENDING)"
        )
    return None


def main() -> int:
    cases = {
        "A wait_for_callback": lambda c: c.wait_for_callback(
            lambda callback_id, _ctx: None, name="approval"
        ),
        "B invoke (no timeout)": lambda c: c.invoke("approver-fn", {"q": 1}, name="approval"),
        "C invoke (timeout 30 s)": lambda c: c.invoke(
            "approver-fn",
            {"q": 1},
            name="approval",
            config=InvokeConfig(timeout=Duration.from_seconds(30)),
        ),
    }
    violations = [v for label, fn in cases.items() if (v := run_case(label, fn))]
    for v in violations:
        print("VIOLATION:", v)
    assert not violations, "C07 violated (suspension is not live): " + " | ".join(violations)
    print("no violation")
    return 0


if __name__ == "__main__":
    try:
        rc = main()
    except AssertionError as e:
        print("AssertionError:", e, file=sys.stderr)
        rc = 1
    sys.stdout.flush()
    sys.stderr.flush()
    import os

    os._exit(rc)
