"""In-memory fake backend + driver for exercising the durable execution SDK (scratch tool for the C07 hunt).

Run scripts that import this with PYTHONPATH=/tmp/wt/h2_C07/src:/tmp/wt/h2_C07
"""

from __future__ import annotations

import dataclasses
import datetime
import logging
import threading
import time
from typing import Any

from aws_durable_execution_sdk_python.execution import (
    DurableExecutionInvocationInputWithClient,
    InitialExecutionState,
    durable_execution,
)
from aws_durable_execution_sdk_python.lambda_service import (
    CallbackDetails,
    ChainedInvokeDetails,
    CheckpointOutput,
    CheckpointUpdatedExecutionState,
    ContextDetails,
    ErrorObject,
    ExecutionDetails,
    Operation,
    OperationAction,
    OperationStatus,
    OperationType,
    StateOutput,
    StepDetails,
    WaitDetails,
)

UTC = datetime.UTC
TERMINAL = {
    OperationStatus.SUCCEEDED,
    OperationStatus.FAILED,
    OperationStatus.CANCELLED,
    OperationStatus.TIMED_OUT,
    OperationStatus.STOPPED,
}


def now() -> datetime.datetime:
    return datetime.datetime.now(tz=UTC)


class Backend:
    """A faithful-ish durable backend: records updates, fires timers, delivers callbacks / invoke results."""

    def __init__(
        self,
        callback_delay: float | dict | None = 0.5,
        invoke_delay: float | None = 0.5,
        page_size: int | None = None,
        ready_lag: float = 0.0,
        return_all: bool = False,
    ):
        self.lock = threading.RLock()
        self.ops: dict[str, Operation] = {}
        self.order: list[str] = []
        self.dirty: set[str] = set()  # changed, not yet shown to the running invocation
        self.callback_delay = callback_delay
        self.invoke_delay = invoke_delay
        self.page_size = page_size
        self.ready_lag = ready_lag
        self.return_all = return_all
        self.deliveries: list[tuple[float, str, str]] = []  # (when, op_id, kind)
        self.token = 0
        self.updates_log: list[tuple[float, Any]] = []
        self.calls = 0
        self.pages: dict[str, list[Operation]] = {}
        self.invoke_results: dict[str, str] = {}
        self.callback_results: dict[str, str] = {}
        self._put(
            Operation(
                operation_id="exec-0",
                operation_type=OperationType.EXECUTION,
                status=OperationStatus.STARTED,
                execution_details=ExecutionDetails(input_payload="{}"),
            )
        )
        self.dirty.clear()

    # --- storage
    def _put(self, op: Operation) -> None:
        if op.operation_id not in self.ops:
            self.order.append(op.operation_id)
        self.ops[op.operation_id] = op
        self.dirty.add(op.operation_id)

    # --- time driven events
    def fire_due(self) -> bool:
        """Fire timers / deliveries that are due. Returns True if anything fired."""
        fired = False
        with self.lock:
            t = now()
            for op in list(self.ops.values()):
                if (
                    op.operation_type is OperationType.WAIT
                    and op.status is OperationStatus.STARTED
                    and op.wait_details
                    and op.wait_details.scheduled_end_timestamp <= t
                ):
                    self._put(
                        dataclasses.replace(
                            op, status=OperationStatus.SUCCEEDED, end_timestamp=t
                        )
                    )
                    fired = True
                if (
                    op.operation_type is OperationType.STEP
                    and op.status is OperationStatus.PENDING
                    and op.step_details
                    and op.step_details.next_attempt_timestamp
                    + datetime.timedelta(seconds=self.ready_lag)
                    <= t
                ):
                    self._put(dataclasses.replace(op, status=OperationStatus.READY))
                    fired = True
            tt = time.time()
            for d in list(self.deliveries):
                when, op_id, kind = d
                if when <= tt:
                    self.deliveries.remove(d)
                    op = self.ops[op_id]
                    if op.status is not OperationStatus.STARTED:
                        continue
                    if kind == "callback":
                        res = self.callback_results.get(op_id, '"cb-result"')
                        self._put(
                            dataclasses.replace(
                                op,
                                status=OperationStatus.SUCCEEDED,
                                callback_details=CallbackDetails(
                                    callback_id=op.callback_details.callback_id,
                                    result=res,
                                ),
                            )
                        )
                    elif kind == "callback_fail":
                        self._put(
                            dataclasses.replace(
                                op,
                                status=OperationStatus.FAILED,
                                callback_details=CallbackDetails(
                                    callback_id=op.callback_details.callback_id,
                                    error=ErrorObject("cb failed", "CbErr", None, None),
                                ),
                            )
                        )
                    else:
                        self._put(
                            dataclasses.replace(
                                op,
                                status=OperationStatus.SUCCEEDED,
                                chained_invoke_details=ChainedInvokeDetails(
                                    result=self.invoke_results.get(op_id, '"inv-result"')
                                ),
                            )
                        )
                    fired = True
        return fired

    def next_event_time(self) -> float | None:
        """Earliest wall clock time at which a registered timer / delivery fires (None = nothing registered)."""
        with self.lock:
            cands: list[float] = []
            for op in self.ops.values():
                if (
                    op.operation_type is OperationType.WAIT
                    and op.status is OperationStatus.STARTED
                ):
                    cands.append(op.wait_details.scheduled_end_timestamp.timestamp())
                if (
                    op.operation_type is OperationType.STEP
                    and op.status is OperationStatus.PENDING
                ):
                    cands.append(
                        op.step_details.next_attempt_timestamp.timestamp()
                        + self.ready_lag
                    )
            cands.extend(d[0] for d in self.deliveries)
            return min(cands) if cands else None

    # --- service client protocol
    def checkpoint(self, durable_execution_arn, checkpoint_token, updates, client_token):
        with self.lock:
            self.calls += 1
            self.fire_due()
            t = now()
            for u in updates:
                self.updates_log.append((time.time(), u))
                self._apply(u, t)
            if self.return_all:
                changed = [self.ops[i] for i in self.order]
            else:
                changed = [self.ops[i] for i in self.order if i in self.dirty]
            self.dirty.clear()
            self.token += 1
            return CheckpointOutput(
                checkpoint_token=f"tok-{self.token}",
                new_execution_state=CheckpointUpdatedExecutionState(
                    operations=changed, next_marker=None
                ),
            )

    def get_execution_state(
        self, durable_execution_arn, checkpoint_token, next_marker, max_items=1000
    ):
        with self.lock:
            ops = self.pages.pop(next_marker)
            if self.page_size and len(ops) > self.page_size:
                head, rest = ops[: self.page_size], ops[self.page_size :]
                marker = f"m-{len(self.pages)}-{time.time()}"
                self.pages[marker] = rest
                return StateOutput(operations=head, next_marker=marker)
            return StateOutput(operations=ops, next_marker=None)

    def _apply(self, u, t) -> None:
        old = self.ops.get(u.operation_id)
        typ, act = u.operation_type, u.action
        if old and old.status in TERMINAL and typ is not OperationType.EXECUTION:
            msg = f"update {act} for terminal operation {u.operation_id} ({old.status})"
            raise RuntimeError(msg)
        base = dict(
            operation_id=u.operation_id,
            operation_type=typ,
            parent_id=u.parent_id,
            name=u.name,
            sub_type=u.sub_type,
            start_timestamp=old.start_timestamp if old else t,
        )
        if typ is OperationType.STEP:
            det = old.step_details if old and old.step_details else StepDetails()
            if act is OperationAction.START:
                op = Operation(status=OperationStatus.STARTED, step_details=det, **base)
            elif act is OperationAction.RETRY:
                delay = u.step_options.next_attempt_delay_seconds
                op = Operation(
                    status=OperationStatus.PENDING,
                    step_details=StepDetails(
                        attempt=det.attempt + 1,
                        next_attempt_timestamp=t + datetime.timedelta(seconds=delay),
                        result=u.payload,
                        error=u.error,
                    ),
                    **base,
                )
            elif act is OperationAction.SUCCEED:
                op = Operation(
                    status=OperationStatus.SUCCEEDED,
                    end_timestamp=t,
                    step_details=StepDetails(attempt=det.attempt, result=u.payload),
                    **base,
                )
            else:
                op = Operation(
                    status=OperationStatus.FAILED,
                    end_timestamp=t,
                    step_details=StepDetails(attempt=det.attempt, error=u.error),
                    **base,
                )
        elif typ is OperationType.WAIT:
            op = Operation(
                status=OperationStatus.STARTED,
                wait_details=WaitDetails(
                    scheduled_end_timestamp=t
                    + datetime.timedelta(seconds=u.wait_options.wait_seconds)
                ),
                **base,
            )
        elif typ is OperationType.CALLBACK:
            op = Operation(
                status=OperationStatus.STARTED,
                callback_details=CallbackDetails(callback_id=f"cb-{u.operation_id}"),
                **base,
            )
            delay = self.callback_delay
            if isinstance(delay, dict):
                delay = delay.get(u.name, delay.get(None))
            if delay is not None:
                self.deliveries.append((time.time() + delay, u.operation_id, "callback"))
        elif typ is OperationType.CHAINED_INVOKE:
            op = Operation(
                status=OperationStatus.STARTED,
                chained_invoke_details=ChainedInvokeDetails(),
                **base,
            )
            if self.invoke_delay is not None:
                self.deliveries.append(
                    (time.time() + self.invoke_delay, u.operation_id, "invoke")
                )
        elif typ is OperationType.CONTEXT:
            if act is OperationAction.START:
                op = Operation(status=OperationStatus.STARTED, **base)
            elif act is OperationAction.SUCCEED:
                op = Operation(
                    status=OperationStatus.SUCCEEDED,
                    end_timestamp=t,
                    context_details=ContextDetails(
                        replay_children=bool(
                            u.context_options and u.context_options.replay_children
                        ),
                        result=u.payload,
                    ),
                    **base,
                )
            else:
                op = Operation(
                    status=OperationStatus.FAILED,
                    end_timestamp=t,
                    context_details=ContextDetails(error=u.error),
                    **base,
                )
        else:  # EXECUTION
            op = Operation(
                status=OperationStatus.SUCCEEDED
                if act is OperationAction.SUCCEED
                else OperationStatus.FAILED,
                **base,
            )
        self._put(op)

    # --- invocation input
    def make_input(self) -> DurableExecutionInvocationInputWithClient:
        with self.lock:
            self.fire_due()
            self.dirty.clear()
            ops = [self.ops[i] for i in self.order]
            marker = ""
            if self.page_size and len(ops) > self.page_size:
                head, rest = ops[: self.page_size], ops[self.page_size :]
                marker = f"m0-{time.time()}"
                self.pages[marker] = rest
                ops = head
            return DurableExecutionInvocationInputWithClient(
                durable_execution_arn="arn:exec",
                checkpoint_token=f"tok-{self.token}",
                initial_execution_state=InitialExecutionState(
                    operations=ops, next_marker=marker
                ),
                service_client=self,
            )

    def unfinished(self) -> list[Operation]:
        with self.lock:
            return [
                o
                for o in self.ops.values()
                if o.status not in TERMINAL and o.operation_type is not OperationType.EXECUTION
            ]


class Tracker:
    """Counts user functions that are executing right now."""

    def __init__(self):
        self.lock = threading.Lock()
        self.active: dict[int, str] = {}
        self.n = 0
        self.log: list[tuple[float, str, str]] = []

    def enter(self, label: str) -> int:
        with self.lock:
            self.n += 1
            self.active[self.n] = label
            self.log.append((time.time(), "enter", label))
            return self.n

    def leave(self, k: int) -> None:
        with self.lock:
            label = self.active.pop(k)
            self.log.append((time.time(), "leave", label))

    def snapshot(self) -> list[str]:
        with self.lock:
            return list(self.active.values())


class Violation(AssertionError):
    pass


class LambdaCtx:
    aws_request_id = "req"
    log_group_name = None
    log_stream_name = None
    function_name = "fn"
    memory_limit_in_mb = "128"
    function_version = "1"
    invoked_function_arn = "arn"
    tenant_id = None
    client_context = None
    identity = None

    def get_remaining_time_in_millis(self):
        return 900000


def drive(
    user_fn,
    backend: Backend,
    tracker: Tracker | None = None,
    max_invocations: int = 40,
    invocation_timeout: float = 30.0,
    allow_active_at_pending: bool = False,
    verbose: bool = False,
    tolerate_unconsumed: bool = False,
    stats: dict | None = None,
):
    """Run the execution to its end. Returns (final_output_dict, n_invocations). Raises Violation."""
    handler = durable_execution(user_fn)
    n = 0
    if stats is None:
        stats = {}
    while True:
        n += 1
        if n > max_invocations:
            msg = f"LIVENESS: not finished after {max_invocations} invocations"
            raise Violation(msg)
        event = backend.make_input()
        box: dict[str, Any] = {}

        def run(event=event, box=box):
            try:
                box["out"] = handler(event, LambdaCtx())
            except BaseException as e:  # noqa: BLE001
                box["exc"] = e

        th = threading.Thread(target=run, daemon=True)
        t0 = time.time()
        th.start()
        th.join(invocation_timeout)
        if th.is_alive():
            msg = f"LIVENESS: invocation {n} still running after {invocation_timeout}s"
            raise Violation(msg)
        if "exc" in box:
            if verbose:
                print(f"invocation {n}: raised {box['exc']!r} (lambda retry)")
            # Lambda level retry
            time.sleep(0.05)
            continue
        out = box["out"]
        active = tracker.snapshot() if tracker else []
        if verbose:
            print(
                f"invocation {n}: {out['Status']} after {time.time() - t0:.2f}s; active user fns: {active}"
            )
        if out["Status"] != "PENDING":
            return out, n
        if active and not allow_active_at_pending:
            msg = f"SOUNDNESS: PENDING returned while user functions are executing: {active}"
            raise Violation(msg)
        # the backend now wakes the execution up when something it has registered fires
        while True:
            fired = backend.fire_due()
            with backend.lock:
                unseen = bool(backend.dirty)
            if fired or unseen:
                break
            nxt = backend.next_event_time()
            if nxt is None and tolerate_unconsumed and all(
                o.operation_type is OperationType.CONTEXT for o in backend.unfinished()
            ):
                # class F1: everything awaited was already delivered to the invocation that returned PENDING
                stats["unconsumed"] = stats.get("unconsumed", 0) + 1
                break
            if nxt is None:
                msg = (
                    "STUCK: PENDING returned but nothing is registered with the backend that could "
                    f"wake the execution; unfinished: {[(o.operation_type.value, o.status.value, o.name) for o in backend.unfinished()]}"
                )
                raise Violation(msg)
            time.sleep(max(0.0, min(nxt - time.time(), 0.2)) + 0.005)


logging.getLogger().setLevel(logging.CRITICAL)
