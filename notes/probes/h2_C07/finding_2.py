"""C07 finding 2 - an invocation blocks for ever: a live map/parallel branch is killed by a false "orphan" verdict
and ConcurrentExecutor.execute() then waits for a completion event that nobody will ever set.

Run:  PYTHONPATH=/tmp/wt/h2_C07/src /venv/bin/python /tmp/wt/h2_C07/finding_2.py

Workflow (legal public API only):

    parallel(
      branch X:  r = run_in_child_context(enrich)     # enrich: create_callback(timeout 1 s); step(send);
                                                      #         try: cb.result()  except CallbackError: default
                                                      #         return a result > 256 KB   (-> recorded as a summary,
                                                      #                                        ReplayChildren = true)
                 wait(1 s)                            # timed park: the parallel's resume timer re-runs branch X
                                                      # inside the same invocation
      branch Z:  wait(1 s); step(<user function that takes 3 s>)     # keeps the invocation alive meanwhile
    )

Invocation 1 parks on the callback and the waits (PENDING, correct). The callback times out, the backend re-invokes.
Invocation 2: `enrich` handles the time-out, finishes and is recorded SUCCEEDED with ReplayChildren=true
(ExecutionState._completed_contexts now holds it). Branch X parks on its 1 s wait while branch Z is busy, the resume
timer re-runs branch X, the summarised context `enrich` is traversed again (as it must be), and inside it
`create_callback` finds its operation TIMED_OUT. CallbackOperationExecutor reports every existing callback as
"ready to execute", OperationExecutor.process() therefore asks ExecutionState.raise_if_orphaned() (the check is only
skipped for SUCCEEDED operations), the enclosing context is in _completed_contexts -> OrphanedChildException.
ConcurrentExecutor._on_task_complete() takes that exception as "the parent has completed already" and returns without
touching anything: branch X stays RUNNING for ever, branch Z finishes, neither should_complete() nor
should_execution_suspend() can ever fire, and execute() sits in self._completion_event.wait() with no timeout.

Expected: invocation 2 ends (SUCCEEDED) about 4 s after it started. Observed: it never returns.
"""

from __future__ import annotations

import dataclasses
import datetime
import faulthandler
import logging
import os
import sys
import threading
import time

from aws_durable_execution_sdk_python.config import (
    CallbackConfig,
    CompletionConfig,
    Duration,
    ParallelConfig,
)
from aws_durable_execution_sdk_python.exceptions import CallbackError
from aws_durable_execution_sdk_python.execution import (
    DurableExecutionInvocationInputWithClient,
    InitialExecutionState,
    durable_execution,
)
from aws_durable_execution_sdk_python.lambda_service import (
    CallbackDetails,
    CheckpointOutput,
    CheckpointUpdatedExecutionState,
    ContextDetails,
    ErrorObject,
    ExecutionDetails,
    Operation,
    OperationAction,
    OperationStatus,
    OperationType,
    StateOutput,
    StepDetails,
    WaitDetails,
)

logging.getLogger().setLevel(logging.CRITICAL)
UTC = datetime.UTC
TERMINAL = {OperationStatus.SUCCEEDED, OperationStatus.FAILED, OperationStatus.TIMED_OUT}
INVOCATION_LIMIT_SECONDS = 20.0  # a correct invocation of this workflow needs < 5 s


class Backend:
    """Minimal in-memory durable backend: records updates, fires wait timers and callback time-outs, reports every
    change to the running invocation in the response of its next checkpoint call."""

    def __init__(self):
        self.lock = threading.RLock()
        self.ops: dict[str, Operation] = {}
        self.order: list[str] = []
        self.unseen: set[str] = set()
        self.callback_deadline: dict[str, float] = {}
        self._put(
            Operation(
                "exec",
                OperationType.EXECUTION,
                OperationStatus.STARTED,
                execution_details=ExecutionDetails(input_payload="{}"),
            )
        )

    def _put(self, op: Operation) -> None:
        if op.operation_id not in self.ops:
            self.order.append(op.operation_id)
        self.ops[op.operation_id] = op
        self.unseen.add(op.operation_id)

    def fire_due(self) -> bool:
        fired = False
        with self.lock:
            now = datetime.datetime.now(tz=UTC)
            for op in list(self.ops.values()):
                if (
                    op.operation_type is OperationType.WAIT
                    and op.status is OperationStatus.STARTED
                    and op.wait_details.scheduled_end_timestamp <= now
                ):
                    self._put(dataclasses.replace(op, status=OperationStatus.SUCCEEDED))
                    fired = True
                if (
                    op.operation_type is OperationType.CALLBACK
                    and op.status is OperationStatus.STARTED
                    and self.callback_deadline.get(op.operation_id, float("inf")) <= time.time()
                ):
                    self._put(
                        dataclasses.replace(
                            op,
                            status=OperationStatus.TIMED_OUT,
                            callback_details=CallbackDetails(
                                op.callback_details.callback_id,
                                error=ErrorObject("Callback timed out", "Callback.Timeout", None, None),
                            ),
                        )
                    )
                    fired = True
        return fired

    def something_registered(self) -> bool:
        with self.lock:
            return any(
                o.operation_type in {OperationType.WAIT, OperationType.CALLBACK}
                and o.status is OperationStatus.STARTED
                for o in self.ops.values()
            )

    # ---- DurableServiceClient
    def checkpoint(self, durable_execution_arn, checkpoint_token, updates, client_token):
        with self.lock:
            self.fire_due()
            now = datetime.datetime.now(tz=UTC)
            for u in updates:
                old = self.ops.get(u.operation_id)
                assert not (old and old.status in TERMINAL), f"update for a terminal operation: {u}"
                base = dict(
                    operation_id=u.operation_id,
                    operation_type=u.operation_type,
                    parent_id=u.parent_id,
                    name=u.name,
                    sub_type=u.sub_type,
                )
                if u.operation_type is OperationType.WAIT:
                    op = Operation(
                        status=OperationStatus.STARTED,
                        wait_details=WaitDetails(
                            now + datetime.timedelta(seconds=u.wait_options.wait_seconds)
                        ),
                        **base,
                    )
                elif u.operation_type is OperationType.CALLBACK:
                    op = Operation(
                        status=OperationStatus.STARTED,
                        callback_details=CallbackDetails(callback_id=f"cb-{u.operation_id[:8]}"),
                        **base,
                    )
                    if u.callback_options and u.callback_options.timeout_seconds:
                        self.callback_deadline[u.operation_id] = (
                            time.time() + u.callback_options.timeout_seconds
                        )
                elif u.operation_type is OperationType.STEP:
                    if u.action is OperationAction.START:
                        op = Operation(
                            status=OperationStatus.STARTED, step_details=StepDetails(), **base
                        )
                    else:
                        assert u.action is OperationAction.SUCCEED, u
                        op = Operation(
                            status=OperationStatus.SUCCEEDED,
                            step_details=StepDetails(result=u.payload),
                            **base,
                        )
                elif u.operation_type is OperationType.CONTEXT:
                    if u.action is OperationAction.START:
                        op = Operation(status=OperationStatus.STARTED, **base)
                    else:
                        assert u.action is OperationAction.SUCCEED, u
                        op = Operation(
                            status=OperationStatus.SUCCEEDED,
                            context_details=ContextDetails(
                                replay_children=bool(
                                    u.context_options and u.context_options.replay_children
                                ),
                                result=u.payload,
                            ),
                            **base,
                        )
                else:
                    raise AssertionError(u)
                self._put(op)
            changed = [self.ops[i] for i in self.order if i in self.unseen]
            self.unseen.clear()
            return CheckpointOutput(
                checkpoint_token="t",
                new_execution_state=CheckpointUpdatedExecutionState(operations=changed),
            )

    def get_execution_state(self, durable_execution_arn, checkpoint_token, next_marker, max_items=1000):
        return StateOutput(operations=[], next_marker=None)

    def make_input(self):
        with self.lock:
            self.fire_due()
            self.unseen.clear()
            return DurableExecutionInvocationInputWithClient(
                durable_execution_arn="arn:test",
                checkpoint_token="t0",
                initial_execution_state=InitialExecutionState(
                    operations=[self.ops[i] for i in self.order], next_marker=""
                ),
                service_client=self,
            )


@durable_execution
def handler(event, ctx):
    def enrich(c):
        cb = c.create_callback(
            name="approval", config=CallbackConfig(timeout=Duration.from_seconds(1))
        )
        c.step(lambda _sc: f"sent {cb.callback_id}", name="send")
        try:
            decision = cb.result()
        except CallbackError:
            decision = "no answer in time - default applies"
        return {"decision": decision, "report": "x" * 300_000}  # > 256 KB -> ReplayChildren

    def branch_x(c):
        enriched = c.run_in_child_context(enrich, name="enrich")
        c.wait(Duration.from_seconds(1), name="cool-down")
        return enriched["decision"]

    def slow(_sc):
        time.sleep(3)
        return "z worked"

    def branch_z(c):
        c.wait(Duration.from_seconds(1), name="z-wait")
        return c.step(slow, name="z-work")

    result = ctx.parallel(
        [branch_x, branch_z],
        name="both",
        config=ParallelConfig(completion_config=CompletionConfig.all_completed()),
    )
    return result.get_results()


def main() -> int:
    backend = Backend()
    for n in range(1, 8):
        box: dict = {}

        def run(box=box):
            try:
                box["out"] = handler(backend.make_input(), None)
            except BaseException as e:  # noqa: BLE001
                box["exc"] = e

        started = time.time()
        th = threading.Thread(target=run, daemon=True)
        th.start()
        th.join(INVOCATION_LIMIT_SECONDS)
        if th.is_alive():
            with backend.lock:
                snapshot = [
                    (o.operation_type.value, o.status.value, o.name)
                    for o in backend.ops.values()
                ]
            print(f"invocation {n}: STILL RUNNING after {INVOCATION_LIMIT_SECONDS:.0f} s")
            print("backend records:", snapshot)
            print("threads of the blocked invocation:")
            faulthandler.dump_traceback(file=sys.stdout)
            msg = (
                f"C07 violated (an invocation runs for ever): invocation {n} has not returned after "
                f"{INVOCATION_LIMIT_SECONDS:.0f} s although every branch of the parallel has finished or could finish "
                "(branch X was terminated by a false OrphanedChildException and is RUNNING for ever; "
                "ConcurrentExecutor.execute() blocks in _completion_event.wait())"
            )
            raise AssertionError(msg)
        assert "exc" not in box, f"invocation {n} raised {box.get('exc')!r}"
        out = box["out"]
        print(f"invocation {n}: {out['Status']} after {time.time() - started:.1f} s")
        if out["Status"] != "PENDING":
            assert out["Status"] == "SUCCEEDED", out
            print("result:", out["Result"][:120])
            return 0
        # backend: wake the execution when a registered timer / time-out fires
        assert backend.something_registered(), "PENDING with nothing registered"
        while not backend.fire_due():
            time.sleep(0.02)
    raise AssertionError("not finished after 7 invocations")


if __name__ == "__main__":
    try:
        rc = main()
    except AssertionError as e:
        print("AssertionError:", e, file=sys.stderr)
        rc = 1
    sys.stdout.flush()
    sys.stderr.flush()
    os._exit(rc)
