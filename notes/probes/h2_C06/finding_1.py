"""C06 finding 1 - the FAILED exits of the wrapper skip the "did a checkpoint call fail?" barrier.

execution.durable_execution() asks ExecutionState.raise_if_checkpointing_failed() before it answers
SUCCEEDED or PENDING, but not before it answers FAILED for an exception raised by the handler
(`except ExecutionError` / `except Exception`).  A checkpoint call that carried no update a handler-thread
caller waits for (a fire-and-forget START, the empty refresh of a resume timer) can therefore fail with an
error that is classified "raise for Lambda retry" while the invocation answers FAILED - a terminal verdict
for the whole durable execution - with an unrelated error.

Part A (deterministic, no timing): a default (at-least-once) step at top level whose result cannot be
        serialised; the call that carries its fire-and-forget START fails with a 4xx CheckpointError.
Part B (independent of the step/ExecutionError behaviour): the failing call is the empty refresh checkpoint
        sent by the resume timer of a nested parallel inside a branch that was left behind by
        first_successful(); the handler then raises a business exception.

Expected by C06 in both parts: the CheckpointError (category EXECUTION => is_retriable() => raise) leaves
the handler so that Lambda retries the invocation.  Observed: {"Status": "FAILED", "Error": <user error>}.

Run:  PYTHONPATH=/tmp/wt/h2_C06/src /venv/bin/python finding_1.py
"""

from __future__ import annotations

import logging
import threading
import time

logging.disable(logging.CRITICAL)

from aws_durable_execution_sdk_python.config import (
    CompletionConfig,
    Duration,
    ParallelConfig,
    StepConfig,
)
from aws_durable_execution_sdk_python.exceptions import (
    CheckpointError,
    CheckpointErrorCategory,
)
from aws_durable_execution_sdk_python.execution import (
    DurableExecutionInvocationInputWithClient,
    InitialExecutionState,
    durable_execution,
)
from aws_durable_execution_sdk_python.lambda_service import (
    CheckpointOutput,
    CheckpointUpdatedExecutionState,
    ExecutionDetails,
    Operation,
    OperationAction,
    OperationStatus,
    OperationType,
    StepDetails,
)
from aws_durable_execution_sdk_python.retries import RetryDecision

import datetime

UTC = datetime.UTC


class Backend:
    """Minimal in-memory service: records updates, answers with the changed operations."""

    def __init__(self, should_fail):
        self.should_fail = should_fail  # predicate(list[OperationUpdate]) -> bool
        self.ops: dict[str, Operation] = {}
        self.calls: list[list] = []
        self.failed_call: list | None = None
        self.calls_after_failure = 0
        self.lock = threading.Lock()

    def checkpoint(self, durable_execution_arn, checkpoint_token, updates, client_token=None):
        with self.lock:
            self.calls.append(list(updates))
            if self.failed_call is not None:
                self.calls_after_failure += 1
                raise AssertionError("API call after a failed call")
            if self.should_fail(updates):
                self.failed_call = list(updates)
                # 4xx other than "Invalid Checkpoint Token": category EXECUTION, is_retriable() is True,
                # execution.handle_checkpoint_error() re-raises it so that Lambda retries the invocation
                raise CheckpointError("injected 4xx", CheckpointErrorCategory.EXECUTION)
            changed = []
            for u in updates:
                old = self.ops.get(u.operation_id)
                attempt = old.step_details.attempt if old and old.step_details else 0
                kw = dict(operation_id=u.operation_id, operation_type=u.operation_type, parent_id=u.parent_id, name=u.name, sub_type=u.sub_type)
                if u.operation_type is OperationType.STEP:
                    if u.action is OperationAction.START:
                        op = Operation(status=OperationStatus.STARTED, step_details=StepDetails(attempt=attempt), **kw)
                    elif u.action is OperationAction.SUCCEED:
                        op = Operation(status=OperationStatus.SUCCEEDED, step_details=StepDetails(attempt=attempt + 1, result=u.payload), **kw)
                    elif u.action is OperationAction.RETRY:
                        op = Operation(
                            status=OperationStatus.PENDING,
                            step_details=StepDetails(
                                attempt=attempt + 1,
                                next_attempt_timestamp=datetime.datetime.now(tz=UTC) + datetime.timedelta(seconds=u.step_options.next_attempt_delay_seconds),
                                error=u.error,
                            ),
                            **kw,
                        )
                    else:
                        op = Operation(status=OperationStatus.FAILED, step_details=StepDetails(attempt=attempt + 1, error=u.error), **kw)
                else:  # CONTEXT
                    from aws_durable_execution_sdk_python.lambda_service import ContextDetails

                    if u.action is OperationAction.START:
                        op = Operation(status=OperationStatus.STARTED, **kw)
                    elif u.action is OperationAction.SUCCEED:
                        op = Operation(status=OperationStatus.SUCCEEDED, context_details=ContextDetails(result=u.payload), **kw)
                    else:
                        op = Operation(status=OperationStatus.FAILED, context_details=ContextDetails(error=u.error), **kw)
                self.ops[u.operation_id] = op
                changed.append(op)
            return CheckpointOutput(
                checkpoint_token=f"tok-{len(self.calls)}",
                new_execution_state=CheckpointUpdatedExecutionState(operations=changed),
            )

    def get_execution_state(self, *a, **k):
        raise AssertionError("not paginated")


def invoke(handler, backend, timeout=30.0):
    event = DurableExecutionInvocationInputWithClient(
        durable_execution_arn="arn:test",
        checkpoint_token="tok-0",
        initial_execution_state=InitialExecutionState(
            operations=[
                Operation(
                    operation_id="exec",
                    operation_type=OperationType.EXECUTION,
                    status=OperationStatus.STARTED,
                    execution_details=ExecutionDetails(input_payload="{}"),
                )
            ],
            next_marker="",
        ),
        service_client=backend,
    )
    box = {}

    def run():
        try:
            box["response"] = durable_execution(handler)(event, None)
        except BaseException as e:  # noqa: BLE001
            box["raised"] = e

    t = threading.Thread(target=run, daemon=True)
    t.start()
    t.join(timeout)
    assert not t.is_alive(), "invocation hangs"
    return box


def verdict(title, box, backend):
    print(f"--- {title}")
    print("    failed API call carried:", [(u.operation_type.value, u.action.value, u.name) for u in backend.failed_call] if backend.failed_call is not None else None)
    print("    invocation outcome     :", box)
    assert backend.failed_call is not None, f"{title}: set-up problem - the injected failure never fired"
    assert backend.calls_after_failure == 0
    ok = isinstance(box.get("raised"), CheckpointError)
    return ok


# ----------------------------------------------------------------------------- Part A
def handler_a(event, ctx):
    # default StepConfig: AT_LEAST_ONCE_PER_RETRY => START is fire-and-forget
    ctx.step(lambda sc: object(), name="unserialisable-result")
    return "unreachable"


backend_a = Backend(should_fail=lambda ups: any(u.action is OperationAction.START and u.name == "unserialisable-result" for u in ups))
box_a = invoke(handler_a, backend_a)
ok_a = verdict("Part A: top-level step, START call fails (4xx), result cannot be serialised", box_a, backend_a)


# ----------------------------------------------------------------------------- Part B
attempts = {"n": 0}


def handler_b(event, ctx):
    def fast(c):
        def work(sc):
            time.sleep(0.6)  # lets the other branch park its retry first
            return "fast"

        return c.step(work, name="fast")

    def left_behind(c):
        def retrying(c2):
            def flaky(sc):
                attempts["n"] += 1
                raise RuntimeError("try again in a second")

            return c2.step(
                flaky,
                name="flaky",
                config=StepConfig(retry_strategy=lambda e, n: RetryDecision.retry(Duration.from_seconds(1))),
            )

        def busy(c2):
            time.sleep(4)  # plain user code: keeps the nested parallel (and its resume timer) alive
            return "busy"

        return c.parallel([retrying, busy], name="inner").get_results()

    ctx.parallel(
        [fast, left_behind],
        name="outer",
        config=ParallelConfig(completion_config=CompletionConfig.first_successful()),
    )
    time.sleep(2.5)  # the handler's own (non-durable) work; the inner resume timer fires meanwhile
    raise ValueError("business rule violated")


backend_b = Backend(should_fail=lambda ups: len(ups) == 0)  # the empty refresh checkpoint of a resume timer
box_b = invoke(handler_b, backend_b)
ok_b = verdict("Part B: resume timer's refresh checkpoint fails (4xx), handler then raises a business error", box_b, backend_b)

assert ok_a, (
    "C06 violated (A): a checkpoint call failed with a CheckpointError classified 'raise for Lambda retry', "
    f"but the invocation answered {box_a.get('response')!r} instead of raising it"
)
assert ok_b, (
    "C06 violated (B): a checkpoint call failed with a CheckpointError classified 'raise for Lambda retry', "
    f"but the invocation answered {box_b.get('response')!r} instead of raising it"
)
print("no violation")
