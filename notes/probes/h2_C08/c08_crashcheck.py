import logging
logging.disable(logging.CRITICAL)
from c08_harness import *
prog = [
    {"k": "step"},
    {"k": "child", "body": [{"k": "step"}, {"k": "wfc"}]},
    {"k": "parallel", "branches": [[{"k": "step"}, {"k": "wait"}, {"k": "step"}], [{"k": "callback"}], [{"k": "map", "n": 3, "body": [{"k": "step", "fails": 1}]}]]},
    {"k": "step"},
]
for mode in ("before", "after"):
    for call in range(1, 25):
        b, outs = drive(prog, seed=call, jitter=0.005, crash_calls={call: mode, call + 7: mode})
        crashed = [o for o in outs if "Crashed" in o]
        pr = verify(prog, b, outs)
        print(mode, call, "inv", len(outs), "crashes", len(crashed), outs[-1]["Status"], "problems", len(pr))
        for p in pr[:5]: print("   ", p)
