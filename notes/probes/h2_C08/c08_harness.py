"""Harness for C08 (operation identity): in-memory fake backend + program interpreter + oracle.

Run with PYTHONPATH=/tmp/wt/h2_C08/src from /tmp/wt/h2_C08.
"""

from __future__ import annotations

import datetime
import hashlib
import json
import random
import threading
import time
from dataclasses import replace
from typing import Any

from aws_durable_execution_sdk_python.config import (
    ChildConfig,
    CompletionConfig,
    Duration,
    MapConfig,
    ParallelConfig,
    StepConfig,
)
from aws_durable_execution_sdk_python.execution import (
    DurableExecutionInvocationInputWithClient,
    InitialExecutionState,
    durable_execution,
)
from aws_durable_execution_sdk_python.lambda_service import (
    CallbackDetails,
    ChainedInvokeDetails,
    CheckpointOutput,
    CheckpointUpdatedExecutionState,
    ContextDetails,
    ExecutionDetails,
    Operation,
    OperationAction,
    OperationStatus,
    OperationType,
    StateOutput,
    StepDetails,
    WaitDetails,
)
from aws_durable_execution_sdk_python.retries import RetryDecision
from aws_durable_execution_sdk_python.waits import (
    WaitForConditionConfig,
    WaitForConditionDecision,
)

UTC = datetime.UTC


def H(s: str) -> str:
    return hashlib.blake2b(s.encode()).hexdigest()[:64]


class Backend:
    """Records every update and plays the state back as history."""

    def __init__(self, page_size: int | None = None, time_scale: float = 1.0):
        self.lock = threading.Lock()
        self.ops: dict[str, Operation] = {}
        self.order: list[str] = []
        self.log: list[tuple[int, Any]] = []  # (invocation, OperationUpdate)
        self.invocation = 0
        self.page_size = page_size
        self.token = 0
        self.time_scale = time_scale
        self.calls = 0
        self.crash_calls: dict[int, str] = {}  # call number -> "before" | "after"
        self._put(
            Operation(
                operation_id="exec-0",
                operation_type=OperationType.EXECUTION,
                status=OperationStatus.STARTED,
                execution_details=ExecutionDetails(input_payload="{}"),
            )
        )

    def _put(self, op: Operation):
        if op.operation_id not in self.ops:
            self.order.append(op.operation_id)
        self.ops[op.operation_id] = op

    # -- service client protocol ------------------------------------------------
    def checkpoint(self, durable_execution_arn, checkpoint_token, updates, client_token):
        with self.lock:
            self.calls += 1
            mode = self.crash_calls.pop(self.calls, None)
            if mode == "before":
                raise RuntimeError("injected crash before applying")
            touched: list[str] = []
            for u in updates:
                self.log.append((self.invocation, u))
                self._apply(u)
                touched.append(u.operation_id)
            if mode == "after":
                raise RuntimeError("injected crash after applying (response lost)")
            touched.extend(self._advance_by_time())
            self.token += 1
            seen = set()
            out = []
            for i in touched:
                if i not in seen:
                    seen.add(i)
                    out.append(self.ops[i])
            return CheckpointOutput(
                checkpoint_token=f"t{self.token}",
                new_execution_state=CheckpointUpdatedExecutionState(operations=out),
            )

    def get_execution_state(self, durable_execution_arn, checkpoint_token, next_marker, max_items=1000):
        with self.lock:
            start = int(next_marker)
            ids = self.order[start : start + (self.page_size or 10**9)]
            nxt = start + len(ids)
            return StateOutput(
                operations=[self.ops[i] for i in ids],
                next_marker=str(nxt) if nxt < len(self.order) else None,
            )

    # -- state machine -----------------------------------------------------------
    def _apply(self, u):
        now = datetime.datetime.now(tz=UTC)
        old = self.ops.get(u.operation_id)
        t = u.operation_type
        a = u.action
        base = dict(
            operation_id=u.operation_id,
            operation_type=t,
            parent_id=u.parent_id,
            name=u.name,
            sub_type=u.sub_type,
            start_timestamp=old.start_timestamp if old else now,
        )
        if t is OperationType.EXECUTION:
            self._put(
                Operation(
                    operation_id=u.operation_id,
                    operation_type=t,
                    status=OperationStatus.SUCCEEDED
                    if a is OperationAction.SUCCEED
                    else OperationStatus.FAILED,
                )
            )
            return
        if t is OperationType.STEP:
            sd = old.step_details if old and old.step_details else StepDetails()
            if a is OperationAction.START:
                op = Operation(status=OperationStatus.STARTED, step_details=sd, **base)
            elif a is OperationAction.RETRY:
                delay = u.step_options.next_attempt_delay_seconds * self.time_scale
                op = Operation(
                    status=OperationStatus.PENDING,
                    step_details=StepDetails(
                        attempt=sd.attempt + 1,
                        next_attempt_timestamp=now + datetime.timedelta(seconds=delay),
                        result=u.payload,
                        error=u.error,
                    ),
                    **base,
                )
            elif a is OperationAction.SUCCEED:
                op = Operation(
                    status=OperationStatus.SUCCEEDED,
                    end_timestamp=now,
                    step_details=StepDetails(attempt=sd.attempt + 1, result=u.payload),
                    **base,
                )
            elif a is OperationAction.FAIL:
                op = Operation(
                    status=OperationStatus.FAILED,
                    end_timestamp=now,
                    step_details=StepDetails(attempt=sd.attempt + 1, error=u.error),
                    **base,
                )
            else:
                raise AssertionError(a)
        elif t is OperationType.WAIT:
            secs = u.wait_options.wait_seconds * self.time_scale
            op = Operation(
                status=OperationStatus.STARTED,
                wait_details=WaitDetails(
                    scheduled_end_timestamp=now + datetime.timedelta(seconds=secs)
                ),
                **base,
            )
        elif t is OperationType.CALLBACK:
            op = Operation(
                status=OperationStatus.STARTED,
                callback_details=CallbackDetails(callback_id="cb-" + u.operation_id[:10]),
                **base,
            )
        elif t is OperationType.CHAINED_INVOKE:
            op = Operation(
                status=OperationStatus.STARTED,
                chained_invoke_details=ChainedInvokeDetails(),
                **base,
            )
        elif t is OperationType.CONTEXT:
            if a is OperationAction.START:
                op = Operation(status=OperationStatus.STARTED, **base)
            elif a is OperationAction.SUCCEED:
                op = Operation(
                    status=OperationStatus.SUCCEEDED,
                    end_timestamp=now,
                    context_details=ContextDetails(
                        replay_children=bool(
                            u.context_options and u.context_options.replay_children
                        ),
                        result=u.payload,
                    ),
                    **base,
                )
            else:
                op = Operation(
                    status=OperationStatus.FAILED,
                    end_timestamp=now,
                    context_details=ContextDetails(error=u.error),
                    **base,
                )
        else:
            raise AssertionError(t)
        self._put(op)

    def _advance_by_time(self) -> list[str]:
        """What the backend does on its own once a timer is due."""
        now = datetime.datetime.now(tz=UTC)
        changed = []
        for i, op in list(self.ops.items()):
            if (
                op.operation_type is OperationType.STEP
                and op.status is OperationStatus.PENDING
                and op.step_details.next_attempt_timestamp <= now
            ):
                self.ops[i] = replace(op, status=OperationStatus.READY)
                changed.append(i)
            elif (
                op.operation_type is OperationType.WAIT
                and op.status is OperationStatus.STARTED
                and op.wait_details.scheduled_end_timestamp <= now
            ):
                self.ops[i] = replace(op, status=OperationStatus.SUCCEEDED)
                changed.append(i)
        return changed

    def deliver(self, rng: random.Random | None = None, everything: bool = True) -> int:
        """Between invocations: timers fire, callbacks / invokes are answered."""
        with self.lock:
            candidates = []
            for i, op in self.ops.items():
                if op.operation_type is OperationType.STEP and op.status is OperationStatus.PENDING:
                    candidates.append(i)
                elif op.operation_type in (
                    OperationType.WAIT,
                    OperationType.CALLBACK,
                    OperationType.CHAINED_INVOKE,
                ) and op.status is OperationStatus.STARTED:
                    candidates.append(i)
            if not candidates:
                return 0
            if not everything and rng is not None:
                k = rng.randint(1, len(candidates))
                candidates = rng.sample(candidates, k)
            for i in candidates:
                op = self.ops[i]
                if op.operation_type is OperationType.STEP:
                    self.ops[i] = replace(op, status=OperationStatus.READY)
                elif op.operation_type is OperationType.WAIT:
                    self.ops[i] = replace(op, status=OperationStatus.SUCCEEDED)
                elif op.operation_type is OperationType.CALLBACK:
                    self.ops[i] = replace(
                        op,
                        status=OperationStatus.SUCCEEDED,
                        callback_details=replace(op.callback_details, result='"cbres"'),
                    )
                else:
                    self.ops[i] = replace(
                        op,
                        status=OperationStatus.SUCCEEDED,
                        chained_invoke_details=ChainedInvokeDetails(result='"inv"'),
                    )
            return len(candidates)

    def invocation_input(self):
        with self.lock:
            self.invocation += 1
            ids = self.order[: self.page_size] if self.page_size else list(self.order)
            nxt = len(ids)
            return DurableExecutionInvocationInputWithClient(
                durable_execution_arn="arn:c08",
                checkpoint_token=f"t{self.token}",
                initial_execution_state=InitialExecutionState(
                    operations=[self.ops[i] for i in ids],
                    next_marker=str(nxt) if nxt < len(self.order) else "",
                ),
                service_client=self,
            )


class LambdaCtx:
    aws_request_id = "r"
    invoked_function_arn = "arn:fn"
    tenant_id = None
    client_context = None
    identity = None

    def get_remaining_time_in_millis(self):
        return 100000


# ---------------------------------------------------------------------------------
# Program specs. A program is a list of op specs (dicts); interpreter + oracle.
# ---------------------------------------------------------------------------------
class UserError(Exception):
    pass


class World:
    """Side-effect store for steps (attempt counters), shared across invocations."""

    def __init__(self, rng: random.Random, jitter: float):
        self.attempts: dict[str, int] = {}
        self.lock = threading.Lock()
        self.rng = rng
        self.jitter = jitter

    def bump(self, key: str) -> int:
        with self.lock:
            self.attempts[key] = self.attempts.get(key, 0) + 1
            return self.attempts[key]

    def nap(self):
        if self.jitter:
            with self.lock:
                d = self.rng.random() * self.jitter
            time.sleep(d)


BIG = "x" * (300 * 1024)


def run_ops(ctx, ops, path: str, world: World):
    results = []
    for n, op in enumerate(ops, start=1):
        p = f"{path}/{n}"
        k = op["k"]
        if k == "step":
            fails = op.get("fails", 0)
            final_fail = op.get("final_fail", False)
            slow = op.get("slow", 0)

            def fn(_sc, p=p, fails=fails, final_fail=final_fail, slow=slow):
                world.nap()
                if slow:
                    time.sleep(slow)
                a = world.bump(p)
                if a <= fails or final_fail:
                    raise UserError(f"fail {p} attempt {a}")
                return f"v:{p}"

            cfg = StepConfig(
                retry_strategy=lambda e, attempt, fails=fails: RetryDecision(
                    should_retry=attempt <= fails, delay=Duration(seconds=1)
                )
            )
            try:
                results.append(ctx.step(fn, name=p, config=cfg))
            except Exception as e:  # noqa: BLE001
                if not final_fail:
                    raise
                results.append(f"err:{type(e).__name__}")
        elif k == "wait":
            ctx.wait(Duration(seconds=1), name=p)
            results.append(None)
        elif k == "badwait":
            try:
                ctx.wait(Duration(seconds=0), name=p)
            except Exception as e:  # noqa: BLE001
                results.append(type(e).__name__)
        elif k == "invoke":
            results.append(ctx.invoke("fn", {"p": p}, name=p))
        elif k == "callback":
            cb = ctx.create_callback(name=p)
            results.append(cb.result())
        elif k == "wfc":
            results.append(ctx.wait_for_callback(lambda cbid, c: None, name=p))
        elif k == "wfcond":
            polls = op.get("polls", 1)

            def check(state, _c):
                return state + 1

            cfg = WaitForConditionConfig(
                wait_strategy=lambda st, attempt, polls=polls: WaitForConditionDecision.continue_waiting(
                    Duration(seconds=1)
                )
                if st < polls
                else WaitForConditionDecision.stop_polling(),
                initial_state=0,
            )
            results.append(ctx.wait_for_condition(check, cfg, name=p))
        elif k == "child":
            body = op["body"]
            big = op.get("big", False)
            raises = op.get("raises", False)

            def child_fn(c, body=body, p=p, big=big, raises=raises):
                r = run_ops(c, body, p, world)
                if raises:
                    raise UserError(f"child {p} raises")
                return [r, BIG] if big else r

            try:
                r = ctx.run_in_child_context(child_fn, name=p)
                results.append("BIG" if big else r)
            except Exception as e:  # noqa: BLE001
                if not raises:
                    raise
                results.append(f"err:{type(e).__name__}")
        elif k == "parallel":
            branches = op["branches"]
            big = op.get("big", False)

            def mk(i, body, p=p, big=big):
                def b(c):
                    r = run_ops(c, body, f"{p}/b{i}", world)
                    return [r, BIG] if big else r

                return b

            cfg = ParallelConfig(
                max_concurrency=op.get("maxc"),
                completion_config=CompletionConfig(
                    min_successful=op.get("min_ok"),
                    tolerated_failure_count=op.get("tol"),
                ),
            )
            br = ctx.parallel([mk(i, b) for i, b in enumerate(branches)], name=p, config=cfg)
            results.append([(it.index, it.status.value) for it in br.all])
        elif k == "map":
            body = op["body"]
            n_items = op["n"]
            big = op.get("big", False)

            def mf(c, item, idx, items, p=p, body=body, big=big):
                r = run_ops(c, body, f"{p}/b{idx}", world)
                return [r, BIG] if big else r

            cfg = MapConfig(
                max_concurrency=op.get("maxc"),
                completion_config=CompletionConfig(
                    min_successful=op.get("min_ok"),
                    tolerated_failure_count=op.get("tol"),
                ),
            )
            br = ctx.map(list(range(n_items)), mf, name=p, config=cfg)
            results.append([(it.index, it.status.value) for it in br.all])
        else:
            raise AssertionError(k)
    return results


def oracle(ops, parent: str | None, path: str, out: dict):
    """Expected id -> (parent id, kind, path) for every position of the program."""
    k_idx = 0
    for n, op in enumerate(ops, start=1):
        p = f"{path}/{n}"
        k = op["k"]
        if k == "badwait":
            continue  # validation error: no operation at all
        k_idx += 1
        oid = H(f"{parent}-{k_idx}" if parent else str(k_idx))

        def put(i, par, kind, pth):
            assert i not in out, f"oracle collision {pth} vs {out[i]}"
            out[i] = (par, kind, pth)

        if k in ("step", "wfcond"):
            put(oid, parent, "STEP", p)
        elif k == "wait":
            put(oid, parent, "WAIT", p)
        elif k == "invoke":
            put(oid, parent, "CHAINED_INVOKE", p)
        elif k == "callback":
            put(oid, parent, "CALLBACK", p)
        elif k == "wfc":
            put(oid, parent, "CONTEXT", p)
            put(H(f"{oid}-1"), oid, "CALLBACK", p + "/cb")
            put(H(f"{oid}-2"), oid, "STEP", p + "/submit")
        elif k == "child":
            put(oid, parent, "CONTEXT", p)
            oracle(op["body"], oid, p, out)
        elif k == "parallel":
            put(oid, parent, "CONTEXT", p)
            for i, b in enumerate(op["branches"]):
                bid = H(f"{oid}-{i}")
                put(bid, oid, "CONTEXT", f"{p}/b{i}")
                oracle(b, bid, f"{p}/b{i}", out)
        elif k == "map":
            put(oid, parent, "CONTEXT", p)
            for i in range(op["n"]):
                bid = H(f"{oid}-{i}")
                put(bid, oid, "CONTEXT", f"{p}/b{i}")
                oracle(op["body"], bid, f"{p}/b{i}", out)
    return out


def drive(program, *, seed=0, jitter=0.0, page_size=None, partial_delivery=False, max_invocations=60, verbose=False, crash_calls=None):
    rng = random.Random(seed)
    world = World(random.Random(seed + 1), jitter)
    backend = Backend(page_size=page_size)
    backend.crash_calls = dict(crash_calls or {})

    @durable_execution
    def handler(event, ctx):
        return run_ops(ctx, program, "", world)

    outs = []
    for _ in range(max_invocations):
        inp = backend.invocation_input()
        try:
            out = handler(inp, LambdaCtx())
        except Exception as e:  # noqa: BLE001  (Lambda would retry the invocation)
            out = {"Status": "PENDING", "Crashed": f"{type(e).__name__}: {e}"}
            outs.append(out)
            if verbose:
                print("invocation", backend.invocation, "CRASHED", out["Crashed"])
            continue
        outs.append(out)
        if verbose:
            print("invocation", backend.invocation, out["Status"], len(backend.log))
        if out["Status"] != "PENDING":
            break
        n = backend.deliver(rng, everything=not partial_delivery)
        if n == 0:
            # only time-driven things outstanding? wait a bit
            time.sleep(0.3)
    return backend, outs


def verify(program, backend, outs) -> list[str]:
    exp = oracle(program, None, "", {})
    problems = []
    seen_parent: dict[str, set] = {}
    for inv, u in backend.log:
        if u.operation_type is OperationType.EXECUTION:
            continue
        e = exp.get(u.operation_id)
        if e is None:
            problems.append(
                f"inv {inv}: update {u.action.value} {u.operation_type.value} name={u.name} id={u.operation_id[:10]} is at no position of the program"
            )
            continue
        par, kind, pth = e
        if u.parent_id != par:
            problems.append(
                f"inv {inv}: {pth} reported with parent {str(u.parent_id)[:10]} but enclosing context is {str(par)[:10]}"
            )
        if u.operation_type.value != kind:
            problems.append(f"inv {inv}: {pth} expected type {kind} got {u.operation_type.value}")
        seen_parent.setdefault(u.operation_id, set()).add(u.parent_id)
    for i, s in seen_parent.items():
        if len(s) > 1:
            problems.append(f"id {i[:10]} reported with several parents {s}")
    # independent of the hash oracle: names given by the program encode the position
    id_names: dict[str, set] = {}
    name_ids: dict[str, set] = {}
    for inv, u in backend.log:
        if u.operation_type is OperationType.EXECUTION or not u.name or not u.name.startswith("/"):
            continue
        id_names.setdefault(u.operation_id, set()).add(u.name)
        name_ids.setdefault(u.name, set()).add(u.operation_id)
    for i, s in id_names.items():
        if len(s) > 1:
            problems.append(f"COLLISION: id {i[:10]} used for positions {sorted(s)}")
    for n, s in name_ids.items():
        if len(s) > 1:
            problems.append(f"UNSTABLE: position {n} recorded under ids {[x[:10] for x in s]}")
    return problems


SLOW_STEPS = False


def gen_program(rng: random.Random, depth: int = 0, allow_slow: bool = True) -> list:
    n = rng.randint(1, 4 if depth == 0 else 3)
    ops = []
    for _ in range(n):
        choices = ["step", "step", "step_retry", "badwait", "final_fail"]
        if SLOW_STEPS and depth > 0:
            choices += ["slow"]
        if allow_slow:
            choices += ["wait", "invoke", "callback", "wfc", "wfcond"]
        if depth < 3:
            choices += ["child", "child_raises", "parallel", "map", "bigchild"]
        c = rng.choice(choices)
        if c == "step":
            ops.append({"k": "step"})
        elif c == "slow":
            ops.append({"k": "step", "slow": rng.choice([1.2, 2.4])})
        elif c == "step_retry":
            ops.append({"k": "step", "fails": 1})
        elif c == "final_fail":
            ops.append({"k": "step", "final_fail": True})
        elif c in ("wait", "invoke", "callback", "wfc", "badwait"):
            ops.append({"k": c})
        elif c == "wfcond":
            ops.append({"k": "wfcond", "polls": rng.randint(1, 2)})
        elif c == "child":
            ops.append({"k": "child", "body": gen_program(rng, depth + 1, allow_slow)})
        elif c == "bigchild":
            ops.append({"k": "child", "body": gen_program(rng, depth + 1, allow_slow), "big": True})
        elif c == "child_raises":
            ops.append({"k": "child", "body": gen_program(rng, depth + 1, allow_slow), "raises": True})
        elif c == "parallel":
            nb = rng.randint(0, 3)
            op = {"k": "parallel", "branches": [gen_program(rng, depth + 1, allow_slow) for _ in range(nb)]}
            _batch_cfg(rng, op, nb)
            ops.append(op)
        elif c == "map":
            nb = rng.randint(0, 4)
            op = {"k": "map", "n": nb, "body": gen_program(rng, depth + 1, allow_slow)}
            _batch_cfg(rng, op, nb)
            ops.append(op)
    return ops


def _batch_cfg(rng, op, nb):
    r = rng.random()
    if r < 0.25 and nb > 1:
        op["min_ok"] = rng.randint(1, nb)
    elif r < 0.4:
        op["tol"] = rng.randint(0, max(nb, 1))
    if rng.random() < 0.3 and nb > 1:
        op["maxc"] = rng.randint(1, nb)
    if rng.random() < 0.15:
        op["big"] = True


def dumps(x):
    return json.dumps(x, default=str)
