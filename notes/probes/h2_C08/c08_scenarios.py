"""Hand-written C08 scenarios (identity / parent links) on top of c08_harness."""
import logging, time
logging.disable(logging.CRITICAL)
from c08_harness import *

leaf = [{"k": "step"}, {"k": "wait"}, {"k": "step", "fails": 1}]
S = {
 "deep_nesting": [
   {"k": "parallel", "branches": [
       [{"k": "child", "body": [{"k": "map", "n": 3, "body": [{"k": "parallel", "branches": [leaf, [{"k": "wfc"}], [{"k": "wfcond", "polls": 2}]]}]}]}],
       [{"k": "map", "n": 2, "body": [{"k": "child", "body": [{"k": "callback"}, {"k": "invoke"}]}]}],
   ]},
   {"k": "step"}],
 "in_process_timers": [
   {"k": "parallel", "branches": [
       [{"k": "step", "slow": 3.5}],
       [{"k": "step", "fails": 2}, {"k": "step"}],
       [{"k": "wait"}, {"k": "step"}, {"k": "wait"}, {"k": "step"}],
       [{"k": "map", "n": 2, "body": [{"k": "wfcond", "polls": 2}, {"k": "step"}]}],
   ]},
   {"k": "step"}],
 "early_completion_orphans": [
   {"k": "map", "n": 4, "min_ok": 1, "body": [{"k": "step"}, {"k": "step", "slow": 1.2}, {"k": "step"}, {"k": "child", "body": [{"k": "step"}]}]},
   {"k": "step", "slow": 2.0},
   {"k": "parallel", "min_ok": 1, "branches": [[{"k": "step"}], [{"k": "step", "slow": 1.0}, {"k": "step"}]]},
   {"k": "wait"},
   {"k": "step"}],
 "replay_children_everywhere": [
   {"k": "map", "n": 3, "big": True, "body": [{"k": "child", "big": True, "body": [{"k": "step"}, {"k": "wait"}]}, {"k": "step"}]},
   {"k": "parallel", "big": True, "min_ok": 1, "branches": [[{"k": "step"}], [{"k": "wait"}, {"k": "step"}]]},
   {"k": "wait"},
   {"k": "child", "big": True, "body": [{"k": "map", "n": 2, "body": [{"k": "step"}]}, {"k": "wfc"}]},
   {"k": "wait"},
   {"k": "step"}],
 "failures_caught": [
   {"k": "child", "raises": True, "body": [{"k": "step"}, {"k": "child", "raises": True, "body": [{"k": "step", "final_fail": True}]}]},
   {"k": "badwait"},
   {"k": "map", "n": 3, "tol": 3, "body": [{"k": "step", "final_fail": True}, {"k": "child", "raises": True, "body": [{"k": "step"}]}, {"k": "step"}]},
   {"k": "parallel", "branches": []},
   {"k": "map", "n": 0, "body": [{"k": "step"}]},
   {"k": "wait"},
   {"k": "step"}],
}
bad = 0
for name, prog in S.items():
    for page in (None, 1, 4):
        for partial in (False, True):
            t0 = time.time()
            b, outs = drive(prog, seed=7, jitter=0.01, page_size=page, partial_delivery=partial)
            pr = verify(prog, b, outs)
            empties = 0
            print(f"{name:28s} page={page} partial={partial} inv={len(outs)} status={outs[-1]['Status']} updates={len(b.log)} calls={b.calls} t={time.time()-t0:.1f}s problems={len(pr)}")
            for p in pr[:8]: print("    ", p)
            bad += bool(pr) or outs[-1]["Status"] != "SUCCEEDED"
print("bad", bad)
