import sys, logging, time, json, traceback
logging.disable(logging.CRITICAL)
from c08_harness import *

start, count = int(sys.argv[1]), int(sys.argv[2])
import c08_harness
c08_harness.SLOW_STEPS = len(sys.argv) > 3
bad = 0
for seed in range(start, start + count):
    rng = random.Random(seed)
    prog = gen_program(rng)
    page = rng.choice([None, None, 1, 3, 7])
    partial = rng.random() < 0.5
    jitter = rng.choice([0.0, 0.005, 0.02])
    t0 = time.time()
    crash = {}
    if len(sys.argv) > 4:
        for _ in range(rng.randint(1, 4)):
            crash[rng.randint(1, 40)] = rng.choice(["before", "after"])
    try:
        b, outs = drive(prog, seed=seed, jitter=jitter, page_size=page, partial_delivery=partial, crash_calls=crash)
    except BaseException as e:
        print(f"seed {seed}: EXC {type(e).__name__}: {e}")
        traceback.print_exc()
        bad += 1
        continue
    pr = verify(prog, b, outs)
    st = outs[-1]["Status"]
    print(f"seed {seed}: inv={len(outs)} status={st} updates={len(b.log)} page={page} partial={partial} t={time.time()-t0:.1f}s problems={len(pr)}")
    if st == "PENDING":
        print("   still pending after max invocations")
    if st == "FAILED":
        print("   ", str(outs[-1])[:300])
    if pr:
        bad += 1
        print("   PROGRAM", json.dumps(prog))
        for p in pr[:10]:
            print("   ", p)
print("bad", bad)
