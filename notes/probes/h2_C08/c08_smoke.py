import sys, logging
logging.disable(logging.CRITICAL)
from c08_harness import *

prog = [
    {"k": "step"},
    {"k": "badwait"},
    {"k": "wait"},
    {"k": "child", "body": [{"k": "step", "fails": 1}, {"k": "wfc"}, {"k": "child", "body": [{"k": "step"}], "raises": True}]},
    {"k": "parallel", "branches": [[{"k": "step"}, {"k": "wait"}, {"k": "step"}], [{"k": "callback"}], [{"k": "map", "n": 3, "body": [{"k": "step", "fails": 1}, {"k": "wfcond", "polls": 2}]}]]},
    {"k": "map", "n": 4, "body": [{"k": "step"}], "min_ok": 2},
    {"k": "invoke"},
    {"k": "child", "body": [{"k": "step"}, {"k": "step"}], "big": True},
    {"k": "map", "n": 2, "body": [{"k": "step"}, {"k":"wait"}], "big": True},
    {"k": "step", "final_fail": True},
    {"k": "step"},
]
b, outs = drive(prog, seed=1, jitter=0.01, verbose=True)
print(outs[-1]["Status"], str(outs[-1])[:300])
pr = verify(prog, b, outs)
print("problems:", len(pr))
for p in pr[:20]: print(p)
