"""OrderedCounter / id derivation sanity: unique + contiguous under contention; no collisions over a large tree."""
import threading, hashlib
from aws_durable_execution_sdk_python.threading import OrderedCounter
from aws_durable_execution_sdk_python.context import DurableContext, ExecutionContext
from unittest.mock import Mock

c = OrderedCounter(); got = []; lk = threading.Lock()
def w():
    for _ in range(2000):
        v = c.increment()
        with lk: got.append(v)
ts = [threading.Thread(target=w) for _ in range(32)]
[t.start() for t in ts]; [t.join() for t in ts]
assert sorted(got) == list(range(1, 64001)), "counter not unique/contiguous"
print("counter ok", len(got))

root = DurableContext(state=Mock(), execution_context=ExecutionContext("arn"))
seen = {}
def walk(ctx, path, depth):
    for k in range(1, 7):
        i = ctx._create_step_id()
        assert len(i) == 64
        assert i not in seen, (path, k, seen[i])
        seen[i] = (path, k)
        if depth < 4:
            child = ctx.create_child_context(i)
            # branch ids (0-based logical steps) of a map/parallel context with the same parent id
            for b in range(0, 3):
                bi = child._create_step_id_for_logical_step(b)
                if b == 0:
                    assert bi not in seen
                    seen[bi] = (path + (k,), "b0")
            walk(child, path + (k,), depth + 1)
walk(root, (), 0)
print("distinct ids", len(seen))
