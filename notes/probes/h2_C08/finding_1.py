"""C08 finding 1: the EXECUTION result record is written under a wall-clock identifier.

Run:  cd /tmp/wt/h2_C08 && PYTHONPATH=/tmp/wt/h2_C08/src /venv/bin/python finding_1.py

A handler whose result does not fit into the Lambda response (> 6 MB) has the result
checkpointed as an EXECUTION / SUCCEED update (execution.py: durable_execution.wrapper ->
lambda_service.py: OperationUpdate.create_execution_succeed).  The identifier of that update is
    f"execution-result-{int(now().timestamp() * 1000)}"
i.e. a function of the wall clock, not of the program structure.  The same holds for
create_execution_fail (oversized error).

Scenario (legal use, realistic): invocation 1 runs the handler to the end and checkpoints the large
result; the backend applies the update but the response of that call is lost (network error,
sandbox killed ...), so the invocation fails and Lambda delivers the same history again.
Invocation 2 replays, reaches the same point and records the *same* logical operation (the result
of this execution) under a *different* identifier: the backend now holds two result records, and
neither identifier is the one of the EXECUTION operation the history contains.
"""

from __future__ import annotations

import logging
import sys
import time

from aws_durable_execution_sdk_python.execution import (
    DurableExecutionInvocationInputWithClient,
    InitialExecutionState,
    durable_execution,
)
from aws_durable_execution_sdk_python.lambda_service import (
    CheckpointOutput,
    CheckpointUpdatedExecutionState,
    ExecutionDetails,
    Operation,
    OperationStatus,
    OperationType,
    StateOutput,
)

logging.disable(logging.CRITICAL)

EXECUTION_OP = Operation(
    operation_id="the-execution-operation",
    operation_type=OperationType.EXECUTION,
    status=OperationStatus.STARTED,
    execution_details=ExecutionDetails(input_payload="{}"),
)


class Backend:
    """Keeps every update it was handed; history = what it has applied."""

    def __init__(self):
        self.ops: dict[str, Operation] = {EXECUTION_OP.operation_id: EXECUTION_OP}
        self.execution_updates: list[tuple[int, str]] = []  # (invocation, id)
        self.invocation = 0
        self.lose_response_of_execution_update = True

    def checkpoint(self, durable_execution_arn, checkpoint_token, updates, client_token):
        lose = False
        for u in updates:
            if u.operation_type is OperationType.EXECUTION:
                self.execution_updates.append((self.invocation, u.operation_id))
                self.ops[u.operation_id] = Operation(
                    operation_id=u.operation_id,
                    operation_type=OperationType.EXECUTION,
                    status=OperationStatus.SUCCEEDED,
                )
                if self.lose_response_of_execution_update:
                    self.lose_response_of_execution_update = False
                    lose = True
            else:
                self.ops[u.operation_id] = Operation(
                    operation_id=u.operation_id,
                    operation_type=u.operation_type,
                    status=OperationStatus.SUCCEEDED,
                    parent_id=u.parent_id,
                    name=u.name,
                )
        if lose:
            msg = "connection reset - the response of the checkpoint call is lost"
            raise RuntimeError(msg)
        return CheckpointOutput(
            checkpoint_token="t",  # noqa: S106
            new_execution_state=CheckpointUpdatedExecutionState(
                operations=[self.ops[u.operation_id] for u in updates]
            ),
        )

    def get_execution_state(self, *a, **k):
        return StateOutput(operations=[], next_marker=None)

    def invocation_input(self):
        self.invocation += 1
        # history: the EXECUTION operation only (the handler below has no durable operation)
        return DurableExecutionInvocationInputWithClient(
            durable_execution_arn="arn:finding1",
            checkpoint_token="t0",  # noqa: S106
            initial_execution_state=InitialExecutionState(
                operations=[EXECUTION_OP], next_marker=""
            ),
            service_client=self,
        )


class LambdaCtx:
    aws_request_id = "r"
    invoked_function_arn = "arn:fn"
    tenant_id = None
    client_context = None
    identity = None

    def get_remaining_time_in_millis(self):
        return 100000


@durable_execution
def handler(event, ctx):
    return "x" * (7 * 1024 * 1024)  # does not fit into a Lambda response


def main() -> int:
    backend = Backend()

    # invocation 1: result recorded by the backend, response lost -> the invocation fails
    try:
        out1 = handler(backend.invocation_input(), LambdaCtx())
        print("invocation 1 returned", out1.get("Status"))
    except Exception as e:  # noqa: BLE001
        print("invocation 1 failed (Lambda retries it):", type(e).__name__, e)

    time.sleep(0.01)  # any retry is later than that

    # invocation 2: the same history is delivered again
    out2 = handler(backend.invocation_input(), LambdaCtx())
    print("invocation 2 returned", out2.get("Status"))

    ids = backend.execution_updates
    print("EXECUTION result updates seen by the backend:", ids)
    assert len(ids) == 2, f"scenario did not run as intended: {ids}"
    (inv_a, id_a), (inv_b, id_b) = ids
    assert id_a == id_b, (
        "C08 violated: the result of the execution (one position of the program: 'the end of the "
        f"handler') was recorded under {id_a!r} in invocation {inv_a} and under {id_b!r} in invocation "
        f"{inv_b}; the identifier is derived from the wall clock "
        "(lambda_service.OperationUpdate.create_execution_succeed), not from the program structure, "
        f"and it is not the identifier of the EXECUTION operation either ({EXECUTION_OP.operation_id!r})"
    )
    print("OK: identifier is stable")
    return 0


if __name__ == "__main__":
    sys.exit(main())
