"""finding_1: a map/parallel whose oversized result was replaced by a summary yields, on replay, a
different result than the one it returned (and recorded a summary of) when it completed.

Run:  PYTHONPATH=/tmp/wt/h1_C01/src /venv/bin/python /tmp/wt/h1_C01/finding_1.py

Workflow (legal public API only):

    r = ctx.map([0, 1], item_fn, config=MapConfig(completion_config=CompletionConfig(min_successful=1),
                                                   summary_generator=my_summary))
    if r.started_count:                       # an item was still running when the map completed
        ctx.step(cleanup, name="cleanup")
    ctx.wait(Duration.from_seconds(5))        # suspends -> the service re-invokes with the history
    charged = ctx.step(charge, name="charge")

Each item returns just under 256KB (so the item contexts record their full result), the BatchResult
around it is > 256KB, so the map context is completed with a summary + ReplayChildren=True.  Item 0 finishes first, the map completes (min_successful=1)
and returns [SUCCEEDED, STARTED] / MIN_SUCCESSFUL_REACHED to the program.  Item 1 finishes a moment
later - after ConcurrentExecutor built the result, but before child_handler enqueued the SUCCEED of
the map context (serialising 400KB and running the summary generator happen in between) - so its
own context SUCCEED is accepted and recorded by the backend.

On the re-invocation the map is "re-traversed": ConcurrentExecutor.replay() re-derives the statuses
from the *current* history, and the same program position now yields [SUCCEEDED, SUCCEEDED] /
ALL_COMPLETED - contradicting both what the first invocation returned and the summary that the
backend recorded for the map (successCount=1, MIN_SUCCESSFUL_REACHED).  The program then takes
another branch, operation ids shift by one, and `charge` is never executed: step "charge" is served
the record of another operation.

The interleaving is forced with threading.Events from user code (item function / summary generator)
and from the fake backend only; nothing in the SDK is patched.
"""

from __future__ import annotations

import datetime
import json
import logging
import sys
import threading
from dataclasses import replace

from aws_durable_execution_sdk_python.config import (
    CompletionConfig,
    Duration,
    MapConfig,
)
from aws_durable_execution_sdk_python.execution import (
    DurableExecutionInvocationInputWithClient,
    InitialExecutionState,
    durable_execution,
)
from aws_durable_execution_sdk_python.lambda_service import (
    CheckpointOutput,
    CheckpointUpdatedExecutionState,
    ContextDetails,
    ExecutionDetails,
    Operation,
    OperationAction,
    OperationStatus,
    OperationType,
    StateOutput,
    StepDetails,
    WaitDetails,
)
from aws_durable_execution_sdk_python.operation.map import MapSummaryGenerator

logging.disable(logging.CRITICAL)

# ----------------------------------------------------------------------------- fake backend


class Backend:
    """Records checkpoints and plays them back as history."""

    def __init__(self):
        self.lock = threading.Lock()
        self.ops: dict[str, Operation] = {
            "exec": Operation(
                "exec",
                OperationType.EXECUTION,
                OperationStatus.STARTED,
                execution_details=ExecutionDetails(input_payload="{}"),
            )
        }
        self.rejected: list[str] = []
        self.item1_recorded = threading.Event()

    def checkpoint(self, durable_execution_arn, checkpoint_token, updates, client_token):
        with self.lock:
            for u in updates:
                cur = self.ops.get(u.operation_id)
                if cur and cur.status in (OperationStatus.SUCCEEDED, OperationStatus.FAILED):
                    self.rejected.append(f"{u.action.value} {u.name}")
                    continue
                base = dict(
                    operation_id=u.operation_id,
                    operation_type=u.operation_type,
                    parent_id=u.parent_id,
                    name=u.name,
                    sub_type=u.sub_type,
                )
                if u.operation_type is OperationType.CONTEXT:
                    if u.action is OperationAction.START:
                        self.ops[u.operation_id] = Operation(status=OperationStatus.STARTED, **base)
                    elif u.action is OperationAction.SUCCEED:
                        rc = bool(u.context_options and u.context_options.replay_children)
                        self.ops[u.operation_id] = Operation(
                            status=OperationStatus.SUCCEEDED,
                            context_details=ContextDetails(replay_children=rc, result=u.payload),
                            **base,
                        )
                        if u.name == "map-item-1":
                            self.item1_recorded.set()
                    else:
                        self.ops[u.operation_id] = Operation(
                            status=OperationStatus.FAILED,
                            context_details=ContextDetails(error=u.error),
                            **base,
                        )
                elif u.operation_type is OperationType.STEP:
                    if u.action is OperationAction.START:
                        self.ops[u.operation_id] = Operation(
                            status=OperationStatus.STARTED, step_details=StepDetails(), **base
                        )
                    elif u.action is OperationAction.SUCCEED:
                        self.ops[u.operation_id] = Operation(
                            status=OperationStatus.SUCCEEDED,
                            step_details=StepDetails(attempt=1, result=u.payload),
                            **base,
                        )
                    else:
                        raise AssertionError(f"unexpected step action {u.action}")
                elif u.operation_type is OperationType.WAIT:
                    end = datetime.datetime.now(tz=datetime.UTC) + datetime.timedelta(
                        seconds=u.wait_options.wait_seconds
                    )
                    self.ops[u.operation_id] = Operation(
                        status=OperationStatus.STARTED,
                        wait_details=WaitDetails(scheduled_end_timestamp=end),
                        **base,
                    )
                else:
                    raise AssertionError(f"unexpected update {u}")
            ops = [o for o in self.ops.values() if o.operation_type is not OperationType.EXECUTION]
        return CheckpointOutput("tok", CheckpointUpdatedExecutionState(operations=ops))

    def get_execution_state(self, durable_execution_arn, checkpoint_token, next_marker, max_items=1000):
        return StateOutput(operations=[], next_marker=None)

    def fire_timers(self):
        with self.lock:
            for k, o in list(self.ops.items()):
                if o.operation_type is OperationType.WAIT and o.status is OperationStatus.STARTED:
                    self.ops[k] = replace(o, status=OperationStatus.SUCCEEDED)

    def history(self) -> list[Operation]:
        with self.lock:
            return list(self.ops.values())


BACKEND = Backend()

# ----------------------------------------------------------------------------- the workflow

ITEM_PAYLOAD = "x" * (256 * 1024 - 100)  # an item result stays below the 256KB limit, the BatchResult envelope around it does not
release_item1 = threading.Event()

observed_map_results: list[dict] = []  # what the program saw at the map's position, per invocation
user_runs = {"item0": 0, "item1": 0, "cleanup": 0, "charge": 0}
recorded_summaries: list[str] = []


def item_fn(ctx, item, index, items):
    user_runs[f"item{index}"] += 1
    if index == 1:
        # item 1 is "slow": it finishes while the parent is busy completing
        assert release_item1.wait(20), "test rig: item 1 was never released"
    return ITEM_PAYLOAD + str(index)


def my_summary(batch_result) -> str:
    """A user supplied summary generator (MapConfig.summary_generator).

    It runs on the thread that completes the map, after the BatchResult was built and before the
    SUCCEED of the map context is enqueued.  Here it just gives the slow item the time to finish
    (deterministically, instead of relying on how long serialising 400KB takes).
    """
    release_item1.set()
    assert BACKEND.item1_recorded.wait(20), "test rig: item 1 was not recorded"
    summary = MapSummaryGenerator()(batch_result)
    recorded_summaries.append(summary)
    return summary


def cleanup(step_ctx):
    user_runs["cleanup"] += 1
    return "cleaned-up"


def charge(step_ctx):
    user_runs["charge"] += 1
    return "charged"


@durable_execution
def handler(event, ctx):
    r = ctx.map(
        [0, 1],
        item_fn,
        name="the-map",
        config=MapConfig(
            completion_config=CompletionConfig(min_successful=1),
            summary_generator=my_summary,
        ),
    )
    observed_map_results.append(
        {
            "statuses": [i.status.value for i in r.all],
            "completion_reason": r.completion_reason.value,
            "success_count": r.success_count,
            "started_count": r.started_count,
        }
    )
    if r.started_count:
        ctx.step(cleanup, name="cleanup")
    ctx.wait(Duration.from_seconds(5), name="pause")
    charged = ctx.step(charge, name="charge")
    return {"charged": charged}


def invoke():
    inp = DurableExecutionInvocationInputWithClient(
        durable_execution_arn="arn:finding-1",
        checkpoint_token="tok0",
        initial_execution_state=InitialExecutionState(operations=BACKEND.history(), next_marker=""),
        service_client=BACKEND,
    )
    out: dict = {}

    def run():
        try:
            out["result"] = handler(inp, None)
        except BaseException as e:  # noqa: BLE001
            out["exc"] = e

    t = threading.Thread(target=run, daemon=True)
    t.start()
    t.join(60)
    assert not t.is_alive(), "invocation hangs"
    assert "exc" not in out, f"invocation raised {out.get('exc')!r}"
    return out["result"]


def main() -> int:
    r1 = invoke()
    assert r1["Status"] == "PENDING", r1
    map_op = next(o for o in BACKEND.history() if o.name == "the-map")
    item_ops = {o.name: o.status.value for o in BACKEND.history() if (o.name or "").startswith("map-item-")}
    print("invocation 1 -> ", r1["Status"])
    print("  program saw at the map position :", observed_map_results[0])
    print("  backend record of the map       :", map_op.status.value,
          "ReplayChildren =", map_op.context_details.replay_children,
          "summary =", (map_op.context_details.result or "")[:300])
    print("  backend records of the items    :", item_ops)
    assert map_op.status is OperationStatus.SUCCEEDED and map_op.context_details.replay_children
    assert not BACKEND.rejected, BACKEND.rejected

    BACKEND.fire_timers()  # the wait elapses; the service re-invokes with the recorded history
    r2 = invoke()
    print("invocation 2 -> ", r2)
    print("  program saw at the map position :", observed_map_results[1])
    print("  user function runs              :", user_runs)

    first, second = observed_map_results[0], observed_map_results[1]
    summary = json.loads(map_op.context_details.result)
    problems = []
    if first != second:
        problems.append(
            "C01 violated: the completed map context yields a different result on replay.\n"
            f"    returned when it completed : {first}\n"
            f"    returned on replay          : {second}\n"
            f"    recorded summary            : successCount={summary['successCount']} "
            f"completionReason={summary['completionReason']}"
        )
    if user_runs["charge"] != 1 or r2.get("Result") != json.dumps({"charged": "charged"}):
        problems.append(
            "consequence: the replay diverged - step 'charge' ran "
            f"{user_runs['charge']} time(s) and the execution finished with {r2}"
        )
    assert not problems, "\n" + "\n".join(problems)
    print("OK: replay yields the result the map returned when it completed")
    return 0


if __name__ == "__main__":
    sys.exit(main())
