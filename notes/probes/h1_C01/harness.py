"""Scratch harness: in-memory fake durable backend + multi-invocation driver + C01 oracles.

Run with PYTHONPATH=/tmp/wt/h1_C01/src
"""

from __future__ import annotations

import datetime
import json
import random
import threading
import time
import traceback
from dataclasses import replace
from typing import Any

from aws_durable_execution_sdk_python import execution as execution_mod
from aws_durable_execution_sdk_python import state as state_mod
from aws_durable_execution_sdk_python.execution import (
    DurableExecutionInvocationInputWithClient,
    InitialExecutionState,
    durable_execution,
)
from aws_durable_execution_sdk_python.lambda_service import (
    CallbackDetails,
    ChainedInvokeDetails,
    CheckpointOutput,
    CheckpointUpdatedExecutionState,
    ContextDetails,
    ErrorObject,
    ExecutionDetails,
    Operation,
    OperationAction,
    OperationStatus,
    OperationType,
    OperationUpdate,
    StateOutput,
    StepDetails,
    WaitDetails,
)
from aws_durable_execution_sdk_python.operation.child import ChildOperationExecutor
from aws_durable_execution_sdk_python.operation.step import StepOperationExecutor
from aws_durable_execution_sdk_python.operation.wait_for_condition import (
    WaitForConditionOperationExecutor,
)
from aws_durable_execution_sdk_python.state import CheckpointBatcherConfig, ExecutionState

TERMINAL = {
    OperationStatus.SUCCEEDED,
    OperationStatus.FAILED,
    OperationStatus.CANCELLED,
    OperationStatus.TIMED_OUT,
    OperationStatus.STOPPED,
}


class Crash(BaseException):
    """Simulated sandbox death."""


class BackendDown(Exception):
    pass


class Backend:
    """In-memory model of the durable backend."""

    def __init__(self, rng: random.Random | None = None, input_payload: str = "{}"):
        self.lock = threading.RLock()
        self.ops: dict[str, Operation] = {}
        self.order: list[str] = []
        self.anomalies: list[str] = []
        self.rng = rng or random.Random(0)
        self.epoch = 0
        self.cb_counter = 0
        self.log: list[tuple] = []
        self._put(
            Operation(
                operation_id="exec-0",
                operation_type=OperationType.EXECUTION,
                status=OperationStatus.STARTED,
                execution_details=ExecutionDetails(input_payload=input_payload),
            )
        )
        # external deliveries plan: op name/kind -> outcome; default success
        self.callback_plan: dict[str, tuple] = {}
        self.invoke_plan: dict[str, tuple] = {}
        self.virtual_now_offset = 0.0

    def now(self) -> datetime.datetime:
        return datetime.datetime.now(tz=datetime.UTC) + datetime.timedelta(
            seconds=self.virtual_now_offset
        )

    def _put(self, op: Operation):
        if op.operation_id not in self.ops:
            self.order.append(op.operation_id)
        self.ops[op.operation_id] = op

    def status(self, op_id: str) -> OperationStatus | None:
        with self.lock:
            op = self.ops.get(op_id)
            return op.status if op else None

    def get(self, op_id: str) -> Operation | None:
        with self.lock:
            return self.ops.get(op_id)

    # ------------------------------------------------------------------ updates
    def apply(self, u: OperationUpdate):
        with self.lock:
            self.log.append((self.epoch, u.operation_id, u.operation_type.value, u.action.value, u.name))
            cur = self.ops.get(u.operation_id)
            if cur is not None and cur.status in TERMINAL:
                self.anomalies.append(
                    f"update {u.action.value} on terminal op {u.operation_id[:8]} name={u.name} type={u.operation_type.value} status={cur.status.value}"
                )
                return
            t = u.operation_type
            a = u.action
            base = dict(
                operation_id=u.operation_id,
                operation_type=t,
                parent_id=u.parent_id,
                name=u.name,
                sub_type=u.sub_type,
            )
            if t is OperationType.EXECUTION:
                self._put(Operation(status=OperationStatus.SUCCEEDED if a is OperationAction.SUCCEED else OperationStatus.FAILED, **base))
                return
            if t is OperationType.STEP:
                attempt = cur.step_details.attempt if cur and cur.step_details else 0
                prev_result = cur.step_details.result if cur and cur.step_details else None
                if a is OperationAction.START:
                    self._put(Operation(status=OperationStatus.STARTED, step_details=StepDetails(attempt=attempt, result=prev_result), **base))
                elif a is OperationAction.SUCCEED:
                    self._put(Operation(status=OperationStatus.SUCCEEDED, step_details=StepDetails(attempt=attempt + 1, result=u.payload), **base))
                elif a is OperationAction.FAIL:
                    self._put(Operation(status=OperationStatus.FAILED, step_details=StepDetails(attempt=attempt + 1, error=u.error), **base))
                elif a is OperationAction.RETRY:
                    delay = u.step_options.next_attempt_delay_seconds if u.step_options else 1
                    if delay < 1:
                        self.anomalies.append(f"retry delay {delay} < 1 for {u.name}")
                    self._put(
                        Operation(
                            status=OperationStatus.PENDING,
                            step_details=StepDetails(
                                attempt=attempt + 1,
                                next_attempt_timestamp=self.now() + datetime.timedelta(seconds=delay),
                                result=u.payload,
                                error=u.error,
                            ),
                            **base,
                        )
                    )
                else:
                    self.anomalies.append(f"bad step action {a}")
                return
            if t is OperationType.CONTEXT:
                if a is OperationAction.START:
                    self._put(Operation(status=OperationStatus.STARTED, **base))
                elif a is OperationAction.SUCCEED:
                    rc = u.context_options.replay_children if u.context_options else False
                    self._put(Operation(status=OperationStatus.SUCCEEDED, context_details=ContextDetails(replay_children=rc, result=u.payload), **base))
                elif a is OperationAction.FAIL:
                    self._put(Operation(status=OperationStatus.FAILED, context_details=ContextDetails(error=u.error), **base))
                return
            if t is OperationType.WAIT:
                if a is OperationAction.START:
                    secs = u.wait_options.wait_seconds if u.wait_options else 1
                    self._put(Operation(status=OperationStatus.STARTED, wait_details=WaitDetails(scheduled_end_timestamp=self.now() + datetime.timedelta(seconds=secs)), **base))
                return
            if t is OperationType.CALLBACK:
                if a is OperationAction.START:
                    self.cb_counter += 1
                    self._put(Operation(status=OperationStatus.STARTED, callback_details=CallbackDetails(callback_id=f"cb-{self.cb_counter}"), **base))
                return
            if t is OperationType.CHAINED_INVOKE:
                if a is OperationAction.START:
                    self._put(Operation(status=OperationStatus.STARTED, chained_invoke_details=ChainedInvokeDetails(), **base))
                return

    # ------------------------------------------------------------------ time / external world
    def advance(self, *, all_timers: bool = True, deliver_external: bool = True):
        """Between invocations: fire timers, deliver callbacks and invokes."""
        with self.lock:
            for op_id in list(self.order):
                op = self.ops[op_id]
                if op.status in TERMINAL:
                    continue
                if op.operation_type is OperationType.STEP and op.status is OperationStatus.PENDING and all_timers:
                    self.ops[op_id] = replace(op, status=OperationStatus.READY)
                elif op.operation_type is OperationType.WAIT and op.status is OperationStatus.STARTED and all_timers:
                    self.ops[op_id] = replace(op, status=OperationStatus.SUCCEEDED)
                elif op.operation_type is OperationType.CALLBACK and op.status is OperationStatus.STARTED and deliver_external:
                    kind, val = self.callback_plan.get(op.name or "", ("ok", json.dumps(f"cbres-{op.name}")))
                    cd = op.callback_details
                    if kind == "ok":
                        self.ops[op_id] = replace(op, status=OperationStatus.SUCCEEDED, callback_details=CallbackDetails(cd.callback_id, result=val))
                    elif kind == "fail":
                        self.ops[op_id] = replace(op, status=OperationStatus.FAILED, callback_details=CallbackDetails(cd.callback_id, error=ErrorObject(val, "CbErr", None, None)))
                    elif kind == "timeout":
                        self.ops[op_id] = replace(op, status=OperationStatus.TIMED_OUT, callback_details=CallbackDetails(cd.callback_id, error=ErrorObject(val, "Callback.Timeout", None, None)))
                elif op.operation_type is OperationType.CHAINED_INVOKE and op.status is OperationStatus.STARTED and deliver_external:
                    kind, val = self.invoke_plan.get(op.name or "", ("ok", json.dumps(f"invres-{op.name}")))
                    if kind == "ok":
                        self.ops[op_id] = replace(op, status=OperationStatus.SUCCEEDED, chained_invoke_details=ChainedInvokeDetails(result=val))
                    elif kind == "fail":
                        self.ops[op_id] = replace(op, status=OperationStatus.FAILED, chained_invoke_details=ChainedInvokeDetails(error=ErrorObject(val, "InvErr", None, None)))
                    elif kind == "timeout":
                        self.ops[op_id] = replace(op, status=OperationStatus.TIMED_OUT, chained_invoke_details=ChainedInvokeDetails(error=ErrorObject(val, "ChainedInvoke.Timeout", None, None)))
                    elif kind == "stopped":
                        self.ops[op_id] = replace(op, status=OperationStatus.STOPPED, chained_invoke_details=ChainedInvokeDetails(error=ErrorObject(val, "ChainedInvoke.Stopped", None, None)))

    def fire_due_timers(self):
        """In-invocation: timers that are due by the (real) clock fire."""
        with self.lock:
            now = self.now()
            for op_id in list(self.order):
                op = self.ops[op_id]
                if op.operation_type is OperationType.STEP and op.status is OperationStatus.PENDING:
                    ts = op.step_details.next_attempt_timestamp
                    if ts and ts <= now:
                        self.ops[op_id] = replace(op, status=OperationStatus.READY)
                elif op.operation_type is OperationType.WAIT and op.status is OperationStatus.STARTED:
                    ts = op.wait_details.scheduled_end_timestamp
                    if ts and ts <= now:
                        self.ops[op_id] = replace(op, status=OperationStatus.SUCCEEDED)

    def snapshot(self) -> list[Operation]:
        with self.lock:
            return [self.ops[i] for i in self.order]


class Client:
    """DurableServiceClient bound to one invocation (epoch)."""

    def __init__(self, backend: Backend, epoch: int, *, page_size: int | None = None,
                 crash_at_call: int | None = None, crash_after_apply: bool = False,
                 response_mode: str = "all", jitter: float = 0.0, resp_page_size: int | None = None):
        self.b = backend
        self.epoch = epoch
        self.page_size = page_size
        self.resp_page_size = resp_page_size
        self.crash_at_call = crash_at_call
        self.crash_after_apply = crash_after_apply
        self.calls = 0
        self.response_mode = response_mode
        self.jitter = jitter
        self.pages: dict[str, list[Operation]] = {}
        self.page_ctr = 0
        self.dead = False

    def _check(self):
        if self.dead or self.b.epoch != self.epoch:
            raise BackendDown("stale invocation")

    def checkpoint(self, durable_execution_arn, checkpoint_token, updates, client_token):
        self._check()
        if self.jitter:
            time.sleep(self.b.rng.random() * self.jitter)
        self.calls += 1
        crash = self.crash_at_call is not None and self.calls == self.crash_at_call
        if crash and not self.crash_after_apply:
            self.dead = True
            raise BackendDown("crash before apply")
        with self.b.lock:
            self.b.fire_due_timers()
            touched = []
            for u in updates:
                self.b.apply(u)
                touched.append(u.operation_id)
            if crash:
                self.dead = True
                raise BackendDown("crash after apply")
            if self.response_mode == "all":
                ops = [o for o in self.b.snapshot() if o.operation_type is not OperationType.EXECUTION]
            else:
                ops = [self.b.ops[i] for i in dict.fromkeys(touched) if i in self.b.ops]
        first, marker = self._paginate(ops, self.resp_page_size)
        return CheckpointOutput(
            checkpoint_token=f"tok-{self.epoch}-{self.calls}",
            new_execution_state=CheckpointUpdatedExecutionState(operations=first, next_marker=marker),
        )

    def _paginate(self, ops, size):
        if not size or len(ops) <= size:
            return ops, None
        first = ops[:size]
        rest = ops[size:]
        self.page_ctr += 1
        marker = f"m{self.page_ctr}"
        self.pages[marker] = rest
        return first, marker

    def get_execution_state(self, durable_execution_arn, checkpoint_token, next_marker, max_items=1000):
        self._check()
        rest = self.pages.pop(next_marker)
        size = self.resp_page_size or self.page_size or len(rest)
        first, marker = self._paginate(rest, size)
        return StateOutput(operations=first, next_marker=marker)


class Oracle:
    """C01 oracles, driven by wrappers around the executors' execute()."""

    def __init__(self):
        self.backend: Backend | None = None
        self.violations: list[str] = []
        self.outcomes: dict[str, list[tuple]] = {}
        self.user_runs: list[tuple] = []
        self.state_epoch: dict[int, int] = {}
        self.lock = threading.Lock()

    def on_user_run(self, executor, kind: str):
        b = self.backend
        if b is None:
            return
        ep = self.state_epoch.get(id(executor.state))
        if ep is None or ep != b.epoch:
            return  # zombie thread of a dead invocation
        op_id = executor.operation_identifier.operation_id
        op = b.get(op_id)
        with self.lock:
            self.user_runs.append((b.epoch, kind, executor.operation_identifier.name, op_id[:8], op.status.value if op else None))
        if op is not None and op.status in TERMINAL:
            if kind == "child" and op.context_details and op.context_details.replay_children:
                return
            with self.lock:
                self.violations.append(
                    f"RE-EXECUTION: {kind} name={executor.operation_identifier.name} id={op_id[:8]} ran user function in invocation {b.epoch} although backend status is {op.status.value}"
                )


ORACLE = Oracle()


def _install():
    if getattr(_install, "done", False):
        return
    _install.done = True
    for cls, kind in (
        (StepOperationExecutor, "step"),
        (WaitForConditionOperationExecutor, "wfc"),
        (ChildOperationExecutor, "child"),
    ):
        orig = cls.execute

        def patched(self, cr, _orig=orig, _kind=kind):
            ORACLE.on_user_run(self, _kind)
            return _orig(self, cr)

        cls.execute = patched

    # fast batcher: legal configuration, only shortens the batching window
    orig_init = ExecutionState.__init__

    def fast_init(self, *a, **kw):
        if kw.get("batcher_config") is None and FAST["on"]:
            kw["batcher_config"] = CheckpointBatcherConfig(max_batch_time_seconds=FAST["window"])
        orig_init(self, *a, **kw)
        ORACLE.state_epoch[id(self)] = ORACLE.backend.epoch if ORACLE.backend else -1

    ExecutionState.__init__ = fast_init


FAST = {"on": True, "window": 0.01}
_install()


class Driver:
    def __init__(self, handler, backend: Backend, *, rng: random.Random | None = None):
        self.handler = durable_execution(handler)
        self.b = backend
        self.rng = rng or random.Random(0)
        self.results: list[Any] = []
        ORACLE.backend = backend

    def invoke(self, *, page_size=None, resp_page_size=None, crash_at_call=None, crash_after_apply=False,
               response_mode="all", jitter=0.0, timeout=60.0):
        self.b.epoch += 1
        client = Client(self.b, self.b.epoch, page_size=page_size, crash_at_call=crash_at_call,
                        crash_after_apply=crash_after_apply, response_mode=response_mode, jitter=jitter,
                        resp_page_size=resp_page_size)
        ops = self.b.snapshot()
        first, marker = client._paginate(ops, page_size)
        inp = DurableExecutionInvocationInputWithClient(
            durable_execution_arn="arn:test",
            checkpoint_token=f"tok-{self.b.epoch}-0",
            initial_execution_state=InitialExecutionState(operations=first, next_marker=marker or ""),
            service_client=client,
        )
        out: dict = {}

        def run():
            try:
                out["result"] = self.handler(inp, None)
            except BaseException as e:  # noqa: BLE001
                out["exc"] = e
                out["tb"] = traceback.format_exc()

        t = threading.Thread(target=run, daemon=True)
        t.start()
        t.join(timeout)
        if t.is_alive():
            client.dead = True
            out["hang"] = True
        client_calls = client.calls
        out["calls"] = client_calls
        return out

    def run_to_completion(self, *, max_invocations=30, invoke_kwargs_fn=None, advance_kwargs_fn=None):
        """Returns list of per-invocation outputs."""
        outs = []
        for i in range(max_invocations):
            kw = invoke_kwargs_fn(i) if invoke_kwargs_fn else {}
            out = self.invoke(**kw)
            outs.append(out)
            if out.get("hang"):
                break
            if "result" in out and out["result"].get("Status") in ("SUCCEEDED", "FAILED"):
                break
            akw = advance_kwargs_fn(i) if advance_kwargs_fn else {}
            self.b.advance(**akw)
        return outs
