"""C17 finding 2 - a FIRST invocation whose (empty) history arrives paginated is treated as a replay: log calls are swallowed.

Run:  cd /tmp/wt/h1_C17 && PYTHONPATH=/tmp/wt/h1_C17/src /venv/bin/python finding_2.py

execution.durable_execution() starts the ExecutionState in REPLAY mode as soon as the invocation payload carries a
NextMarker, whatever the later pages turn out to contain.  REPLAY is only left inside track_replay(), i.e. when the
first operation *exits*.  So in a first invocation (history = just the EXECUTION operation) that is delivered in more
than one page, every log call made before the first operation has finished is dropped - including the calls inside the
first, newly executed, step.  The property demands: "In a first invocation every log call is emitted" and "however
that history is paginated".

Two legal paginations of the very same one-operation history are exercised:
  A. payload: Operations=[]            NextMarker="1"   page 2: [EXECUTION]          (the SDK itself anticipates this one,
     see InitialExecutionState.get_execution_operation: "Due to payload size limitations we may have an empty operations list")
  B. payload: Operations=[EXECUTION]   NextMarker="1"   page 2: []  (a trailing marker followed by an empty last page)
and, as a control,
  C. payload: Operations=[EXECUTION]   no marker                                     -> everything is emitted.
"""

from __future__ import annotations

import sys
import threading

from aws_durable_execution_sdk_python.execution import (
    DurableExecutionInvocationInputWithClient,
    InitialExecutionState,
    durable_execution,
)
from aws_durable_execution_sdk_python.lambda_service import (
    CheckpointOutput,
    CheckpointUpdatedExecutionState,
    ExecutionDetails,
    Operation,
    OperationAction,
    OperationStatus,
    OperationType,
    StateOutput,
    StepDetails,
)

ARN = "arn:aws:lambda:eu-west-1:123456789012:durable-execution:finding-2"

EXECUTION_OP = Operation(
    operation_id="exec",
    operation_type=OperationType.EXECUTION,
    status=OperationStatus.STARTED,
    execution_details=ExecutionDetails(input_payload="{}"),
)


class Backend:
    def __init__(self, first_page, later_pages):
        self.first_page = first_page
        self.later_pages = later_pages  # marker -> (operations, next marker)
        self.lock = threading.Lock()
        self.n = 0
        self.state_calls = []

    def checkpoint(self, durable_execution_arn, checkpoint_token, updates, client_token):
        with self.lock:
            changed = []
            for u in updates:
                status = {
                    OperationAction.START: OperationStatus.STARTED,
                    OperationAction.SUCCEED: OperationStatus.SUCCEEDED,
                    OperationAction.FAIL: OperationStatus.FAILED,
                }[u.action]
                changed.append(
                    Operation(
                        operation_id=u.operation_id,
                        operation_type=u.operation_type,
                        status=status,
                        parent_id=u.parent_id,
                        name=u.name,
                        sub_type=u.sub_type,
                        step_details=StepDetails(attempt=1, result=u.payload),
                    )
                )
            self.n += 1
            return CheckpointOutput(
                checkpoint_token=f"t{self.n}",
                new_execution_state=CheckpointUpdatedExecutionState(operations=changed),
            )

    def get_execution_state(self, durable_execution_arn, checkpoint_token, next_marker, max_items=1000):
        self.state_calls.append(next_marker)
        ops, nxt = self.later_pages[next_marker]
        return StateOutput(operations=list(ops), next_marker=nxt)

    def invoke(self, handler):
        ops, marker = self.first_page
        event = DurableExecutionInvocationInputWithClient(
            durable_execution_arn=ARN,
            checkpoint_token="t0",
            initial_execution_state=InitialExecutionState(operations=list(ops), next_marker=marker),
            service_client=self,
        )
        return handler(event, None)["Status"]


class Capture:
    def __init__(self):
        self.records = []

    def _rec(self, msg, *args, extra=None):
        self.records.append((str(msg), dict(extra or {})))

    debug = info = warning = error = exception = _rec


def first_invocation(first_page, later_pages):
    capture = Capture()

    def work(step_ctx):
        step_ctx.logger.info("inside the first step")
        return 1

    @durable_execution
    def handler(event, ctx):
        ctx.set_logger(capture)
        ctx.logger.info("workflow started")
        ctx.step(work, name="first")
        ctx.logger.info("after the first step")
        ctx.step(lambda s: s.logger.info("inside the second step"), name="second")
        ctx.logger.info("workflow finished")
        return "done"

    backend = Backend(first_page, later_pages)
    status = backend.invoke(handler)
    assert status == "SUCCEEDED", status
    return [m for m, _ in capture.records], capture.records, backend.state_calls


EXPECTED = [
    "workflow started",
    "inside the first step",
    "after the first step",
    "inside the second step",
    "workflow finished",
]


def main() -> int:
    failures = []

    msgs, recs, calls = first_invocation(([EXECUTION_OP], ""), {})
    print("C control, unpaginated           :", msgs)
    assert msgs == EXPECTED, "control run broken"
    # identifiers on the records (checked here because this clause holds)
    assert all(extra.get("executionArn") == ARN for _, extra in recs)
    step_rec = dict(recs)["inside the first step"]
    assert step_rec.get("operationName") == "first" and step_rec.get("operationId") and step_rec.get("attempt") == 1

    msgs, _, calls = first_invocation(([], "1"), {"1": ([EXECUTION_OP], None)})
    print("A empty payload page + 1 more page:", msgs, " (state pages fetched:", calls, ")")
    if msgs != EXPECTED:
        failures.append(
            f"pagination A (Operations=[] + NextMarker, next page [EXECUTION]): first invocation emitted {msgs}, "
            f"swallowed {[m for m in EXPECTED if m not in msgs]}"
        )

    msgs, _, calls = first_invocation(([EXECUTION_OP], "1"), {"1": ([], None)})
    print("B trailing marker + empty page    :", msgs, " (state pages fetched:", calls, ")")
    if msgs != EXPECTED:
        failures.append(
            f"pagination B (Operations=[EXECUTION] + NextMarker, empty last page): first invocation emitted {msgs}, "
            f"swallowed {[m for m in EXPECTED if m not in msgs]}"
        )

    if failures:
        print()
        for f in failures:
            print("VIOLATION:", f)
        raise AssertionError(
            "C17 violated: in a first invocation not every log call is emitted when the initial state is paginated - "
            + failures[0]
        )
    print("no violation")
    return 0


if __name__ == "__main__":
    sys.exit(main())
