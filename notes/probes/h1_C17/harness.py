"""Exploration harness for property C17 (replay-aware context logger).

In-memory fake backend + program interpreter + oracle.  Not a deliverable by itself; the
finding_<n>.py scripts are standalone.  Run with PYTHONPATH=/tmp/wt/h1_C17/src.
"""

from __future__ import annotations

import copy
import datetime
import json
import random
import sys
import threading
from dataclasses import replace
from unittest.mock import Mock

import aws_durable_execution_sdk_python.state as state_mod
from aws_durable_execution_sdk_python.config import (
    CompletionConfig,
    Duration,
    MapConfig,
    ParallelConfig,
    StepConfig,
    StepSemantics,
)
from aws_durable_execution_sdk_python.execution import (
    DurableExecutionInvocationInputWithClient,
    InitialExecutionState,
    durable_execution,
)
from aws_durable_execution_sdk_python.lambda_service import (
    CallbackDetails,
    ChainedInvokeDetails,
    CheckpointOutput,
    CheckpointUpdatedExecutionState,
    ContextDetails,
    ExecutionDetails,
    Operation,
    OperationAction,
    OperationStatus,
    OperationType,
    StateOutput,
    StepDetails,
    WaitDetails,
)
from aws_durable_execution_sdk_python.retries import RetryDecision
from aws_durable_execution_sdk_python.waits import (
    WaitForConditionConfig,
    WaitForConditionDecision,
)

import logging
logging.disable(logging.CRITICAL)
FAST = True
if FAST:
    _Orig = state_mod.CheckpointBatcherConfig

    def _fast_cfg(*a, **k):
        k.setdefault("max_batch_time_seconds", 0.002)
        return _Orig(*a, **k)

    state_mod.CheckpointBatcherConfig = _fast_cfg  # type: ignore

COMPLETED = {
    OperationStatus.SUCCEEDED,
    OperationStatus.FAILED,
    OperationStatus.CANCELLED,
    OperationStatus.STOPPED,
    OperationStatus.TIMED_OUT,
}

ARN = "arn:aws:lambda:us-east-1:123456789012:durable-execution:test"


# ---------------------------------------------------------------- fake backend
class FakeBackend:
    def __init__(self, ops=None, page_size=None, first_page=None):
        self.lock = threading.Lock()
        self.ops: dict[str, Operation] = ops or {
            "exec-0": Operation(
                operation_id="exec-0",
                operation_type=OperationType.EXECUTION,
                status=OperationStatus.STARTED,
                execution_details=ExecutionDetails(input_payload="{}"),
            )
        }
        self.snapshots: list[dict[str, Operation]] = []
        self.page_size = page_size
        self.first_page = first_page
        self.token = 0
        self.fail_after: int | None = None  # crash simulation: raise after N checkpoint calls
        self.calls = 0

    def clone(self, ops=None):
        b = FakeBackend(copy.deepcopy(ops if ops is not None else self.ops))
        b.page_size = self.page_size
        b.first_page = self.first_page
        return b

    # -- service client API
    def checkpoint(self, durable_execution_arn, checkpoint_token, updates, client_token):
        with self.lock:
            self.calls += 1
            changed = []
            for u in updates:
                changed.append(self._apply(u))
            self.snapshots.append(copy.deepcopy(self.ops))
            self.token += 1
            return CheckpointOutput(
                checkpoint_token=f"tok-{self.token}",
                new_execution_state=CheckpointUpdatedExecutionState(
                    operations=[c for c in changed if c is not None]
                ),
            )

    def get_execution_state(self, durable_execution_arn, checkpoint_token, next_marker, max_items=1000):
        with self.lock:
            all_ops = self._pending_pages
            start = int(next_marker)
            size = self.page_size or 1000
            chunk = all_ops[start : start + size]
            nxt = start + size
            if nxt < len(all_ops):
                marker = str(nxt)
            elif self.empty_tail and chunk:
                marker = str(nxt)
            else:
                marker = None
            return StateOutput(operations=chunk, next_marker=marker)

    empty_tail = False

    # -- state machine
    def _apply(self, u):
        old = self.ops.get(u.operation_id)
        t, a = u.operation_type, u.action
        now = datetime.datetime.now(tz=datetime.UTC)
        if t is OperationType.EXECUTION:
            return None
        base = dict(
            operation_id=u.operation_id,
            operation_type=t,
            parent_id=u.parent_id,
            name=u.name,
            sub_type=u.sub_type,
        )
        if t is OperationType.STEP:
            det = old.step_details if old and old.step_details else StepDetails()
            if a is OperationAction.START:
                op = Operation(status=OperationStatus.STARTED, step_details=det, **base)
            elif a is OperationAction.RETRY:
                det = StepDetails(
                    attempt=det.attempt + 1,
                    next_attempt_timestamp=now
                    + datetime.timedelta(seconds=u.step_options.next_attempt_delay_seconds if u.step_options else 1),
                    result=u.payload,
                    error=u.error,
                )
                op = Operation(status=OperationStatus.PENDING, step_details=det, **base)
            elif a is OperationAction.SUCCEED:
                det = StepDetails(attempt=det.attempt + 1, result=u.payload)
                op = Operation(status=OperationStatus.SUCCEEDED, step_details=det, **base)
            else:
                det = StepDetails(attempt=det.attempt + 1, error=u.error)
                op = Operation(status=OperationStatus.FAILED, step_details=det, **base)
        elif t is OperationType.WAIT:
            op = Operation(
                status=OperationStatus.STARTED,
                wait_details=WaitDetails(
                    scheduled_end_timestamp=now + datetime.timedelta(seconds=u.wait_options.wait_seconds)
                ),
                **base,
            )
        elif t is OperationType.CALLBACK:
            op = Operation(
                status=OperationStatus.STARTED,
                callback_details=CallbackDetails(callback_id=f"cbid-{u.operation_id[:8]}"),
                **base,
            )
        elif t is OperationType.CHAINED_INVOKE:
            op = Operation(status=OperationStatus.STARTED, chained_invoke_details=ChainedInvokeDetails(), **base)
        elif t is OperationType.CONTEXT:
            if a is OperationAction.START:
                op = Operation(status=OperationStatus.STARTED, **base)
            elif a is OperationAction.SUCCEED:
                op = Operation(
                    status=OperationStatus.SUCCEEDED,
                    context_details=ContextDetails(
                        replay_children=bool(u.context_options and u.context_options.replay_children),
                        result=u.payload,
                    ),
                    **base,
                )
            else:
                op = Operation(
                    status=OperationStatus.FAILED,
                    context_details=ContextDetails(error=u.error),
                    **base,
                )
        else:  # pragma: no cover
            raise AssertionError(t)
        self.ops[u.operation_id] = op
        return op

    def deliverables(self):
        out = []
        for op in self.ops.values():
            if op.operation_type is OperationType.STEP and op.status is OperationStatus.PENDING:
                out.append(op.operation_id)
            elif op.status is OperationStatus.STARTED and op.operation_type in (
                OperationType.WAIT,
                OperationType.CALLBACK,
                OperationType.CHAINED_INVOKE,
            ):
                out.append(op.operation_id)
        return out

    def deliver(self, only=None):
        """Backend side progress between invocations."""
        for oid in self.deliverables():
            if only is not None and oid not in only:
                continue
            op = self.ops[oid]
            if op.operation_type is OperationType.STEP:
                self.ops[oid] = replace(op, status=OperationStatus.READY)
            elif op.operation_type is OperationType.WAIT:
                self.ops[oid] = replace(op, status=OperationStatus.SUCCEEDED)
            elif op.operation_type is OperationType.CALLBACK:
                self.ops[oid] = replace(
                    op,
                    status=OperationStatus.SUCCEEDED,
                    callback_details=CallbackDetails(
                        callback_id=op.callback_details.callback_id, result='"cbres"'
                    ),
                )
            elif op.operation_type is OperationType.CHAINED_INVOKE:
                self.ops[oid] = replace(
                    op,
                    status=OperationStatus.SUCCEEDED,
                    chained_invoke_details=ChainedInvokeDetails(result='"inv"'),
                )

    def invocation_input(self):
        ops = list(copy.deepcopy(self.ops).values())
        first = len(ops) if self.first_page is None else self.first_page
        head, tail = ops[:first], ops[first:]
        self._pending_pages = ops
        marker = ""
        if tail or self.empty_tail:
            marker = str(first)
        return DurableExecutionInvocationInputWithClient(
            durable_execution_arn=ARN,
            checkpoint_token="tok-init",
            initial_execution_state=InitialExecutionState(operations=head, next_marker=marker),
            service_client=self,
        )


# ---------------------------------------------------------------- tracing
TRACE: list[tuple] = []
TL = threading.local()
TRACE_LOCK = threading.Lock()


def tr(*ev):
    with TRACE_LOCK:
        TRACE.append(ev)


class CapLogger:
    def _cap(self, msg, *args, extra=None):
        TL.emitted = True
        TL.extra = dict(extra or {})

    debug = info = warning = error = exception = _cap


_orig_track = state_mod.ExecutionState.track_replay


def _traced_track(self, operation_id):
    _orig_track(self, operation_id)
    tr("exit", operation_id, getattr(TL, "block", None))


state_mod.ExecutionState.track_replay = _traced_track  # instrumentation only


def LOG(logger, label):
    TL.emitted = False
    TL.extra = None
    logger.info(label)
    tr("log", label, TL.emitted, TL.extra, getattr(TL, "block", None))


# ---------------------------------------------------------------- program interpreter
SIDE = {}  # side-effect counters that survive invocations (legal: they live inside steps)


def retry_n(n):
    def strat(err, attempt):
        if attempt <= n:
            return RetryDecision.retry(Duration.from_seconds(1))
        return RetryDecision.no_retry()

    return strat


def run_nodes(ctx, nodes, prefix=""):
    for node in nodes:
        kind = node[0]
        label = prefix + node[1]
        if kind == "log":
            LOG(ctx.logger, label)
        elif kind == "step":
            opts = node[2] if len(node) > 2 else {}
            fails = opts.get("fails", 0)
            fatal = opts.get("fatal", False)
            sem = opts.get("sem", StepSemantics.AT_LEAST_ONCE_PER_RETRY)

            def fn(sc, label=label, fails=fails, fatal=fatal):
                LOG(sc.logger, label + ".in")
                k = SIDE.get(label, 0)
                SIDE[label] = k + 1
                if fatal or k < fails:
                    raise RuntimeError("boom " + label)
                LOG(sc.logger, label + ".in2")
                return label

            cfg = StepConfig(retry_strategy=retry_n(fails if not fatal else 0), step_semantics=sem)
            try:
                ctx.step(fn, name=label, config=cfg)
            except Exception as e:  # noqa: BLE001
                if not fatal:
                    raise
        elif kind == "wait":
            ctx.wait(Duration.from_seconds(3600), name=label)
        elif kind == "invoke":
            ctx.invoke("fn", {"a": 1}, name=label)
        elif kind == "child":
            opts = node[3] if len(node) > 3 else {}

            def body(c, node=node, label=label, opts=opts):
                run_nodes(c, node[2], prefix)
                if opts.get("raise"):
                    raise RuntimeError("child boom")
                if opts.get("large"):
                    return "x" * (300 * 1024)
                return label

            try:
                ctx.run_in_child_context(body, name=label)
            except Exception:  # noqa: BLE001
                if not opts.get("raise"):
                    raise
        elif kind == "wfcb":

            def submitter(cbid, wctx, label=label):
                LOG(wctx.logger, label + ".submit")

            ctx.wait_for_callback(submitter, name=label)
        elif kind == "cb":
            cb = ctx.create_callback(name=label)
            run_nodes(ctx, node[2], prefix)
            cb.result()
        elif kind == "wfc":
            polls = node[2]

            def check(state, cctx, label=label):
                LOG(cctx.logger, label + ".check")
                return state + 1

            def strat(state, attempt, polls=polls):
                if state >= polls:
                    return WaitForConditionDecision.stop_polling()
                return WaitForConditionDecision.continue_waiting(Duration.from_seconds(3600))

            ctx.wait_for_condition(check, WaitForConditionConfig(wait_strategy=strat, initial_state=0), name=label)
        elif kind == "par":
            branches = node[2]
            opts = node[3] if len(node) > 3 else {}

            def mk(i, bnodes):
                def br(c):
                    TL.block = f"{label}#{i}"
                    try:
                        run_nodes(c, bnodes, prefix)
                    finally:
                        TL.block = None
                    return i

                return br

            cfg = ParallelConfig(
                max_concurrency=opts.get("mc"),
                completion_config=CompletionConfig(min_successful=opts.get("min")),
            )
            ctx.parallel([mk(i, b) for i, b in enumerate(branches)], name=label, config=cfg)
        elif kind == "map":
            n = node[2]
            tmpl = node[3]
            opts = node[4] if len(node) > 4 else {}

            def item(c, it, idx, items, label=label):
                TL.block = f"{label}#{idx}"
                try:
                    run_nodes(c, tmpl, f"{prefix}{label}[{idx}].")
                finally:
                    TL.block = None
                return idx

            cfg = MapConfig(
                max_concurrency=opts.get("mc"),
                completion_config=CompletionConfig(min_successful=opts.get("min")),
            )
            ctx.map(list(range(n)), item, name=label, config=cfg)
        else:  # pragma: no cover
            raise AssertionError(kind)


def make_handler(program):
    def handler(event, ctx):
        ctx.set_logger(CapLogger())
        run_nodes(ctx, program)
        return "done"

    return durable_execution(handler)


# ---------------------------------------------------------------- oracle
def descendants_map(ops):
    children = {}
    for op in ops.values():
        if op.parent_id:
            children.setdefault(op.parent_id, []).append(op.operation_id)

    def desc(oid):
        out, todo = set(), [oid]
        while todo:
            for c in children.get(todo.pop(), ()):
                if c not in out:
                    out.add(c)
                    todo.append(c)
        return out

    return desc


def check_trace(trace, initial_ops, final_ops, first_invocation):
    """Return list of violation strings for main-thread (outside map/parallel) log calls."""
    completed0 = {
        oid
        for oid, op in initial_ops.items()
        if op.operation_type is not OperationType.EXECUTION and op.status in COMPLETED
    }
    merged = dict(final_ops)
    merged.update({k: v for k, v in initial_ops.items() if k not in merged})
    desc = descendants_map(merged)
    problems = []
    main = [e for e in trace if (e[-1] is None)]
    # positions of later main-thread exits covering a completed0 op
    covers = []
    passed = set()
    for e in main:
        if e[0] == "exit":
            newly = ({e[1]} | desc(e[1])) - passed
            passed |= newly
            covers.append(bool(newly & completed0))
        else:
            covers.append(False)
    # suffix "any cover after i"
    later = [False] * (len(main) + 1)
    for i in range(len(main) - 1, -1, -1):
        later[i] = later[i + 1] or covers[i]
    for i, e in enumerate(main):
        if e[0] != "log":
            continue
        _, label, emitted, extra, _ = e
        must_be_silent = later[i + 1] and not first_invocation
        if must_be_silent and emitted:
            problems.append(f"EMITTED-BUT-REPLAYED {label}")
        if not must_be_silent and not emitted:
            problems.append(f"MUTED-BUT-NEW {label}")
        if emitted and (not extra or extra.get("executionArn") != ARN):
            problems.append(f"NO-ARN {label} {extra}")
    # informational: in-block anomalies (per-branch sequential view)
    info = []
    blocks = {e[-1] for e in trace if e[-1] is not None}
    for b in blocks:
        seq = [e for e in trace if e[-1] == b]
        for i, e in enumerate(seq):
            if e[0] != "log":
                continue
            seen_before = set()
            for x in seq[: i + 1]:
                if x[0] == "exit":
                    seen_before |= {x[1]} | desc(x[1])
            later_cov = any(
                x[0] == "exit" and ((({x[1]} | desc(x[1])) - seen_before) & completed0) for x in seq[i + 1 :]
            )
            if not later_cov and not e[2]:
                info.append(f"in-block MUTED {e[1]}")
            if later_cov and e[2] and not first_invocation:
                info.append(f"in-block EMITTED-REPLAYED {e[1]}")
    return problems, info


class LambdaCtx:
    aws_request_id = "rid"

    def get_remaining_time_in_millis(self):
        return 100000

    def log(self, msg):
        pass


def invoke_once(program, backend, timeout=30):
    """Run one invocation; returns (status, trace, initial_ops)."""
    TRACE.clear()
    initial = copy.deepcopy(backend.ops)
    handler = make_handler(program)
    inp = backend.invocation_input()
    res = {}

    def run():
        try:
            res["out"] = handler(inp, LambdaCtx())
        except BaseException as e:  # noqa: BLE001
            res["err"] = e

    t = threading.Thread(target=run, daemon=True)
    t.start()
    t.join(timeout)
    if t.is_alive():
        return "HANG", list(TRACE), initial
    if "err" in res:
        return f"RAISED {res['err']!r}", list(TRACE), initial
    return res["out"]["Status"], list(TRACE), initial


def drive(program, *, page_size=None, first_page=None, fork_crashes=True, partial=False, rng=None, verbose=False, max_inv=40, empty_tail=False):
    """Run a whole multi-invocation workflow, checking the oracle at each invocation.
    Returns list of (description, problems, info)."""
    SIDE.clear()
    backend = FakeBackend(page_size=page_size, first_page=first_page)
    backend.empty_tail = empty_tail
    findings = []
    n = 0
    while n < max_inv:
        n += 1
        first = len(backend.ops) == 1
        side_before = dict(SIDE)
        status, trace, initial = invoke_once(program, backend)
        problems, info = check_trace(trace, initial, backend.ops, first)
        if verbose:
            print(f"inv {n}: {status}; hist={[ (o.name, o.status.value) for o in initial.values()]}")
            for e in trace:
                print("    ", e)
        if problems or info:
            findings.append((f"inv {n} status={status} hist={[(o.name, o.status.value) for o in initial.values() if o.operation_type is not OperationType.EXECUTION]}", problems, info))
        snaps = backend.snapshots
        backend.snapshots = []
        if fork_crashes:
            side_after = dict(SIDE)
            for si, snap in enumerate(snaps[:-1]):
                for do_deliver in (False, True):
                    fb = backend.clone(snap)
                    fb.empty_tail = empty_tail
                    if do_deliver:
                        fb.deliver()
                    if len(fb.ops) == 1:
                        continue
                    # side counters: approximate with the state at end of the invocation
                    st, tr2, init2 = invoke_once(program, fb)
                    p2, i2 = check_trace(tr2, init2, fb.ops, False)
                    if p2 or i2:
                        findings.append((f"inv {n} crash-after-checkpoint#{si} deliver={do_deliver} status={st} hist={[(o.name, o.status.value) for o in init2.values() if o.operation_type is not OperationType.EXECUTION]}", p2, i2))
                    SIDE.clear()
                    SIDE.update(side_after)
        if status != "PENDING":
            break
        d = backend.deliverables()
        if not d:
            findings.append((f"inv {n}: PENDING with nothing deliverable", ["STUCK"], []))
            break
        if partial and rng is not None:
            backend.deliver(only={rng.choice(d)})
        else:
            backend.deliver()
    return findings


# ---------------------------------------------------------------- random programs
def gen_program(rng, depth=0, counter=None, in_block=False):
    counter = counter if counter is not None else [0]

    def nxt(p):
        counter[0] += 1
        return f"{p}{counter[0]}"

    nodes = []
    for _ in range(rng.randint(1, 4 if depth else 5)):
        nodes.append(("log", nxt("L")))
        r = rng.random()
        if r < 0.25:
            nodes.append(("step", nxt("S"), {"fails": rng.choice([0, 0, 0, 1, 2]), "fatal": rng.random() < 0.1,
                                             "sem": rng.choice(list(StepSemantics))}))
        elif r < 0.37:
            nodes.append(("wait", nxt("W")))
        elif r < 0.45:
            nodes.append(("invoke", nxt("I")))
        elif r < 0.53:
            nodes.append(("wfcb", nxt("WC")))
        elif r < 0.60:
            nodes.append(("wfc", nxt("P"), rng.randint(1, 3)))
        elif r < 0.68 and depth < 2:
            nodes.append(("cb", nxt("CB"), gen_program(rng, depth + 1, counter, in_block)))
        elif r < 0.80 and depth < 3:
            nodes.append(("child", nxt("C"), gen_program(rng, depth + 1, counter, in_block),
                          {"raise": rng.random() < 0.15, "large": rng.random() < 0.15}))
        elif r < 0.90 and depth < 2:
            nb = rng.randint(1, 3)
            nodes.append(("par", nxt("PAR"), [gen_program(rng, depth + 1, counter, True) for _ in range(nb)],
                          {"mc": rng.choice([None, 1, 2]), "min": rng.choice([None, None, 1])}))
        elif depth < 2:
            nodes.append(("map", nxt("M"), rng.randint(1, 3), gen_program(rng, depth + 1, counter, True),
                          {"mc": rng.choice([None, 1, 2]), "min": rng.choice([None, None, 1])}))
        else:
            nodes.append(("step", nxt("S"), {}))
    nodes.append(("log", nxt("L")))
    return nodes


if __name__ == "__main__":
    seed0 = int(sys.argv[1]) if len(sys.argv) > 1 else 0
    count = int(sys.argv[2]) if len(sys.argv) > 2 else 20
    for seed in range(seed0, seed0 + count):
        rng = random.Random(seed)
        prog = gen_program(rng)
        page = rng.choice([None, 1, 2, 5])
        first = rng.choice([None, 0, 1, 2, 3])
        f = drive(prog, page_size=page, first_page=first, partial=rng.random() < 0.5, rng=rng,
                  fork_crashes=rng.random() < 0.5)
        tag = "OK " if not any(p for _, p, _ in f) else "BAD"
        print(f"seed {seed} {tag} page={page} first={first}")
        for d, p, i in f:
            if p:
                print("   ", d)
                for x in p:
                    print("        ", x)
            elif i:
                print("   (info)", d, i[:4])
