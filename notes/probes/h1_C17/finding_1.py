"""C17 finding 1 - the context logger stays muted in a re-invocation whose history holds no completed operation.

Run:  cd /tmp/wt/h1_C17 && PYTHONPATH=/tmp/wt/h1_C17/src /venv/bin/python finding_1.py

Workflow (legal use of the public API, no crash needed, two ordinary invocations):

    handler:  ctx.step(flaky)          # first operation of the workflow; flaky fails on attempt 1, is retried
              ctx.logger.info("after the step")

  invocation 1 (fresh): attempt 1 runs and logs, fails, the SDK checkpoints RETRY and suspends (PENDING).
  backend             : the retry timer fires, the step becomes READY.
  invocation 2        : history = [EXECUTION, STEP(READY)] - nothing in it is completed.  Attempt 2 is a newly executed
                        step body.  The property says that a log call is only swallowed when it precedes an operation
                        that had completed before the invocation began, and that calls inside newly executed steps are
                        emitted.  There is no completed operation at all, yet every log call of attempt 2 is swallowed.

The same happens for wait_for_condition as first operation (every poll after the first one is mute) - second half of the script.
A control run (identical workflow, but one completed step in front of it) shows that the records *are* emitted there.
"""

from __future__ import annotations

import datetime
import sys
import threading
from dataclasses import replace

from aws_durable_execution_sdk_python.config import Duration, StepConfig
from aws_durable_execution_sdk_python.execution import (
    DurableExecutionInvocationInputWithClient,
    InitialExecutionState,
    durable_execution,
)
from aws_durable_execution_sdk_python.lambda_service import (
    CheckpointOutput,
    CheckpointUpdatedExecutionState,
    ExecutionDetails,
    Operation,
    OperationAction,
    OperationStatus,
    OperationType,
    StateOutput,
    StepDetails,
)
from aws_durable_execution_sdk_python.retries import RetryDecision
from aws_durable_execution_sdk_python.waits import (
    WaitForConditionConfig,
    WaitForConditionDecision,
)

ARN = "arn:aws:lambda:eu-west-1:123456789012:durable-execution:finding-1"


class Backend:
    """Minimal in-memory durable-execution backend: records checkpoints, plays them back as history."""

    def __init__(self):
        self.ops: dict[str, Operation] = {
            "exec": Operation(
                operation_id="exec",
                operation_type=OperationType.EXECUTION,
                status=OperationStatus.STARTED,
                execution_details=ExecutionDetails(input_payload="{}"),
            )
        }
        self.lock = threading.Lock()
        self.n = 0

    def checkpoint(self, durable_execution_arn, checkpoint_token, updates, client_token):
        with self.lock:
            changed = []
            for u in updates:
                assert u.operation_type is OperationType.STEP, u  # only steps are used in this script
                old = self.ops.get(u.operation_id)
                det = old.step_details if old and old.step_details else StepDetails()
                if u.action is OperationAction.START:
                    status = OperationStatus.STARTED
                elif u.action is OperationAction.RETRY:
                    status = OperationStatus.PENDING
                    det = StepDetails(
                        attempt=det.attempt + 1,
                        next_attempt_timestamp=datetime.datetime.now(tz=datetime.UTC)
                        + datetime.timedelta(seconds=1),
                        result=u.payload,
                        error=u.error,
                    )
                elif u.action is OperationAction.SUCCEED:
                    status = OperationStatus.SUCCEEDED
                    det = StepDetails(attempt=det.attempt + 1, result=u.payload)
                else:
                    status = OperationStatus.FAILED
                    det = StepDetails(attempt=det.attempt + 1, error=u.error)
                op = Operation(
                    operation_id=u.operation_id,
                    operation_type=u.operation_type,
                    status=status,
                    parent_id=u.parent_id,
                    name=u.name,
                    sub_type=u.sub_type,
                    step_details=det,
                )
                self.ops[u.operation_id] = op
                changed.append(op)
            self.n += 1
            return CheckpointOutput(
                checkpoint_token=f"t{self.n}",
                new_execution_state=CheckpointUpdatedExecutionState(operations=changed),
            )

    def get_execution_state(self, durable_execution_arn, checkpoint_token, next_marker, max_items=1000):
        return StateOutput(operations=[], next_marker=None)

    def retry_timers_fire(self):
        for oid, op in list(self.ops.items()):
            if op.status is OperationStatus.PENDING:
                self.ops[oid] = replace(op, status=OperationStatus.READY)

    def history(self):
        return [(o.name, o.operation_type.value, o.status.value) for o in self.ops.values()]

    def invoke(self, handler):
        event = DurableExecutionInvocationInputWithClient(
            durable_execution_arn=ARN,
            checkpoint_token="t0",
            initial_execution_state=InitialExecutionState(operations=list(self.ops.values()), next_marker=""),
            service_client=self,
        )
        return handler(event, None)["Status"]


class Capture:
    """A LoggerInterface that remembers what reached it."""

    def __init__(self):
        self.records: list[tuple[str, dict]] = []

    def _rec(self, msg, *args, extra=None):
        self.records.append((str(msg), dict(extra or {})))

    debug = info = warning = error = exception = _rec

    def messages(self):
        return [m for m, _ in self.records]


def retry_once(error, attempt):
    return RetryDecision.retry(Duration.from_seconds(1)) if attempt <= 1 else RetryDecision.no_retry()


def run_step_retry(with_completed_step_in_front: bool):
    calls = {"flaky": 0}
    capture = Capture()

    def flaky(step_ctx):
        calls["flaky"] += 1
        step_ctx.logger.info(f"flaky: attempt {calls['flaky']} starts")
        if calls["flaky"] == 1:
            raise RuntimeError("transient")
        step_ctx.logger.info(f"flaky: attempt {calls['flaky']} done")
        return "ok"

    @durable_execution
    def handler(event, ctx):
        ctx.set_logger(capture)
        if with_completed_step_in_front:
            ctx.step(lambda s: "warm", name="warmup")
        ctx.step(flaky, name="flaky", config=StepConfig(retry_strategy=retry_once))
        ctx.logger.info("after the step")
        return "done"

    backend = Backend()
    assert backend.invoke(handler) == "PENDING"
    inv1 = capture.messages()
    backend.retry_timers_fire()
    hist = backend.history()
    capture.records.clear()
    status = backend.invoke(handler)
    return inv1, hist, status, list(capture.records)


def run_wait_for_condition():
    capture = Capture()

    def check(state, check_ctx):
        check_ctx.logger.info(f"poll: state={state}")
        return state + 1

    def strategy(state, attempt):
        if state >= 3:
            return WaitForConditionDecision.stop_polling()
        return WaitForConditionDecision.continue_waiting(Duration.from_seconds(1))

    @durable_execution
    def handler(event, ctx):
        ctx.set_logger(capture)
        ctx.wait_for_condition(check, WaitForConditionConfig(wait_strategy=strategy, initial_state=0), name="poll")
        ctx.logger.info("condition met")
        return "done"

    backend = Backend()
    per_invocation = []
    for _ in range(5):
        capture.records.clear()
        hist = backend.history()
        status = backend.invoke(handler)
        per_invocation.append((hist, status, capture.messages()))
        if status != "PENDING":
            break
        backend.retry_timers_fire()
    return per_invocation


def main() -> int:
    failures = []

    # control: a completed step in front -> attempt 2 is audible
    inv1, hist, status, recs = run_step_retry(with_completed_step_in_front=True)
    print("control   history of invocation 2:", hist)
    print("control   invocation 2 emitted   :", [m for m, _ in recs])
    assert status == "SUCCEEDED"
    assert "flaky: attempt 2 starts" in [m for m, _ in recs], "control run broken"

    # the finding: identical workflow without a completed operation in the history
    inv1, hist, status, recs = run_step_retry(with_completed_step_in_front=False)
    print("finding   invocation 1 emitted   :", inv1)
    print("finding   history of invocation 2:", hist)
    print("finding   invocation 2 emitted   :", [m for m, _ in recs])
    assert status == "SUCCEEDED"
    assert inv1 == ["flaky: attempt 1 starts"]
    assert all(s not in ("SUCCEEDED", "FAILED") for _, t, s in hist if t != "EXECUTION"), hist
    msgs = [m for m, _ in recs]
    if "flaky: attempt 2 starts" not in msgs or "flaky: attempt 2 done" not in msgs:
        failures.append(
            "step retry: the history of invocation 2 holds no completed operation, yet the log calls inside the newly "
            f"executed attempt 2 of the step were swallowed (emitted only: {msgs})"
        )

    # same root cause, wait_for_condition as first operation: every poll after the first is mute
    polls = run_wait_for_condition()
    for i, (hist, status, msgs) in enumerate(polls, start=1):
        print(f"wfc       invocation {i}: history={hist} status={status} emitted={msgs}")
    for i, (hist, status, msgs) in enumerate(polls, start=1):
        expected = f"poll: state={i - 1}"
        if expected not in msgs:
            failures.append(
                f"wait_for_condition: invocation {i} ran the check function (a newly executed attempt, history {hist} "
                f"holds no completed operation) but its log call {expected!r} was swallowed"
            )

    if failures:
        print()
        for f in failures:
            print("VIOLATION:", f)
        raise AssertionError(
            "C17 violated: log calls made after the last completed operation of the history (there is none) "
            "are not emitted - " + failures[0]
        )
    print("no violation")
    return 0


if __name__ == "__main__":
    sys.exit(main())
