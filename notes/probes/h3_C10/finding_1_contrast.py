"""Contrast for finding 1: same workflow, but branch c goes on while P's completion record is handed over and NOT yet
acknowledged (P still recorded STARTED in the operation map): then the branch IS stopped at s2."""
import time
import finding_1 as f
from aws_durable_execution_sdk_python.lambda_service import OperationAction
from aws_durable_execution_sdk_python.state import ExecutionState

orig_enqueue = ExecutionState._enqueue_checkpoint
def enq(self, update, is_sync):
    ev = orig_enqueue(self, update, is_sync)
    if update is not None and update.name == "P" and update.action is OperationAction.SUCCEED:
        f.P_DONE.set()
    return ev
ExecutionState._enqueue_checkpoint = enq
_orig_backend = f.harness.FakeBackend
class Slow(_orig_backend):
    def checkpoint(self, durable_execution_arn, checkpoint_token, updates, client_token):
        if any(u.name == "P" and u.action is OperationAction.SUCCEED for u in updates):
            time.sleep(1.5)
        return super().checkpoint(durable_execution_arn, checkpoint_token, updates, client_token)
f.harness.FakeBackend = Slow
try:
    f.main()
except AssertionError as e:
    print("ASSERT", str(e)[:200])
print(f.TRACE)
