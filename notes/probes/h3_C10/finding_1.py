"""C10 finding 1 - a surviving branch whose own record is SUCCEEDED (ReplayChildren) is never stopped.

Workflow (legal public API only, no crash needed):

    P = ctx.parallel([a, b, c], config=ParallelConfig(completion_config=CompletionConfig(min_successful=2)))
      a, b : ctx.wait(1 s) ; ctx.step(...)
      c    : ctx.step(s1) ; ctx.step(s2) ; ctx.run_in_child_context(D -> big result) ; returns a big result (> 256 KB)

Invocation 1: c finishes (its record: SUCCEEDED, ReplayChildren=true), a and b park on their waits, the
              invocation answers PENDING.
Invocation 2: (history as recorded by invocation 1) P is executed again. a and b pass their waits and succeed, so
              P reaches min_successful=2 and is handed - and acknowledged - its completion record, while branch c
              is still re-traversing its summarised body (slow user code between s1 and s2).

Expected (C10): branch c - P's result reports it as STARTED, i.e. it is a surviving, orphaned branch - is
stopped at its next durable operation (s2); in particular the body of child context D must not run again.
Actual: ExecutionState.raise_if_in_orphaned_branch() walks from s2 upwards over every context that is recorded
SUCCEEDED: branch c (SUCCEEDED from history) and P (SUCCEEDED since its completion record was merged into the
operation map) - reaches the root and returns. Branch c is never stopped: s2 is entered, the user code after it
runs, and the body of D (user code of a durable operation) runs again.

Exits non-zero (AssertionError) on the current code.
"""

from __future__ import annotations

import logging
import threading
import time

import harness
from aws_durable_execution_sdk_python.config import (
    CompletionConfig,
    Duration,
    ParallelConfig,
)
from aws_durable_execution_sdk_python.lambda_service import (
    OperationAction,
    OperationStatus,
)
from aws_durable_execution_sdk_python.state import ExecutionState

logging.disable(logging.CRITICAL)

BIG = "x" * (300 * 1024)

# --- observation only: learn when P's completion record has been handed over and acknowledged
P_DONE = threading.Event()
_orig_create = ExecutionState.create_checkpoint


def _create(self, operation_update=None, is_sync=True):
    r = _orig_create(self, operation_update, is_sync)
    if (
        operation_update is not None
        and operation_update.name == "P"
        and operation_update.action in (OperationAction.SUCCEED, OperationAction.FAIL)
    ):
        P_DONE.set()
    return r


ExecutionState.create_checkpoint = _create

INVOCATION = {"n": 0}
TRACE: list[str] = []
C_ENDED = threading.Event()


def a(c):
    c.wait(Duration.from_seconds(1), name="wait-a")
    return c.step(lambda sc: "a", name="step-a")


def b(c):
    c.wait(Duration.from_seconds(1), name="wait-b")
    return c.step(lambda sc: "b", name="step-b")


def branch_c(c):
    inv = INVOCATION["n"]
    try:
        c.step(lambda sc: "s1", name="s1")
        if inv == 2:
            # slow user code between two operations: P completes in the meantime
            assert P_DONE.wait(20), "scenario broken: P never completed in invocation 2"
            time.sleep(0.2)
            TRACE.append("c: P has completed, going on to s2")
        c.step(lambda sc: "s2", name="s2")
        if inv == 2:
            TRACE.append("c: s2 was entered and answered - branch not stopped")

        def d_body(cc):
            if inv == 2:
                TRACE.append("c: body of child context D ran again")
            return BIG + cc.step(lambda sc: "d1", name="d1")

        c.run_in_child_context(d_body, name="D")
        if inv == 2:
            TRACE.append("c: passed D, branch function ran to its end")
        return BIG
    except BaseException as e:  # noqa: BLE001
        if inv == 2:
            TRACE.append(f"c: stopped by {type(e).__name__}")
        raise
    finally:
        if inv == 2:
            C_ENDED.set()


def handler(event, ctx):
    r = ctx.parallel(
        [a, b, branch_c],
        name="P",
        config=ParallelConfig(completion_config=CompletionConfig(min_successful=2)),
    )
    return {"succeeded": r.success_count, "started": r.started_count}


def main():
    backend = harness.FakeBackend()

    INVOCATION["n"] = 1
    box1 = backend.invoke(handler, timeout=30)
    assert box1.get("out", {}).get("Status") == "PENDING", f"invocation 1: {box1}"
    by_name = {op.name: op for op in backend.ops.values()}
    c_rec = by_name["parallel-branch-2"]
    assert c_rec.status is OperationStatus.SUCCEEDED and c_rec.context_details.replay_children, c_rec
    assert by_name["P"].status is OperationStatus.STARTED

    time.sleep(1.1)  # the waits of a and b elapse

    INVOCATION["n"] = 2
    box2 = backend.invoke(handler, timeout=40)
    assert C_ENDED.wait(25), "branch c never ended"
    time.sleep(0.3)
    print("invocation 2 answered:", box2.get("out") or box2)
    print("trace of branch c in invocation 2:")
    for t in TRACE:
        print("   ", t)
    print("backend-side violations (clause 1):", backend.violations)

    assert box2.get("out", {}).get("Status") == "SUCCEEDED", box2
    assert '"started": 1' in box2["out"]["Result"], (
        "scenario broken: P was expected to report branch c as STARTED (surviving branch)"
    )
    assert not backend.violations, backend.violations  # clause 1 holds (nothing reaches the backend)
    assert "c: P has completed, going on to s2" in TRACE
    stopped = [t for t in TRACE if t.startswith("c: stopped by OrphanedChildException")]
    ran_on = [t for t in TRACE if "not stopped" in t or "ran again" in t or "ran to its end" in t]
    assert stopped and not ran_on, (
        "C10 violated: after parallel P had been handed (and acknowledged) its completion record, its surviving "
        "branch c was NOT stopped at its next durable operation; it went on through: " + "; ".join(ran_on)
    )
    print("OK: branch c was stopped at its next durable operation")


if __name__ == "__main__":
    main()
