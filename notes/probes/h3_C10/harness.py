"""In-memory backend + invocation driver + C10 monitors (scratch, used by finding_*.py and fuzz.py)."""

from __future__ import annotations

import dataclasses
import datetime
import threading
import time
import uuid
from types import SimpleNamespace

from aws_durable_execution_sdk_python.execution import (
    DurableExecutionInvocationInputWithClient,
    InitialExecutionState,
    durable_execution,
)
from aws_durable_execution_sdk_python.lambda_service import (
    CallbackDetails,
    ChainedInvokeDetails,
    CheckpointOutput,
    CheckpointUpdatedExecutionState,
    ContextDetails,
    ExecutionDetails,
    Operation,
    OperationAction,
    OperationStatus,
    OperationType,
    StateOutput,
    StepDetails,
    WaitDetails,
)

TERMINAL = {
    OperationStatus.SUCCEEDED,
    OperationStatus.FAILED,
    OperationStatus.CANCELLED,
    OperationStatus.STOPPED,
    OperationStatus.TIMED_OUT,
}


def now():
    return datetime.datetime.now(tz=datetime.UTC)


class FakeBackend:
    """Records checkpoints, plays them back as history, and checks clause 1 of C10 online."""

    def __init__(self, input_payload: str = "{}", page_size: int | None = None):
        self.lock = threading.Lock()
        self.ops: dict[str, Operation] = {}
        self.order: list[str] = []
        self.log: list[tuple[int, int, object]] = []  # (call_no, invocation_no, update)
        self.violations: list[str] = []
        self.calls = 0
        self.invocation_no = 0
        self.page_size = page_size
        self.pages: dict[str, list[Operation]] = {}
        self.checkpoint_hook = None  # called(updates) before applying
        self.token_epoch = {}
        self.dead_epochs = set()
        self.crash_at = None
        self.crash_applies = False
        self.ops["exec"] = Operation(
            operation_id="exec",
            operation_type=OperationType.EXECUTION,
            status=OperationStatus.STARTED,
            execution_details=ExecutionDetails(input_payload=input_payload),
        )
        self.order.append("exec")

    @staticmethod
    def crash_error():
        from aws_durable_execution_sdk_python.exceptions import (
            CheckpointError,
            CheckpointErrorCategory,
        )

        return CheckpointError("simulated crash", CheckpointErrorCategory.EXECUTION)

    # -- helpers
    def ancestors(self, parent_id):
        out = []
        seen = set()
        cur = parent_id
        while cur and cur not in seen:
            seen.add(cur)
            out.append(cur)
            op = self.ops.get(cur)
            cur = op.parent_id if op else None
        return out

    def _set(self, op: Operation):
        if op.operation_id not in self.ops:
            self.order.append(op.operation_id)
        self.ops[op.operation_id] = op

    def deliver_timers(self):
        """Backend side: elapsed waits succeed, elapsed retries become READY."""
        changed = []
        t = now()
        for oid in list(self.order):
            op = self.ops[oid]
            if (
                op.operation_type is OperationType.WAIT
                and op.status is OperationStatus.STARTED
                and op.wait_details
                and op.wait_details.scheduled_end_timestamp <= t
            ):
                op = dataclasses.replace(op, status=OperationStatus.SUCCEEDED)
                self.ops[oid] = op
                changed.append(op)
            elif (
                op.operation_type is OperationType.STEP
                and op.status is OperationStatus.PENDING
                and op.step_details
                and op.step_details.next_attempt_timestamp
                and op.step_details.next_attempt_timestamp <= t
            ):
                op = dataclasses.replace(op, status=OperationStatus.READY)
                self.ops[oid] = op
                changed.append(op)
        return changed

    def complete_callback(self, callback_id: str, result: str = '"cb"'):
        with self.lock:
            for oid, op in self.ops.items():
                if (
                    op.operation_type is OperationType.CALLBACK
                    and op.callback_details
                    and op.callback_details.callback_id == callback_id
                    and op.status is OperationStatus.STARTED
                ):
                    self.ops[oid] = dataclasses.replace(
                        op,
                        status=OperationStatus.SUCCEEDED,
                        callback_details=CallbackDetails(
                            callback_id=callback_id, result=result
                        ),
                    )
                    return True
        return False

    def complete_all_callbacks(self):
        with self.lock:
            ids = [
                op.callback_details.callback_id
                for op in self.ops.values()
                if op.operation_type is OperationType.CALLBACK
                and op.status is OperationStatus.STARTED
            ]
        for i in ids:
            self.complete_callback(i)
        return ids

    def complete_all_invokes(self, result: str = '"inv"'):
        with self.lock:
            for oid, op in list(self.ops.items()):
                if (
                    op.operation_type is OperationType.CHAINED_INVOKE
                    and op.status is OperationStatus.STARTED
                ):
                    self.ops[oid] = dataclasses.replace(
                        op,
                        status=OperationStatus.SUCCEEDED,
                        chained_invoke_details=ChainedInvokeDetails(result=result),
                    )

    # -- service client protocol
    def checkpoint(self, durable_execution_arn, checkpoint_token, updates, client_token):
        if self.checkpoint_hook:
            self.checkpoint_hook(updates)
        # crash simulation: the process of a crashed invocation is gone, its calls never arrive
        inv = int(checkpoint_token.split("-")[1]) if checkpoint_token.startswith("inv-") else None
        with self.lock:
            if inv is not None:
                self.token_epoch[checkpoint_token] = inv
            epoch = self.token_epoch.get(checkpoint_token)
            if epoch in self.dead_epochs:
                raise self.crash_error()
            if self.crash_at is not None and self.calls + 1 >= self.crash_at:
                self.crash_at = None
                self.dead_epochs.add(epoch)
                if not self.crash_applies:
                    raise self.crash_error()
                crash_after = True
            else:
                crash_after = False
            self.calls += 1
            changed: dict[str, Operation] = {}
            for u in updates:
                self.log.append((self.calls, self.invocation_no, u))
                # ---- clause 1: nothing is recorded under a completed context
                for anc in self.ancestors(u.parent_id):
                    a = self.ops.get(anc)
                    if (
                        a is not None
                        and a.operation_type is OperationType.CONTEXT
                        and a.status in TERMINAL
                    ):
                        self.violations.append(
                            f"update {u.action.value} {u.operation_type.value} "
                            f"name={u.name} id={u.operation_id[:8]} recorded under "
                            f"context {a.name}/{anc[:8]} which is already {a.status.value}"
                        )
                        break
                old = self.ops.get(u.operation_id)
                if old is not None and old.status in TERMINAL:
                    self.violations.append(
                        f"update {u.action.value} for terminal operation {u.name} {u.operation_id[:8]}"
                    )
                op = self._apply(old, u)
                self._set(op)
                changed[op.operation_id] = op
            for op in self.deliver_timers():
                changed[op.operation_id] = op
            # also hand back anything that was completed externally (callbacks, invokes)
            for oid, op in self.ops.items():
                if op.operation_type in (
                    OperationType.CALLBACK,
                    OperationType.CHAINED_INVOKE,
                ):
                    changed.setdefault(oid, op)
            self.token_epoch[f"tok-{self.calls}"] = epoch
            if crash_after:
                raise self.crash_error()
            return CheckpointOutput(
                checkpoint_token=f"tok-{self.calls}",
                new_execution_state=CheckpointUpdatedExecutionState(
                    operations=list(changed.values()), next_marker=None
                ),
            )

    def _apply(self, old: Operation | None, u) -> Operation:
        base = dict(
            operation_id=u.operation_id,
            operation_type=u.operation_type,
            parent_id=u.parent_id,
            name=u.name,
            sub_type=u.sub_type,
        )
        t = u.operation_type
        a = u.action
        if t is OperationType.CONTEXT:
            if a is OperationAction.START:
                return Operation(status=OperationStatus.STARTED, **base)
            if a is OperationAction.SUCCEED:
                rc = bool(u.context_options and u.context_options.replay_children)
                return Operation(
                    status=OperationStatus.SUCCEEDED,
                    context_details=ContextDetails(replay_children=rc, result=u.payload),
                    **base,
                )
            return Operation(
                status=OperationStatus.FAILED,
                context_details=ContextDetails(error=u.error),
                **base,
            )
        if t is OperationType.STEP:
            attempt = old.step_details.attempt if old and old.step_details else 0
            if a is OperationAction.START:
                return Operation(
                    status=OperationStatus.STARTED,
                    step_details=StepDetails(
                        attempt=attempt,
                        result=old.step_details.result
                        if old and old.step_details
                        else None,
                    ),
                    **base,
                )
            if a is OperationAction.SUCCEED:
                return Operation(
                    status=OperationStatus.SUCCEEDED,
                    step_details=StepDetails(attempt=attempt + 1, result=u.payload),
                    **base,
                )
            if a is OperationAction.FAIL:
                return Operation(
                    status=OperationStatus.FAILED,
                    step_details=StepDetails(attempt=attempt + 1, error=u.error),
                    **base,
                )
            if a is OperationAction.RETRY:
                delay = (
                    u.step_options.next_attempt_delay_seconds if u.step_options else 1
                )
                return Operation(
                    status=OperationStatus.PENDING,
                    step_details=StepDetails(
                        attempt=attempt + 1,
                        next_attempt_timestamp=now()
                        + datetime.timedelta(seconds=delay),
                        result=u.payload,
                        error=u.error,
                    ),
                    **base,
                )
        if t is OperationType.WAIT:
            secs = u.wait_options.wait_seconds if u.wait_options else 1
            return Operation(
                status=OperationStatus.STARTED,
                wait_details=WaitDetails(
                    scheduled_end_timestamp=now() + datetime.timedelta(seconds=secs)
                ),
                **base,
            )
        if t is OperationType.CALLBACK:
            return Operation(
                status=OperationStatus.STARTED,
                callback_details=CallbackDetails(callback_id="cb-" + uuid.uuid4().hex),
                **base,
            )
        if t is OperationType.CHAINED_INVOKE:
            return Operation(
                status=OperationStatus.STARTED,
                chained_invoke_details=ChainedInvokeDetails(),
                **base,
            )
        if t is OperationType.EXECUTION:
            return dataclasses.replace(
                self.ops["exec"],
                status=OperationStatus.SUCCEEDED
                if a is OperationAction.SUCCEED
                else OperationStatus.FAILED,
            )
        raise AssertionError(f"unhandled update {u}")

    def get_execution_state(
        self, durable_execution_arn, checkpoint_token, next_marker, max_items=1000
    ):
        ops = self.pages.pop(next_marker)
        if self.page_size and len(ops) > self.page_size:
            marker = uuid.uuid4().hex
            self.pages[marker] = ops[self.page_size :]
            return StateOutput(operations=ops[: self.page_size], next_marker=marker)
        return StateOutput(operations=ops, next_marker=None)

    # -- invocation
    def history(self):
        with self.lock:
            self.deliver_timers()
            return [self.ops[i] for i in self.order]

    def invoke(self, handler, timeout=60.0):
        """One invocation of the wrapped handler with the recorded history. Returns the answer dict."""
        self.invocation_no += 1
        hist = self.history()
        marker = ""
        first = hist
        if self.page_size and len(hist) > self.page_size:
            marker = uuid.uuid4().hex
            self.pages[marker] = hist[self.page_size :]
            first = hist[: self.page_size]
        event = DurableExecutionInvocationInputWithClient(
            durable_execution_arn="arn:test",
            checkpoint_token=f"inv-{self.invocation_no}",
            initial_execution_state=InitialExecutionState(
                operations=first, next_marker=marker
            ),
            service_client=self,
        )
        ctx = SimpleNamespace(
            aws_request_id=f"req-{self.invocation_no}",
            log_group_name=None,
            log_stream_name=None,
            function_name="f",
            memory_limit_in_mb="128",
            function_version="1",
            invoked_function_arn="arn",
            tenant_id=None,
            client_context=None,
            identity=None,
            get_remaining_time_in_millis=lambda: 100000,
            log=lambda m: None,
        )
        wrapped = durable_execution(handler)
        box = {}

        def run():
            try:
                box["out"] = wrapped(event, ctx)
            except BaseException as e:  # noqa: BLE001
                box["exc"] = e

        th = threading.Thread(target=run, daemon=True)
        th.start()
        th.join(timeout)
        if th.is_alive():
            box["hang"] = True
        return box

    def run_to_completion(self, handler, max_invocations=12, between=None, timeout=60.0):
        answers = []
        for _ in range(max_invocations):
            box = self.invoke(handler, timeout=timeout)
            answers.append(box)
            if "exc" in box and "simulated crash" in str(box["exc"]):
                continue
            if "out" not in box or box["out"].get("Status") != "PENDING":
                break
            if between:
                between(self)
            else:
                # let the earliest timer elapse
                time.sleep(1.05)
        return answers

    def dump(self):
        lines = []
        for call, inv, u in self.log:
            lines.append(
                f"  inv{inv} call{call:03d} {u.action.value:8s} {u.operation_type.value:8s} "
                f"{(u.sub_type.value if u.sub_type else ''):18s} name={u.name} id={u.operation_id[:8]} parent={(u.parent_id or '')[:8]}"
            )
        return "\n".join(lines)
