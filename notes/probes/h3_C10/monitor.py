"""Clause-2 monitor: was user code of an operation run although the branch was orphaned when the operation was entered?

Wraps (does not modify) OperationExecutor.process / the execute() of the executors that run user code.
"""

from __future__ import annotations

import threading

from aws_durable_execution_sdk_python.operation import base as base_mod
from aws_durable_execution_sdk_python.operation.child import ChildOperationExecutor
from aws_durable_execution_sdk_python.operation.step import StepOperationExecutor
from aws_durable_execution_sdk_python.operation.wait_for_condition import (
    WaitForConditionOperationExecutor,
)
from aws_durable_execution_sdk_python.state import ExecutionState

_installed = False
records: list[str] = []  # violations
known: list[str] = []  # known ReplayChildren re-traversal
_lock = threading.Lock()


def completed_ancestor(state: ExecutionState, backend, parent_id):
    """Independent walk: parent links from the backend's records and from every update this state has seen."""
    cur = parent_id
    seen = set()
    with state._parent_done_lock:  # noqa: SLF001
        completed = set(state._completed_contexts)  # noqa: SLF001
        links = dict(state._parent_of)  # noqa: SLF001
    while cur and cur not in seen:
        seen.add(cur)
        if cur in completed:
            return cur
        nxt = links.get(cur)
        if nxt is None:
            op = backend.ops.get(cur)
            nxt = op.parent_id if op else None
        cur = nxt
    return None


def install(backend_getter):
    global _installed
    if _installed:
        return
    _installed = True
    orig_process = base_mod.OperationExecutor.process

    def process(self):
        state = getattr(self, "state", None)
        backend = backend_getter()
        anc = None
        if state is not None and backend is not None:
            anc = completed_ancestor(state, backend, self.operation_identifier.parent_id)
        self._c10_entry_orphan = anc  # noqa: SLF001
        return orig_process(self)

    base_mod.OperationExecutor.process = process

    for cls in (
        StepOperationExecutor,
        ChildOperationExecutor,
        WaitForConditionOperationExecutor,
    ):
        orig_execute = cls.execute

        def execute(self, checkpointed_result, _orig=orig_execute, _cls=cls):
            anc = getattr(self, "_c10_entry_orphan", None)
            if anc is not None:
                msg = (
                    f"{_cls.__name__}.execute ran for name={self.operation_identifier.name} "
                    f"id={self.operation_identifier.operation_id[:8]} although context {anc[:8]} "
                    f"had completed before the operation was entered"
                )
                with _lock:
                    if (
                        checkpointed_result.is_succeeded()
                        and checkpointed_result.is_replay_children()
                    ):
                        known.append(msg)
                    else:
                        records.append(msg)
            return _orig(self, checkpointed_result)

        cls.execute = execute
