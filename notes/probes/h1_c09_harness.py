"""In-memory fake durable backend + helpers to drive the real SDK (used by the finding_*.py and scenario scripts)."""

from __future__ import annotations

import datetime
import threading
from unittest.mock import Mock

from aws_durable_execution_sdk_python.execution import (
    DurableExecutionInvocationInputWithClient,
    InitialExecutionState,
    durable_execution,
)
from aws_durable_execution_sdk_python.lambda_service import (
    CallbackDetails,
    CheckpointOutput,
    CheckpointUpdatedExecutionState,
    ContextDetails,
    ExecutionDetails,
    Operation,
    OperationAction,
    OperationStatus,
    OperationType,
    StateOutput,
    StepDetails,
    WaitDetails,
)

UTC = datetime.UTC


class FakeBackend:
    """Records checkpoints and plays them back as history."""

    def __init__(self, input_payload: str = "{}"):
        self.lock = threading.Lock()
        self.ops: dict[str, Operation] = {}
        self.order: list[str] = []
        self.updates = []  # all updates, in arrival order
        self.token = 0
        self.hooks = []  # callables(update) invoked before applying each update
        exe = Operation(
            operation_id="exec-0",
            operation_type=OperationType.EXECUTION,
            status=OperationStatus.STARTED,
            execution_details=ExecutionDetails(input_payload=input_payload),
        )
        self._put(exe)

    def _put(self, op: Operation):
        if op.operation_id not in self.ops:
            self.order.append(op.operation_id)
        self.ops[op.operation_id] = op

    # ---- service client protocol
    def checkpoint(self, durable_execution_arn, checkpoint_token, updates, client_token=None):
        changed = []
        for u in updates:
            for h in self.hooks:
                h(u)
            with self.lock:
                self.updates.append(u)
                op = self._apply(u)
                if op is not None:
                    self._put(op)
                    changed.append(op)
        with self.lock:
            self.token += 1
            return CheckpointOutput(
                checkpoint_token=f"tok-{self.token}",
                new_execution_state=CheckpointUpdatedExecutionState(operations=changed, next_marker=None),
            )

    def get_execution_state(self, durable_execution_arn, checkpoint_token, next_marker, max_items=1000):
        return StateOutput(operations=[], next_marker=None)

    # ---- update application
    def _apply(self, u) -> Operation | None:
        old = self.ops.get(u.operation_id)
        now = datetime.datetime.now(tz=UTC)
        base = dict(
            operation_id=u.operation_id,
            operation_type=u.operation_type,
            parent_id=u.parent_id if u.parent_id else (old.parent_id if old else None),
            name=u.name if u.name else (old.name if old else None),
            sub_type=u.sub_type if u.sub_type else (old.sub_type if old else None),
            start_timestamp=old.start_timestamp if old else now,
        )
        t, a = u.operation_type, u.action
        if t is OperationType.EXECUTION:
            return None
        if t is OperationType.CONTEXT:
            if a is OperationAction.START:
                return Operation(status=OperationStatus.STARTED, **base)
            if a is OperationAction.SUCCEED:
                rc = bool(u.context_options and u.context_options.replay_children)
                return Operation(
                    status=OperationStatus.SUCCEEDED,
                    end_timestamp=now,
                    context_details=ContextDetails(replay_children=rc, result=u.payload),
                    **base,
                )
            if a is OperationAction.FAIL:
                return Operation(
                    status=OperationStatus.FAILED,
                    end_timestamp=now,
                    context_details=ContextDetails(error=u.error),
                    **base,
                )
        if t is OperationType.STEP:
            attempt = old.step_details.attempt if old and old.step_details else 0
            if a is OperationAction.START:
                return Operation(status=OperationStatus.STARTED, step_details=StepDetails(attempt=attempt + 1), **base)
            if a is OperationAction.SUCCEED:
                return Operation(
                    status=OperationStatus.SUCCEEDED,
                    end_timestamp=now,
                    step_details=StepDetails(attempt=attempt, result=u.payload),
                    **base,
                )
            if a is OperationAction.FAIL:
                return Operation(
                    status=OperationStatus.FAILED,
                    end_timestamp=now,
                    step_details=StepDetails(attempt=attempt, error=u.error),
                    **base,
                )
            if a is OperationAction.RETRY:
                delay = u.step_options.next_attempt_delay_seconds if u.step_options else 0
                return Operation(
                    status=OperationStatus.PENDING,
                    step_details=StepDetails(
                        attempt=attempt,
                        next_attempt_timestamp=now + datetime.timedelta(seconds=delay),
                        result=u.payload,
                        error=u.error,
                    ),
                    **base,
                )
        if t is OperationType.WAIT:
            secs = u.wait_options.wait_seconds if u.wait_options else 0
            return Operation(
                status=OperationStatus.STARTED,
                wait_details=WaitDetails(scheduled_end_timestamp=now + datetime.timedelta(seconds=secs)),
                **base,
            )
        if t is OperationType.CALLBACK:
            return Operation(
                status=OperationStatus.STARTED,
                callback_details=CallbackDetails(callback_id=f"cb-{u.operation_id[:8]}"),
                **base,
            )
        if t is OperationType.CHAINED_INVOKE:
            return Operation(status=OperationStatus.STARTED, **base)
        msg = f"unhandled update {u}"
        raise AssertionError(msg)

    # ---- backend-side events
    def complete_waits(self):
        with self.lock:
            for oid, op in list(self.ops.items()):
                if op.operation_type is OperationType.WAIT and op.status is OperationStatus.STARTED:
                    self.ops[oid] = Operation(
                        operation_id=op.operation_id,
                        operation_type=op.operation_type,
                        status=OperationStatus.SUCCEEDED,
                        parent_id=op.parent_id,
                        name=op.name,
                        sub_type=op.sub_type,
                        wait_details=op.wait_details,
                    )

    def complete_callbacks(self, result='"cb"'):
        with self.lock:
            for oid, op in list(self.ops.items()):
                if op.operation_type is OperationType.CALLBACK and op.status is OperationStatus.STARTED:
                    self.ops[oid] = Operation(
                        operation_id=op.operation_id,
                        operation_type=op.operation_type,
                        status=OperationStatus.SUCCEEDED,
                        parent_id=op.parent_id,
                        name=op.name,
                        sub_type=op.sub_type,
                        callback_details=CallbackDetails(
                            callback_id=op.callback_details.callback_id, result=result
                        ),
                    )

    def history(self) -> list[Operation]:
        with self.lock:
            return [self.ops[i] for i in self.order]


def lambda_ctx():
    c = Mock()
    c.aws_request_id = "req"
    c.client_context = None
    c.identity = None
    c._epoch_deadline_time_in_ms = 0  # noqa: SLF001
    c.invoked_function_arn = "arn"
    c.tenant_id = None
    return c


def invoke(handler, backend: FakeBackend, timeout: float = 30.0):
    """Invoke a plain (event, context) function through durable_execution with the backend's recorded history."""
    wrapped = durable_execution(handler)
    event = DurableExecutionInvocationInputWithClient(
        durable_execution_arn="arn:exec",
        checkpoint_token=f"tok-{backend.token}",
        initial_execution_state=InitialExecutionState(operations=backend.history(), next_marker=""),
        service_client=backend,
    )
    out = {}

    def run():
        try:
            out["result"] = wrapped(event, lambda_ctx())
        except BaseException as e:  # noqa: BLE001
            out["exc"] = e

    t = threading.Thread(target=run, daemon=True)
    t.start()
    t.join(timeout)
    if t.is_alive():
        msg = "invocation hung"
        raise TimeoutError(msg)
    if "exc" in out:
        raise out["exc"]
    return out["result"]


def describe(br):
    return {
        "reason": br.completion_reason.value,
        "items": [
            (i.index, i.status.value, i.result, (i.error.type, i.error.message) if i.error else None)
            for i in br.all
        ],
    }
