from aws_durable_execution_sdk_python.lambda_service import *
o=Operation("i",OperationType.CONTEXT,OperationStatus.FAILED,context_details=ContextDetails(replay_children=True,error=ErrorObject("m","t",None,None)))
print("ctx", Operation.from_dict(o.to_dict())==o)
o=Operation("i",OperationType.WAIT,OperationStatus.STARTED,wait_details=WaitDetails())
print("wait", Operation.from_dict(o.to_dict())==o)
o=Operation("i",OperationType.CHAINED_INVOKE,OperationStatus.STARTED,chained_invoke_details=ChainedInvokeDetails())
print("inv", Operation.from_dict(o.to_dict())==o, Operation.from_dict(o.to_dict()).chained_invoke_details)
