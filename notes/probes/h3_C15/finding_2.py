"""C15 finding 2: an aware datetime whose UTC offset is shorter than one second is silently altered.

DateTimeCodec.encode writes datetime.isoformat(), DateTimeCodec.decode reads it with datetime.fromisoformat().
For an offset with hours == minutes == seconds == 0 and a non-zero microsecond part ("+00:00:00.000001")
CPython's fromisoformat() answers timezone.utc, i.e. it drops the offset.  The value that comes back
denotes a different instant (original != restored), and nothing is rejected.

Run:  PYTHONPATH=/tmp/wt/h3_C15/src /venv/bin/python finding_2.py      (exits non-zero on the current code)
"""
import logging
import sys
from datetime import datetime, timedelta, timezone

from aws_durable_execution_sdk_python.serdes import deserialize, serialize

logging.disable(logging.CRITICAL)


def main():
    problems = []
    for offset in (timedelta(microseconds=1), timedelta(milliseconds=500), -timedelta(microseconds=999_999),
                   timedelta(seconds=1, microseconds=1)):  # the last one is a control and round-trips
        original = datetime(2024, 5, 17, 12, 0, 0, tzinfo=timezone(offset))
        for value in (original, {"when": original}, [(original,)]):
            try:
                text = serialize(None, value, "op", "arn")
            except Exception:  # rejected with a serialization error: allowed by the property
                continue
            restored = deserialize(None, text, "op", "arn")
            r, o = restored, value
            while not isinstance(r, datetime):
                r = r["when"] if isinstance(r, dict) else r[0]
                o = o["when"] if isinstance(o, dict) else o[0]
            if r != o or r.utcoffset() != o.utcoffset():
                problems.append(
                    f"utcoffset {o.utcoffset()!r}: {o.isoformat()} came back as {r.isoformat()} "
                    f"(equal: {r == o}, shifted by {abs(r - o)}) text={text}")
    for p in problems:
        print("VIOLATION:", p)
    assert not problems, (
        f"{len(problems)} aware datetime value(s) were accepted by the default serializer and came back as a "
        "different instant / different offset (C15: equal value after the round trip, or a serialization error)")
    print("ok")


if __name__ == "__main__":
    sys.exit(main())
