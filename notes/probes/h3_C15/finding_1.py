"""C15 finding 1: nested containers around a bytes leaf are accepted by the default serializer at a
nesting depth its own decoder cannot reach (BytesCodec.decode needs one interpreter frame more than
BytesCodec.encode).  The value is serialized and checkpointed, and

  * a step result can never be replayed ("Deserialization failed", RecursionError) - the execution is
    broken for good although the first invocation answered SUCCEEDED;
  * a wait_for_condition state is silently replaced by the initial state on the next attempt
    (wait_for_condition swallows the deserialization error).

Run:  PYTHONPATH=/tmp/wt/h3_C15/src /venv/bin/python finding_1.py      (exits non-zero on the current code)
"""
from __future__ import annotations

import dataclasses
import datetime as dt
import logging
import sys
from unittest.mock import Mock

from aws_durable_execution_sdk_python.config import Duration
from aws_durable_execution_sdk_python.execution import (
    DurableExecutionInvocationInputWithClient,
    InitialExecutionState,
    durable_execution,
)
from aws_durable_execution_sdk_python.lambda_service import (
    CheckpointOutput,
    CheckpointUpdatedExecutionState,
    ExecutionDetails,
    Operation,
    OperationAction,
    OperationStatus,
    OperationType,
    StateOutput,
    StepDetails,
)
from aws_durable_execution_sdk_python.serdes import deserialize, serialize
from aws_durable_execution_sdk_python.waits import (
    WaitForConditionConfig,
    WaitForConditionDecision,
)

logging.disable(logging.CRITICAL)


def nest(n, leaf):
    v = leaf
    for _ in range(n):
        v = (v,)
    return v


def depth(v):
    n = 0
    while isinstance(v, tuple):
        v = v[0]
        n += 1
    return n, v


# ---------------------------------------------------------------- part 1: the serializer alone
def direct(k):
    """serialize() and deserialize() called from the same stack depth (k extra caller frames)."""
    problems = []
    for n in range(250, 400):
        value = nest(n, b"x")
        try:
            text = pad(k, lambda: serialize(None, value, "op", "arn"))
        except Exception:  # rejected with a serialization error: allowed by the property
            break
        try:
            back = pad(k, lambda: deserialize(None, text, "op", "arn"))
        except Exception as e:  # noqa: BLE001
            problems.append(f"direct call, {k} caller frames, depth {n}: accepted by serialize(), deserialize() raised {e!r} <- {e.__cause__!r}")
            continue
        if depth(back) != (n, b"x"):
            problems.append(f"depth {n}: altered")
    return problems


# ---------------------------------------------------------------- part 2: a workflow over two invocations
class FakeBackend:
    """Keeps the checkpointed operations and hands them to the next invocation as history."""

    def __init__(self):
        self.ops: dict[str, Operation] = {}
        self._put(Operation("exec", OperationType.EXECUTION, OperationStatus.STARTED,
                            execution_details=ExecutionDetails(input_payload="{}")))

    def _put(self, op):
        self.ops[op.operation_id] = op

    def checkpoint(self, durable_execution_arn, checkpoint_token, updates, client_token=None):
        changed = []
        for u in updates:
            old = self.ops.get(u.operation_id)
            status = {OperationAction.START: OperationStatus.STARTED, OperationAction.SUCCEED: OperationStatus.SUCCEEDED,
                      OperationAction.FAIL: OperationStatus.FAILED, OperationAction.RETRY: OperationStatus.PENDING}[u.action]
            attempt = old.step_details.attempt if old and old.step_details else 0
            if u.action is not OperationAction.START:
                attempt += 1
            nts = dt.datetime.now(dt.timezone.utc) if u.action is OperationAction.RETRY else None
            op = Operation(u.operation_id, u.operation_type, status, parent_id=u.parent_id, name=u.name, sub_type=u.sub_type,
                           step_details=StepDetails(attempt=attempt, next_attempt_timestamp=nts, result=u.payload, error=u.error))
            self._put(op)
            changed.append(op)
        return CheckpointOutput("tok", CheckpointUpdatedExecutionState(operations=changed, next_marker=None))

    def get_execution_state(self, durable_execution_arn, checkpoint_token, next_marker, max_items=1000):
        return StateOutput(operations=[], next_marker=None)

    def retry_timer_fired(self):
        for i, op in list(self.ops.items()):
            if op.status is OperationStatus.PENDING:
                self.ops[i] = dataclasses.replace(op, status=OperationStatus.READY)


def invoke(handler, backend):
    lambda_context = Mock()
    lambda_context.aws_request_id = "req"
    lambda_context.invoked_function_arn = "arn:fn"
    lambda_context.tenant_id = None
    event = DurableExecutionInvocationInputWithClient(
        durable_execution_arn="arn:exec", checkpoint_token="t0",
        initial_execution_state=InitialExecutionState(operations=list(backend.ops.values()), next_marker=""),
        service_client=backend)
    return durable_execution(handler)(event, lambda_context)


def pad(k, f):
    """k extra frames of ordinary user code between the handler and the durable operation."""
    return f() if k == 0 else pad(k - 1, f)


def step_workflow(n, k):
    value = nest(n, b"x")

    def handler(event, ctx):
        got = pad(k, lambda: ctx.step(lambda _sc: value, name="produce"))
        assert depth(got) == (n, b"x")
        return "done"

    backend = FakeBackend()
    first = invoke(handler, backend)
    if first["Status"] != "SUCCEEDED":
        return None  # rejected at serialization: allowed
    second = invoke(handler, backend)  # e.g. the re-invocation after a later wait
    if second["Status"] != "SUCCEEDED":
        return (f"step result nested {n} deep (user frames {k}): invocation 1 -> SUCCEEDED and checkpointed, "
                f"replay -> {second['Status']}: {second.get('Error', {}).get('ErrorMessage', '')[:70]}")
    return None


def wait_for_condition_workflow(n, k):
    value = nest(n, b"x")
    states_seen = []

    def check(state, _cctx):
        states_seen.append(state)
        return value

    def strategy(_state, attempt):
        if attempt < 2:
            return WaitForConditionDecision.continue_waiting(Duration.from_seconds(1))
        return WaitForConditionDecision.stop_polling()

    def handler(event, ctx):
        pad(k, lambda: ctx.wait_for_condition(
            check, WaitForConditionConfig(wait_strategy=strategy, initial_state="INITIAL"), name="poll"))
        return "done"

    backend = FakeBackend()
    first = invoke(handler, backend)
    if first["Status"] != "PENDING":
        return None  # state rejected at serialization: allowed
    backend.retry_timer_fired()
    invoke(handler, backend)
    if len(states_seen) == 2 and states_seen[1] == "INITIAL":
        return (f"wait_for_condition state nested {n} deep (user frames {k}): recorded by attempt 1, "
                f"attempt 2 was handed the initial state {states_seen[1]!r} instead")
    return None


def main():
    problems = []
    for k in range(3):
        problems += direct(k)
    for k in range(3):  # the window is one nesting level wide; which level depends on the stack depth modulo 3
        for n in range(300, 340):
            for wf in (step_workflow, wait_for_condition_workflow):
                p = wf(n, k)
                if p:
                    problems.append(p)
    for p in problems:
        print("VIOLATION:", p)
    assert not problems, (
        f"{len(problems)} value(s) were accepted by the default serializer but could not be deserialized again "
        "(C15: every accepted value round-trips, at any nesting depth; otherwise it must be rejected at serialization)")
    print("ok: every accepted depth round-trips")


if __name__ == "__main__":
    sys.exit(main())
