"""C15 finding 3 (weaker than 1 and 2): the `fold` attribute of a datetime is silently dropped.

DateTimeCodec.encode writes datetime.isoformat(), which has no place for `fold` (PEP 495).  A naive
datetime (or one with a rule-based zone) that names the SECOND occurrence of a repeated wall-clock time
(fold=1, the hour after the clocks go back) comes back with fold=0, i.e. as the FIRST occurrence.
`==` ignores fold, so restored == original still holds - but the value is not reproduced exactly and
it is not rejected either: the instant it denotes moves by an hour.

Run:  PYTHONPATH=/tmp/wt/h3_C15/src /venv/bin/python finding_3.py      (exits non-zero on the current code)
"""
import logging
import os
import sys
import time
from datetime import datetime

from aws_durable_execution_sdk_python.serdes import deserialize, serialize

logging.disable(logging.CRITICAL)


def main():
    os.environ["TZ"] = "EST5EDT,M3.2.0,M11.1.0"  # US eastern rules as a POSIX TZ string (no tz database needed)
    time.tzset()

    original = datetime(2021, 11, 7, 1, 30, fold=1)  # 01:30 EST, the second 01:30 of that night
    text = serialize(None, {"at": original}, "op", "arn")  # accepted
    restored = deserialize(None, text, "op", "arn")["at"]

    print("text      :", text)
    print("original  :", repr(original), "-> epoch", original.timestamp(), original.astimezone().isoformat())
    print("restored  :", repr(restored), "-> epoch", restored.timestamp(), restored.astimezone().isoformat())
    assert restored == original  # fold does not take part in ==
    assert restored.fold == original.fold, (
        f"fold={original.fold} came back as fold={restored.fold}: the datetime was accepted, not reproduced exactly "
        f"and not rejected; the instant it denotes moved by {original.timestamp() - restored.timestamp():.0f} s")
    print("ok")


if __name__ == "__main__":
    sys.exit(main())
