"""In-memory backend + strict lifecycle validator + driver for C11 hunting (scratch tool)."""

from __future__ import annotations

import datetime
import threading
import time as _real_time
from dataclasses import replace
from unittest.mock import Mock

from aws_durable_execution_sdk_python.execution import (
    DurableExecutionInvocationInputWithClient,
    InitialExecutionState,
)
from aws_durable_execution_sdk_python.lambda_service import (
    CallbackDetails,
    ChainedInvokeDetails,
    CheckpointOutput,
    CheckpointUpdatedExecutionState,
    ContextDetails,
    ErrorObject,
    ExecutionDetails,
    Operation,
    OperationAction,
    OperationStatus,
    OperationType,
    StateOutput,
    StepDetails,
    WaitDetails,
)



class Clock:
    """Shared (optionally accelerated) clock, patched into the SDK modules that read the time."""

    def __init__(self):
        self.base = _real_time.time()
        self.speed = 1.0
        self.offset = 0.0

    def time(self) -> float:
        r = _real_time.time()
        return self.base + (r - self.base) * self.speed + self.offset

    # passthroughs used by the patched modules
    def sleep(self, s):
        _real_time.sleep(s)


CLOCK = Clock()


class _FakeDatetimeModule:
    UTC = datetime.UTC
    timedelta = datetime.timedelta
    timezone = datetime.timezone

    class datetime(datetime.datetime):  # noqa: N801
        @classmethod
        def now(cls, tz=None):
            return datetime.datetime.fromtimestamp(CLOCK.time(), tz=tz)


def install_clock(speed: float = 1.0) -> None:
    import aws_durable_execution_sdk_python.concurrency.executor as ex
    import aws_durable_execution_sdk_python.concurrency.models as mo
    import aws_durable_execution_sdk_python.exceptions as exc
    import aws_durable_execution_sdk_python.suspend as su

    CLOCK.speed = speed
    ex.time = CLOCK
    mo.time = CLOCK
    exc.time = CLOCK
    su.datetime = _FakeDatetimeModule


TERMINAL = {
    OperationStatus.SUCCEEDED,
    OperationStatus.FAILED,
    OperationStatus.CANCELLED,
    OperationStatus.TIMED_OUT,
    OperationStatus.STOPPED,
}
UTC = datetime.UTC


class CrashNow(Exception):
    """Raised by the backend to simulate the sandbox dying."""


class Backend:
    """Fake durable-execution backend. Applies updates strictly and records violations."""

    def __init__(self, input_payload: str = "{}", page_size: int | None = None):
        self.lock = threading.Lock()
        self.ops: dict[str, Operation] = {}
        self.order: list[str] = []
        self.exec_id = "exec-0"
        self._put(
            Operation(
                operation_id=self.exec_id,
                operation_type=OperationType.EXECUTION,
                status=OperationStatus.STARTED,
                execution_details=ExecutionDetails(input_payload=input_payload),
            )
        )
        self.violations: list[str] = []
        self.log: list[tuple[int, int, object]] = []  # (invocation, call_no, update)
        self.invocation = 0
        self.calls = 0  # checkpoint calls in total
        self.calls_this_invocation = 0
        self.exec_record_seen = False
        self.dirty: set[str] = set()
        self.page_size = page_size
        self.cb_counter = 0
        # hooks
        self.crash_at_call: int | None = None  # global call number (1-based) at which to crash
        self.crash_after_apply = False
        self.on_call = None  # callable(backend, updates) invoked before applying, outside lock
        self.token = 0

    # ---- time
    def now(self) -> datetime.datetime:
        return datetime.datetime.fromtimestamp(CLOCK.time(), tz=UTC)

    # ---- storage
    def _put(self, op: Operation) -> None:
        if op.operation_id not in self.ops:
            self.order.append(op.operation_id)
        self.ops[op.operation_id] = op

    def _viol(self, msg: str) -> None:
        self.violations.append(f"[inv {self.invocation} call {self.calls}] {msg}")

    def _ancestor_terminal(self, parent_id: str | None) -> str | None:
        cur = parent_id
        while cur:
            op = self.ops.get(cur)
            if op is None:
                return None
            if op.status in TERMINAL:
                return cur
            cur = op.parent_id
        return None

    # ---- timers / external events
    def tick(self) -> None:
        now = self.now()
        for oid in list(self.order):
            op = self.ops[oid]
            if (
                op.operation_type is OperationType.WAIT
                and op.status is OperationStatus.STARTED
                and op.wait_details
                and op.wait_details.scheduled_end_timestamp <= now
            ):
                self._put(replace(op, status=OperationStatus.SUCCEEDED))
                self.dirty.add(oid)
            elif (
                op.operation_type is OperationType.STEP
                and op.status is OperationStatus.PENDING
                and op.step_details
                and op.step_details.next_attempt_timestamp <= now
            ):
                self._put(replace(op, status=OperationStatus.READY))
                self.dirty.add(oid)

    def earliest_timer(self) -> datetime.datetime | None:
        ts = []
        for op in self.ops.values():
            if op.operation_type is OperationType.WAIT and op.status is OperationStatus.STARTED:
                ts.append(op.wait_details.scheduled_end_timestamp)
            if op.operation_type is OperationType.STEP and op.status is OperationStatus.PENDING:
                ts.append(op.step_details.next_attempt_timestamp)
        return min(ts) if ts else None

    def open_external(self) -> list[Operation]:
        return [
            op
            for op in self.ops.values()
            if op.operation_type in (OperationType.CALLBACK, OperationType.CHAINED_INVOKE)
            and op.status is OperationStatus.STARTED
        ]

    def complete_external(self, oid: str, ok: bool = True, result: str = '"ext"') -> None:
        with self.lock:
            op = self.ops[oid]
            if op.status in TERMINAL:
                return
            err = None if ok else ErrorObject("ext failure", "ExtError", None, None)
            if op.operation_type is OperationType.CALLBACK:
                new = replace(
                    op,
                    status=OperationStatus.SUCCEEDED if ok else OperationStatus.FAILED,
                    callback_details=CallbackDetails(
                        callback_id=op.callback_details.callback_id,
                        result=result if ok else None,
                        error=err,
                    ),
                )
            else:
                new = replace(
                    op,
                    status=OperationStatus.SUCCEEDED if ok else OperationStatus.FAILED,
                    chained_invoke_details=ChainedInvokeDetails(
                        result=result if ok else None, error=err
                    ),
                )
            self._put(new)
            self.dirty.add(oid)

    # ---- the API
    def checkpoint(self, durable_execution_arn, checkpoint_token, updates, client_token=None):
        if self.on_call is not None:
            self.on_call(self, updates)
        with self.lock:
            self.calls += 1
            self.calls_this_invocation += 1
            if self.crash_at_call == self.calls and not self.crash_after_apply:
                raise CrashNow("crash before apply")
            for u in updates:
                self._apply(u)
            self.tick()
            if self.crash_at_call == self.calls and self.crash_after_apply:
                raise CrashNow("crash after apply")
            changed = [self.ops[i] for i in self.order if i in self.dirty]
            self.dirty.clear()
            self.token += 1
            return CheckpointOutput(
                checkpoint_token=f"tok-{self.token}",
                new_execution_state=CheckpointUpdatedExecutionState(
                    operations=changed, next_marker=None
                ),
            )

    def get_execution_state(self, durable_execution_arn, checkpoint_token, next_marker, max_items=1000):
        with self.lock:
            start = int(next_marker)
            ids = self.order[start : start + (self.page_size or 1000)]
            nxt = start + len(ids)
            return StateOutput(
                operations=[self.ops[i] for i in ids],
                next_marker=str(nxt) if nxt < len(self.order) else None,
            )

    # ---- strict application of one update
    def _apply(self, u) -> None:
        self.log.append((self.invocation, self.calls, u))
        if self.exec_record_seen:
            self._viol(
                f"update after the execution-level result record: {u.operation_type.value} {u.action.value} {u.name or u.operation_id[:8]}"
            )
        if u.operation_type is OperationType.EXECUTION:
            if self.exec_record_seen:
                self._viol("second execution-level result record")
            self.exec_record_seen = True
            return
        op = self.ops.get(u.operation_id)
        label = f"{u.operation_type.value}/{u.sub_type.value if u.sub_type else '-'} {u.name or ''} {u.operation_id[:8]}"
        now = self.now()
        if op is not None and op.status in TERMINAL:
            self._viol(f"{u.action.value} for {label} which the backend holds as {op.status.value}")
            return
        if u.action is OperationAction.START:
            if op is None:
                # parent must exist and be a started context
                if u.parent_id is not None:
                    p = self.ops.get(u.parent_id)
                    if p is None:
                        self._viol(f"first update of {label} precedes the START of its parent {u.parent_id[:8]}")
                    elif p.operation_type is not OperationType.CONTEXT:
                        self._viol(f"parent of {label} is not a context")
                t = self._ancestor_terminal(u.parent_id)
                if t:
                    self._viol(f"START of {label} beneath context {t[:8]} that is already {self.ops[t].status.value}")
                kw = {}
                if u.operation_type is OperationType.STEP:
                    kw["step_details"] = StepDetails(attempt=0)
                elif u.operation_type is OperationType.WAIT:
                    kw["wait_details"] = WaitDetails(
                        scheduled_end_timestamp=now
                        + datetime.timedelta(seconds=u.wait_options.wait_seconds)
                    )
                elif u.operation_type is OperationType.CALLBACK:
                    self.cb_counter += 1
                    kw["callback_details"] = CallbackDetails(callback_id=f"cb-{self.cb_counter}")
                elif u.operation_type is OperationType.CHAINED_INVOKE:
                    kw["chained_invoke_details"] = ChainedInvokeDetails()
                elif u.operation_type is OperationType.CONTEXT:
                    kw["context_details"] = ContextDetails()
                self._put(
                    Operation(
                        operation_id=u.operation_id,
                        operation_type=u.operation_type,
                        status=OperationStatus.STARTED,
                        parent_id=u.parent_id,
                        name=u.name,
                        sub_type=u.sub_type,
                        start_timestamp=now,
                        **kw,
                    )
                )
                self.dirty.add(u.operation_id)
                return
            # exists, not terminal
            if u.operation_type is OperationType.STEP and op.status is OperationStatus.READY:
                self._put(replace(op, status=OperationStatus.STARTED))
                self.dirty.add(u.operation_id)
                return
            self._viol(f"second START for {label} in status {op.status.value} (same attempt)")
            return
        # non-START
        if op is None:
            self._viol(f"{u.action.value} for {label} without a START")
            # create it anyway so that later checks work
            op = Operation(
                operation_id=u.operation_id,
                operation_type=u.operation_type,
                status=OperationStatus.STARTED,
                parent_id=u.parent_id,
                name=u.name,
                sub_type=u.sub_type,
                step_details=StepDetails() if u.operation_type is OperationType.STEP else None,
                context_details=ContextDetails() if u.operation_type is OperationType.CONTEXT else None,
            )
            self._put(op)
        t = self._ancestor_terminal(op.parent_id)
        if t:
            self._viol(f"{u.action.value} of {label} beneath context {t[:8]} that is already {self.ops[t].status.value}")
        if op.status is not OperationStatus.STARTED:
            self._viol(f"{u.action.value} for {label} in status {op.status.value}: the attempt has no START")
        if u.action is OperationAction.RETRY:
            sd = op.step_details or StepDetails()
            delay = u.step_options.next_attempt_delay_seconds if u.step_options else 1
            self._put(
                replace(
                    op,
                    status=OperationStatus.PENDING,
                    step_details=StepDetails(
                        attempt=sd.attempt + 1,
                        next_attempt_timestamp=now + datetime.timedelta(seconds=delay or 0),
                        result=u.payload,
                        error=u.error,
                    ),
                )
            )
        elif u.action in (OperationAction.SUCCEED, OperationAction.FAIL):
            st = OperationStatus.SUCCEEDED if u.action is OperationAction.SUCCEED else OperationStatus.FAILED
            if u.operation_type is OperationType.STEP:
                sd = op.step_details or StepDetails()
                new = replace(
                    op,
                    status=st,
                    end_timestamp=now,
                    step_details=StepDetails(attempt=sd.attempt + 1, result=u.payload, error=u.error),
                )
            elif u.operation_type is OperationType.CONTEXT:
                new = replace(
                    op,
                    status=st,
                    end_timestamp=now,
                    context_details=ContextDetails(
                        replay_children=bool(u.context_options and u.context_options.replay_children),
                        result=u.payload,
                        error=u.error,
                    ),
                )
            else:
                self._viol(f"{u.action.value} sent for {label}")
                new = replace(op, status=st)
            self._put(new)
        else:
            self._viol(f"unexpected action {u.action.value} for {label}")
        self.dirty.add(u.operation_id)

    # ---- driving
    def invocation_input(self) -> DurableExecutionInvocationInputWithClient:
        with self.lock:
            self.tick()
            self.dirty.clear()
            self.invocation += 1
            self.calls_this_invocation = 0
            if self.page_size:
                first = self.order[: self.page_size]
                marker = str(len(first)) if len(first) < len(self.order) else ""
            else:
                first = list(self.order)
                marker = ""
            self.token += 1
            return DurableExecutionInvocationInputWithClient(
                durable_execution_arn="arn:test",
                checkpoint_token=f"tok-{self.token}",
                initial_execution_state=InitialExecutionState(
                    operations=[self.ops[i] for i in first], next_marker=marker
                ),
                service_client=self,
            )


def lambda_context():
    c = Mock()
    c.aws_request_id = "req"
    c.client_context = None
    c.identity = None
    c._epoch_deadline_time_in_ms = 0  # noqa: SLF001
    c.invoked_function_arn = "arn:fn"
    c.tenant_id = None
    return c


def run_invocation(handler, backend: Backend, timeout: float = 60.0):
    """Run one invocation in a thread; returns ('ok', result) / ('exc', e) / ('hang', None)."""
    box = {}

    def target():
        try:
            box["r"] = ("ok", handler(backend.invocation_input(), lambda_context()))
        except BaseException as e:  # noqa: BLE001
            box["r"] = ("exc", e)

    t = threading.Thread(target=target, daemon=True)
    t.start()
    t.join(timeout)
    if t.is_alive():
        return ("hang", None)
    return box["r"]


def drive(handler, backend: Backend, max_invocations: int = 12, external=None, timeout: float = 60.0, verbose=False):
    """Invoke until the execution terminates. `external(backend)` is called between invocations
    when nothing is scheduled; it may complete callbacks/invokes."""
    outcomes = []
    for _ in range(max_invocations):
        kind, res = run_invocation(handler, backend, timeout)
        outcomes.append((kind, res if kind != "exc" else repr(res)))
        if verbose:
            print("invocation", backend.invocation, kind, res if kind != "exc" else repr(res))
        if kind == "hang":
            break
        if backend.exec_record_seen:
            # the execution-level record was applied: the execution is closed, no further invocation
            break
        if kind == "exc":
            # crashed / invocation error: the backend retries the invocation
            backend.crash_at_call = None
            continue
        if res.get("Status") != "PENDING":
            break
        # let time pass / external events happen
        with backend.lock:
            nxt = backend.earliest_timer()
        if nxt is not None:
            delta = (nxt - backend.now()).total_seconds()
            if delta > 0:
                CLOCK.offset += delta + 0.01
        elif external is not None:
            external(backend)
        else:
            for op in backend.open_external():
                backend.complete_external(op.operation_id, ok=True)
    return outcomes


def dump_log(backend: Backend) -> str:
    lines = []
    for inv, call, u in backend.log:
        lines.append(
            f"  inv{inv} call{call}: {u.operation_type.value:8s} {u.action.value:8s} {(u.sub_type.value if u.sub_type else '-'):18s} {u.name or '':28s} id={u.operation_id[:8]} parent={(u.parent_id or '-')[:8]}"
        )
    return "\n".join(lines)
