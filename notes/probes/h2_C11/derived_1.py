"""C11 - consequence of an ALREADY KNOWN defect (ctx.step() re-raises an ExecutionError without a FAIL record).

NOT counted as a new finding; kept because it shows how the known defect turns into an invalid update
stream: the step stays STARTED inside a child context that then SUCCEEDS with a summarised (ReplayChildren)
result. The next invocation traverses the body of the terminal context again, finds the step STARTED and
sends RETRY / START for it - updates beneath a context the backend already holds as SUCCEEDED.

Run:  PYTHONPATH=/tmp/wt/h2_C11/src /venv/bin/python /tmp/wt/h2_C11/derived_1.py   (exits non-zero)
"""

from __future__ import annotations

import datetime
import logging
import threading
from dataclasses import replace
from unittest.mock import Mock

logging.disable(logging.CRITICAL)

from aws_durable_execution_sdk_python.config import Duration, StepConfig, StepSemantics
from aws_durable_execution_sdk_python.exceptions import ExecutionError
from aws_durable_execution_sdk_python.execution import (
    DurableExecutionInvocationInputWithClient,
    InitialExecutionState,
    durable_execution,
)
from aws_durable_execution_sdk_python.lambda_service import (
    CheckpointOutput,
    CheckpointUpdatedExecutionState,
    ContextDetails,
    ExecutionDetails,
    Operation,
    OperationAction,
    OperationStatus,
    OperationType,
    StateOutput,
    StepDetails,
    WaitDetails,
)

UTC = datetime.UTC
TERMINAL = {OperationStatus.SUCCEEDED, OperationStatus.FAILED}


class Backend:
    """Minimal in-memory backend: applies updates, plays them back as history, records violations."""

    def __init__(self):
        self.lock = threading.Lock()
        self.ops: dict[str, Operation] = {
            "exec": Operation(
                "exec",
                OperationType.EXECUTION,
                OperationStatus.STARTED,
                execution_details=ExecutionDetails(input_payload="{}"),
            )
        }
        self.violations: list[str] = []
        self.stream: list[str] = []
        self.invocation = 0

    def checkpoint(self, durable_execution_arn, checkpoint_token, updates, client_token=None):
        with self.lock:
            changed = []
            for u in updates:
                self.stream.append(f"inv{self.invocation}: {u.operation_type.value} {u.action.value} {u.name}")
                op = self.ops.get(u.operation_id)
                # the clause under test: nothing may be sent beneath a context that is already terminal
                parent = self.ops.get(u.parent_id) if u.parent_id else None
                if parent is not None and parent.status in TERMINAL:
                    self.violations.append(
                        f"inv{self.invocation}: {u.operation_type.value} {u.action.value} for '{u.name}' "
                        f"beneath context '{parent.name}' which the backend holds as {parent.status.value}"
                    )
                if u.action is OperationAction.START:
                    if op is None:
                        op = Operation(
                            u.operation_id,
                            u.operation_type,
                            OperationStatus.STARTED,
                            parent_id=u.parent_id,
                            name=u.name,
                            sub_type=u.sub_type,
                            step_details=StepDetails() if u.operation_type is OperationType.STEP else None,
                            context_details=ContextDetails() if u.operation_type is OperationType.CONTEXT else None,
                            wait_details=WaitDetails(datetime.datetime.now(UTC))
                            if u.operation_type is OperationType.WAIT
                            else None,
                        )
                    else:
                        op = replace(op, status=OperationStatus.STARTED)
                elif u.action is OperationAction.RETRY:
                    op = replace(
                        op,
                        status=OperationStatus.PENDING,
                        step_details=StepDetails(
                            attempt=op.step_details.attempt + 1,
                            next_attempt_timestamp=datetime.datetime.now(UTC),
                        ),
                    )
                else:
                    st = OperationStatus.SUCCEEDED if u.action is OperationAction.SUCCEED else OperationStatus.FAILED
                    if u.operation_type is OperationType.CONTEXT:
                        op = replace(
                            op,
                            status=st,
                            context_details=ContextDetails(
                                replay_children=bool(u.context_options and u.context_options.replay_children),
                                result=u.payload,
                                error=u.error,
                            ),
                        )
                    else:
                        op = replace(op, status=st, step_details=StepDetails(result=u.payload, error=u.error))
                self.ops[u.operation_id] = op
                changed.append(op)
            return CheckpointOutput("tok", CheckpointUpdatedExecutionState(operations=changed))

    def get_execution_state(self, *a, **k):
        return StateOutput(operations=[], next_marker=None)

    def deliver(self):
        """What the backend does between invocations: timers fire."""
        for oid, op in list(self.ops.items()):
            if op.operation_type is OperationType.WAIT and op.status is OperationStatus.STARTED:
                self.ops[oid] = replace(op, status=OperationStatus.SUCCEEDED)
            if op.operation_type is OperationType.STEP and op.status is OperationStatus.PENDING:
                self.ops[oid] = replace(op, status=OperationStatus.READY)

    def invoke(self, handler):
        self.invocation += 1
        ctx = Mock()
        ctx.aws_request_id = "r"
        ctx.invoked_function_arn = "arn"
        ctx.tenant_id = None
        return handler(
            DurableExecutionInvocationInputWithClient(
                durable_execution_arn="arn:exec",
                checkpoint_token="t",
                initial_execution_state=InitialExecutionState(operations=list(self.ops.values()), next_marker=""),
                service_client=self,
            ),
            ctx,
        )


BIG = "x" * 300_000  # > 256 KB: the child context is checkpointed as a summary with ReplayChildren=true


@durable_execution
def handler(event, ctx):
    def body(child):
        def charge(_):
            raise ExecutionError("card declined")  # documented way to fail without retry

        try:
            child.step(
                charge,
                name="charge",
                config=StepConfig(step_semantics=StepSemantics.AT_MOST_ONCE_PER_RETRY),
            )
        except ExecutionError:
            pass  # documented: catch the ExecutionError in the handler
        return BIG

    ctx.run_in_child_context(body, name="order")
    ctx.wait(Duration.from_seconds(1), name="pause")
    return "done"


def main():
    backend = Backend()
    for _ in range(6):
        out = backend.invoke(handler)
        if out["Status"] != "PENDING":
            break
        backend.deliver()
    print("\n".join(backend.stream))
    assert not backend.violations, "invalid update stream:\n  " + "\n  ".join(backend.violations)


if __name__ == "__main__":
    main()
