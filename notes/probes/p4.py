import threading, time, hashlib, logging
from unittest.mock import Mock
exec(open('p2.py').read().split("# C06:")[0])
logging.disable(logging.CRITICAL)
from aws_durable_execution_sdk_python.waits import *
# C10: orphan branch starts a brand-new step after parent completed
entered=[]; gate=threading.Event()
def branch(c,item,i,items):
    if i==0: return c.step(lambda _: "fast", name="fast")
    gate.wait(3)          # parent completes meanwhile
    return c.step(lambda _: entered.append("orphan-step-body") or "late", name="late")
def wf(ctx):
    r=ctx.map([0,1], branch, config=MapConfig(completion_config=CompletionConfig(min_successful=1)))
    gate.set(); time.sleep(0.5); return [i.status.value for i in r.all]
r,b=run(wf, Backend())
flat=[(u.name,u.action.value) for c in b.calls for u in c]
print("C10:", r, "orphan body entered:", entered); print("   updates:", flat)

# C16: large item result with default config -> MapSummaryGenerator applied to an item
def wf2(ctx):
    r=ctx.map([0], lambda c,item,i,items: "x"*(300*1024))
    return [(i.status.value, i.error.message if i.error else None) for i in r.all]
r,b=run(wf2, Backend()); print("C16 large item, config=None:", r)

# C02: wait_for_condition first failure vs replay
def chk(s,c): raise ValueError("boom")
cfg=WaitForConditionConfig(wait_strategy=lambda s,a: WaitForConditionDecision.stop_polling(), initial_state=0)
def wf3(ctx):
    try: ctx.wait_for_condition(chk,cfg,name="w")
    except Exception as e: return type(e).__name__
r,b=run(wf3, Backend()); print("C02 wfc first run raises:", r)
w=hashlib.blake2b(b"1").hexdigest()[:64]
ops={w:Operation(w,OperationType.STEP,OperationStatus.FAILED,step_details=StepDetails(error=ErrorObject("boom","ValueError",None,None)))}
r,b=run(wf3, Backend(), ops); print("C02 wfc replay raises:", r)
