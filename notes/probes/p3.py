import threading, time, hashlib, logging
from unittest.mock import Mock
exec(open("p2.py").read().split("# C06:")[0])
from aws_durable_execution_sdk_python.state import ReplayStatus, QueuedOperation
from aws_durable_execution_sdk_python.concurrency.models import *
logging.disable(logging.CRITICAL)
def h(s): return hashlib.blake2b(s.encode()).hexdigest()[:64]

# C17: failed step caught by user -> logger silent forever
class Cap:
    def __init__(s): s.recs=[]
    def info(s,msg,*a,extra=None): s.recs.append(msg)
    debug=warning=error=exception=info
a=h("1")
ops={a:Operation(a,OperationType.STEP,OperationStatus.FAILED,step_details=StepDetails(attempt=1,error=ErrorObject("x","ValueError",None,None)))}
cap=Cap()
def wf(ctx):
    ctx.set_logger(cap)
    try: ctx.step(lambda _: 1, name="a")
    except Exception as e: pass
    ctx.logger.info("after-failed-step")
    ctx.step(lambda _: 2, name="b")
    ctx.logger.info("after-new-step")
    return 1
st_holder={}
def run2(fn, backend, ops, replay):
    st=ExecutionState("arn","t0",dict(ops),backend,CheckpointBatcherConfig(max_batch_time_seconds=0.05),replay_status=replay)
    t=threading.Thread(target=st.checkpoint_batches_forever,daemon=True); t.start()
    ctx=DurableContext.from_lambda_context(st, Mock()); r=fn(ctx); st.stop_checkpointing(); return r
run2(wf, Backend(), ops, ReplayStatus.REPLAY)
print("C17 logs after caught FAILED step (expect both emitted):", cap.recs)

# C05: oversize item behind a non-empty batch
b=Backend()
st=ExecutionState("arn","t0",{},b,CheckpointBatcherConfig(max_batch_size_bytes=300,max_batch_time_seconds=0.05))
big=OperationUpdate("big",OperationType.STEP,OperationAction.SUCCEED,payload="x"*1000)
small=lambda i: OperationUpdate("s%d"%i,OperationType.STEP,OperationAction.START)
st._checkpoint_queue.put(QueuedOperation(small(0))); 
from aws_durable_execution_sdk_python.threading import CompletionEvent
ev=CompletionEvent(); st._checkpoint_queue.put(QueuedOperation(big,ev)); st._checkpoint_queue.put(QueuedOperation(small(1)))
t=threading.Thread(target=st.checkpoint_batches_forever,daemon=True); t.start()
time.sleep(1.0); st._checkpoint_queue.put(QueuedOperation(small(2))); time.sleep(0.5)
print("C05 delivered:", [[u.operation_id for u in c] for c in b.calls], "big released:", ev.is_set()); st.stop_checkpointing()

# C09: completion reason inconsistency
items=[BatchItem(0,BatchItemStatus.FAILED,error=ErrorObject("m","t",None,None)),BatchItem(1,BatchItemStatus.STARTED),BatchItem(2,BatchItemStatus.STARTED)]
cfg=CompletionConfig(min_successful=1)
c=ExecutionCounters(3,1,None,None); c.fail_task()
print("C09 should_complete:", c.should_complete(), "reason:", BatchResult.from_items(items,cfg).completion_reason)
