"""finding_1: the handler's input event is lost when a re-invocation receives its history paginated.

Run with:  PYTHONPATH=/tmp/wt/h2_C02/src /venv/bin/python /tmp/wt/h2_C02/finding_1.py

Property C02 (replay transparency): the final outcome of an execution must not depend on where or how
often the execution was suspended.

execution.durable_execution() reads the input payload of the execution from the FIRST PAGE of the initial
execution state only (InitialExecutionState.get_input_payload()), before the remaining pages are fetched.
The SDK itself documents that the first page may be empty ("Due to payload size limitations we may have
an empty operations list. This will only happen when loading the initial page of results and is expected
behaviour") and then loads everything - including the EXECUTION operation that carries the input - through
GetDurableExecutionState. But the event handed to the user's handler was already computed from the empty
first page, so the handler is called with {} instead of the real input.

Scenario: a deterministic two-step workflow that suspends once on a wait.
  run A: the re-invocation gets the whole history inline                   -> SUCCEEDED, result 21
  run B: the re-invocation gets an empty first page + a marker (paginated) -> the same recorded history,
         but the handler now sees event == {} : KeyError, execution FAILED.
"""

from __future__ import annotations

import dataclasses
import datetime
import logging
import sys

from aws_durable_execution_sdk_python.config import Duration
from aws_durable_execution_sdk_python.context import DurableContext
from aws_durable_execution_sdk_python.execution import (
    DurableExecutionInvocationInputWithClient,
    InitialExecutionState,
    durable_execution,
)
from aws_durable_execution_sdk_python.lambda_service import (
    CheckpointOutput,
    CheckpointUpdatedExecutionState,
    ExecutionDetails,
    Operation,
    OperationAction,
    OperationStatus,
    OperationType,
    StateOutput,
    StepDetails,
    WaitDetails,
)

logging.disable(logging.CRITICAL)


class Backend:
    """Minimal in-memory stand-in for the durable execution service."""

    def __init__(self, input_payload: str):
        self.exec_op = Operation(
            operation_id="exec-1",
            operation_type=OperationType.EXECUTION,
            status=OperationStatus.STARTED,
            execution_details=ExecutionDetails(input_payload=input_payload),
        )
        self.ops: dict[str, Operation] = {}
        self.token = 0
        self.state_calls = 0

    def checkpoint(self, durable_execution_arn, checkpoint_token, updates, client_token):
        changed = []
        for u in updates:
            common = dict(
                operation_id=u.operation_id,
                operation_type=u.operation_type,
                parent_id=u.parent_id,
                name=u.name,
                sub_type=u.sub_type,
            )
            if u.operation_type is OperationType.STEP:
                if u.action is OperationAction.START:
                    op = Operation(status=OperationStatus.STARTED, step_details=StepDetails(), **common)
                elif u.action is OperationAction.SUCCEED:
                    op = Operation(status=OperationStatus.SUCCEEDED, step_details=StepDetails(attempt=1, result=u.payload), **common)
                else:
                    raise AssertionError(u.action)
            elif u.operation_type is OperationType.WAIT:
                end = datetime.datetime.now(tz=datetime.UTC) + datetime.timedelta(seconds=u.wait_options.wait_seconds)
                op = Operation(status=OperationStatus.STARTED, wait_details=WaitDetails(scheduled_end_timestamp=end), **common)
            else:
                raise AssertionError(u.operation_type)
            self.ops[op.operation_id] = op
            changed.append(op)
        self.token += 1
        return CheckpointOutput(
            checkpoint_token=f"tok-{self.token}",
            new_execution_state=CheckpointUpdatedExecutionState(operations=changed),
        )

    def get_execution_state(self, durable_execution_arn, checkpoint_token, next_marker, max_items=1000):
        # one page with the complete history (EXECUTION operation first, as always)
        self.state_calls += 1
        assert next_marker == "page-1"
        return StateOutput(operations=[self.exec_op, *self.ops.values()], next_marker=None)

    def timers_fire(self):
        for oid, op in self.ops.items():
            if op.operation_type is OperationType.WAIT and op.status is OperationStatus.STARTED:
                self.ops[oid] = dataclasses.replace(op, status=OperationStatus.SUCCEEDED)


class LambdaContext:
    aws_request_id = "req"
    client_context = None
    identity = None
    invoked_function_arn = "arn"
    tenant_id = None
    _epoch_deadline_time_in_ms = 0


SEEN_EVENTS: list = []


@durable_execution
def handler(event, ctx: DurableContext):
    SEEN_EVENTS.append(dict(event))
    x = event["x"]
    a = ctx.step(lambda _: x + 1, name="s1")
    ctx.wait(Duration.from_seconds(1), name="w")
    return ctx.step(lambda _: a + event["x"], name="s2")


def run(paginate_reinvocation: bool):
    SEEN_EVENTS.clear()
    be = Backend('{"x": 10}')
    outputs = []
    for invocation in (1, 2):
        if invocation == 2 and paginate_reinvocation:
            # legal (the SDK says so itself): nothing inline, everything behind the marker
            initial = InitialExecutionState(operations=[], next_marker="page-1")
        else:
            initial = InitialExecutionState(operations=[be.exec_op, *be.ops.values()], next_marker="")
        out = handler(
            DurableExecutionInvocationInputWithClient(
                durable_execution_arn="arn:test",
                checkpoint_token=f"tok-{be.token}",
                initial_execution_state=initial,
                service_client=be,
            ),
            LambdaContext(),
        )
        outputs.append(out)
        if out["Status"] != "PENDING":
            break
        be.timers_fire()
    return outputs, list(SEEN_EVENTS), be


def main() -> int:
    out_a, events_a, _ = run(paginate_reinvocation=False)
    out_b, events_b, be_b = run(paginate_reinvocation=True)
    print("run A (history inline)   :", out_a[-1], "events seen:", events_a)
    print("run B (history paginated):", out_b[-1], "events seen:", events_b)
    assert out_a[0]["Status"] == "PENDING" and out_b[0]["Status"] == "PENDING"
    assert out_a[-1] == {"Status": "SUCCEEDED", "Result": "21"}, out_a
    assert be_b.state_calls == 1, "the paginated history was fetched (EXECUTION operation included)"
    assert events_b[0] == {"x": 10}
    assert events_b[1] == events_b[0], (
        "C02 violated: the re-invocation that received its history paginated (empty first page) called the "
        f"handler with event {events_b[1]!r} instead of {events_b[0]!r}"
    )
    assert out_b[-1] == out_a[-1], (
        "C02 violated: same workflow, same recorded history, but the outcome depends on how the history "
        f"was handed to the re-invocation: {out_a[-1]!r} vs {out_b[-1]!r}"
    )
    return 0


if __name__ == "__main__":
    sys.exit(main())
