"""finding_2: an interrupted at-most-once step delivers StepInterruptedError first and CallableRuntimeError on replay.

Run with:  PYTHONPATH=/tmp/wt/h2_C02/src /venv/bin/python /tmp/wt/h2_C02/finding_2.py

Property C02 (replay transparency): the exception that a durable operation call delivers to user code when
it is replayed equals (same class, same message) what that call delivered when it first completed, so
try/except by exception class takes the same path on every replay, and the final outcome does not depend on
where or how often the execution crashed.

operation/step.py: when a step with StepSemantics.AT_MOST_ONCE_PER_RETRY is found STARTED (the previous
invocation died inside the step function) and the retry strategy says "no retry",
StepOperationExecutor.retry_handler() records FAIL for the step and then does

        if isinstance(error, StepInterruptedError):
            raise error                                  # <- first delivery: StepInterruptedError
        raise error_object.to_callable_runtime_error()

whereas every later replay of the very same call finds the step FAILED and check_result_status() raises
checkpointed_result.raise_callable_error()               # <- replay: CallableRuntimeError

So the completed (durably FAILED) step call delivers two different exception classes.  Inside a child
context this is not just cosmetic: the user's `except CallableRuntimeError` does not catch the first
delivery, ChildOperationExecutor.execute() records the child context as FAILED with that error - and the
outcome of the whole execution now depends on whether the process happened to die once more before that
record was written (then the step is replayed, raises CallableRuntimeError, the user's handler compensates
and the child context SUCCEEDS).

Workflow (deterministic, public API only):

    def reserve(c):
        try:
            return c.step(charge_card, name="charge", config=<no retry, AT_MOST_ONCE_PER_RETRY>)
        except CallableRuntimeError as e:
            return "compensated:" + e.error_type
    handler = lambda event, ctx: ctx.run_in_child_context(reserve, name="reserve")

Interruption pattern A: the process dies inside charge_card (invocation 1).
Interruption pattern B: as A, and the process dies once more in invocation 2, at the backend call that
                        would have recorded the child context's FAIL (the call is not applied).
In both patterns the step itself ends up with the identical record: FAILED / StepInterruptedError.
"""

from __future__ import annotations

import logging
import sys
import threading

from aws_durable_execution_sdk_python.config import StepConfig, StepSemantics
from aws_durable_execution_sdk_python.context import DurableContext
from aws_durable_execution_sdk_python.exceptions import CallableRuntimeError
from aws_durable_execution_sdk_python.execution import (
    DurableExecutionInvocationInputWithClient,
    InitialExecutionState,
    durable_execution,
)
from aws_durable_execution_sdk_python.lambda_service import (
    CheckpointOutput,
    CheckpointUpdatedExecutionState,
    ContextDetails,
    ExecutionDetails,
    Operation,
    OperationAction,
    OperationStatus,
    OperationType,
    StateOutput,
    StepDetails,
)
from aws_durable_execution_sdk_python.retries import RetryPresets

logging.disable(logging.CRITICAL)


class ProcessDied(BaseException):
    """Stands for the Lambda sandbox dying (nothing after this point runs in that invocation)."""


class Backend:
    def __init__(self, die_at_context_fail: bool):
        self.exec_op = Operation(
            operation_id="exec-1",
            operation_type=OperationType.EXECUTION,
            status=OperationStatus.STARTED,
            execution_details=ExecutionDetails(input_payload="{}"),
        )
        self.ops: dict[str, Operation] = {}
        self.token = 0
        self.die_at_context_fail = die_at_context_fail
        self.lock = threading.Lock()

    def checkpoint(self, durable_execution_arn, checkpoint_token, updates, client_token):
        with self.lock:
            if self.die_at_context_fail and any(
                u.operation_type is OperationType.CONTEXT and u.action is OperationAction.FAIL for u in updates
            ):
                self.die_at_context_fail = False  # only once
                msg = "process died before this checkpoint call reached the backend"
                raise RuntimeError(msg)
            changed = []
            for u in updates:
                old = self.ops.get(u.operation_id)
                assert old is None or old.status not in (OperationStatus.SUCCEEDED, OperationStatus.FAILED), u
                common = dict(
                    operation_id=u.operation_id,
                    operation_type=u.operation_type,
                    parent_id=u.parent_id,
                    name=u.name,
                    sub_type=u.sub_type,
                )
                if u.operation_type is OperationType.STEP:
                    if u.action is OperationAction.START:
                        op = Operation(status=OperationStatus.STARTED, step_details=StepDetails(), **common)
                    elif u.action is OperationAction.SUCCEED:
                        op = Operation(status=OperationStatus.SUCCEEDED, step_details=StepDetails(attempt=1, result=u.payload), **common)
                    elif u.action is OperationAction.FAIL:
                        op = Operation(status=OperationStatus.FAILED, step_details=StepDetails(attempt=1, error=u.error), **common)
                    else:
                        raise AssertionError(u.action)
                elif u.operation_type is OperationType.CONTEXT:
                    if u.action is OperationAction.START:
                        op = Operation(status=OperationStatus.STARTED, **common)
                    elif u.action is OperationAction.SUCCEED:
                        op = Operation(status=OperationStatus.SUCCEEDED, context_details=ContextDetails(result=u.payload), **common)
                    else:
                        op = Operation(status=OperationStatus.FAILED, context_details=ContextDetails(error=u.error), **common)
                else:
                    raise AssertionError(u.operation_type)
                self.ops[op.operation_id] = op
                changed.append(op)
            self.token += 1
            return CheckpointOutput(
                checkpoint_token=f"tok-{self.token}",
                new_execution_state=CheckpointUpdatedExecutionState(operations=changed),
            )

    def get_execution_state(self, *a, **kw):
        return StateOutput(operations=[], next_marker=None)


class LambdaContext:
    aws_request_id = "req"
    client_context = None
    identity = None
    invoked_function_arn = "arn"
    tenant_id = None
    _epoch_deadline_time_in_ms = 0


STATE = {"invocation": 0, "charge_calls": 0}
DELIVERIES: list[tuple[int, str, str]] = []  # (invocation, exception class, message) delivered by c.step(charge)

AT_MOST_ONCE_NO_RETRY = StepConfig(
    retry_strategy=RetryPresets.none(),
    step_semantics=StepSemantics.AT_MOST_ONCE_PER_RETRY,
)


def charge_card(_step_context):
    STATE["charge_calls"] += 1
    if STATE["invocation"] == 1:
        raise ProcessDied  # the sandbox dies in the middle of the step function
    return "charged"


def reserve(c: DurableContext):
    try:
        try:
            return c.step(charge_card, name="charge", config=AT_MOST_ONCE_NO_RETRY)
        except Exception as e:  # observation only - re-raised unchanged
            DELIVERIES.append((STATE["invocation"], type(e).__name__, str(e)))
            raise
    except CallableRuntimeError as e:
        # the documented way to react to a failed step
        return f"compensated:{e.error_type}"


@durable_execution
def handler(event, ctx: DurableContext):
    return ctx.run_in_child_context(reserve, name="reserve")


def run(die_at_context_fail: bool):
    STATE.update(invocation=0, charge_calls=0)
    DELIVERIES.clear()
    be = Backend(die_at_context_fail)
    trace = []
    for invocation in range(1, 8):
        STATE["invocation"] = invocation
        try:
            out = handler(
                DurableExecutionInvocationInputWithClient(
                    durable_execution_arn="arn:test",
                    checkpoint_token=f"tok-{be.token}",
                    initial_execution_state=InitialExecutionState(
                        operations=[be.exec_op, *be.ops.values()], next_marker=""
                    ),
                    service_client=be,
                ),
                LambdaContext(),
            )
        except BaseException as e:  # noqa: BLE001 - the invocation ended abnormally: Lambda invokes again
            trace.append((invocation, "invocation error", type(e).__name__))
            continue
        trace.append((invocation, out))
        assert out["Status"] != "PENDING"
        step_record = next(op for op in be.ops.values() if op.name == "charge")
        return out, trace, list(DELIVERIES), step_record
    raise AssertionError(f"no outcome: {trace}")


def main() -> int:
    out_a, trace_a, deliveries_a, step_a = run(die_at_context_fail=False)
    out_b, trace_b, deliveries_b, step_b = run(die_at_context_fail=True)
    print("pattern A trace     :", trace_a)
    print("pattern A deliveries:", deliveries_a)
    print("pattern B trace     :", trace_b)
    print("pattern B deliveries:", deliveries_b)
    print("step record A/B     :", step_a.status, step_a.step_details.error.type, "/", step_b.status, step_b.step_details.error.type)

    # same durable record of the step in both patterns, and the step function ran exactly once
    assert step_a.status is OperationStatus.FAILED and step_b.status is OperationStatus.FAILED
    assert step_a.step_details.error == step_b.step_details.error
    assert STATE["charge_calls"] == 1

    # clause 1: what the completed call c.step("charge") delivers must be the same on every replay
    classes_b = [(cls, msg) for _, cls, msg in deliveries_b]
    assert len(classes_b) == 2, deliveries_b
    assert classes_b[0] == classes_b[1], (
        "C02 violated: the step call that completed as FAILED delivered "
        f"{classes_b[0][0]} when it first completed (invocation {deliveries_b[0][0]}) but "
        f"{classes_b[1][0]} when it was replayed (invocation {deliveries_b[1][0]}); "
        "`except CallableRuntimeError` catches only the replay"
    )

    # clause 2: the final outcome must not depend on where / how often the execution crashed
    assert out_a == out_b, f"C02 violated: outcome depends on the crash pattern: A={out_a!r} B={out_b!r}"
    return 0


if __name__ == "__main__":
    sys.exit(main())
