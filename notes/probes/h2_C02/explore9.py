import sys, time
sys.path.insert(0, "/tmp/wt/h2_C02")
from explore1 import *
from aws_durable_execution_sdk_python.exceptions import CallbackError
BIG = "z" * 300_000

def wf(event, ctx, rec):
    o = rec.obs
    def A(c):
        def big(cc):
            cb = cc.create_callback(name="cbA")
            try:
                cb.result()
            except CallbackError:
                pass
            return BIG
        r = o("A.big", lambda: c.run_in_child_context(big, name="big"))
        o("A.w", lambda: c.wait(Duration(1)))
        return len(r)
    def B(c):
        o("B.cb", lambda: c.wait_for_callback(lambda cid, cc: None, name="cbB"))
        def slow(_):
            time.sleep(3)
            return 1
        return o("B.s", lambda: c.step(slow, name="slow"))
    p = o("par", lambda: ctx.parallel([A, B], name="par", config=ParallelConfig(completion_config=CompletionConfig(tolerated_failure_count=10))))
    return canon(p)

import logging
logging.disable(logging.NOTSET)
logging.basicConfig(level=logging.DEBUG)
logging.getLogger().addFilter(lambda r: True)
be = Backend()
be.callback_script["cbA"] = ("fail", ErrorObject("nope", "X", None, None))
final, rec, be, trace = run_execution(wf, backend=be, invocation_timeout=15)
print(final, trace)
sys.stdout.flush()
import os
os._exit(0)
