"""Exploration harness: in-memory fake backend + multi-invocation driver with crash injection.

Not a deliverable by itself; the finding scripts are standalone.
"""

from __future__ import annotations

import datetime
import itertools
import threading
import time
import traceback
from typing import Any, Callable

from aws_durable_execution_sdk_python import state as sdk_state
from aws_durable_execution_sdk_python.execution import (
    DurableExecutionInvocationInputWithClient,
    InitialExecutionState,
    durable_execution,
)
from aws_durable_execution_sdk_python.lambda_service import (
    CallbackDetails,
    ChainedInvokeDetails,
    CheckpointOutput,
    CheckpointUpdatedExecutionState,
    ContextDetails,
    ErrorObject,
    ExecutionDetails,
    Operation,
    OperationAction,
    OperationStatus,
    OperationType,
    OperationUpdate,
    StateOutput,
    StepDetails,
    WaitDetails,
)

UTC = datetime.UTC


class Crash(BaseException):
    """Simulated process death."""


class BackendCrash(Exception):
    """Simulated process death at a backend call (raised out of the service client)."""


def now():
    return datetime.datetime.now(tz=UTC)


class Backend:
    def __init__(self, input_payload: str = "{}", page_size: int | None = None):
        self.lock = threading.Lock()
        self.ops: dict[str, Operation] = {}
        self.exec_op = Operation(
            operation_id="exec-1",
            operation_type=OperationType.EXECUTION,
            status=OperationStatus.STARTED,
            execution_details=ExecutionDetails(input_payload=input_payload),
        )
        self.token = 0
        self.calls = 0  # number of checkpoint calls (global over all invocations)
        self.crash_calls: dict[int, str] = {}  # call number -> "before" | "after"
        self.page_size = page_size
        self.update_log: list[list[OperationUpdate]] = []
        self.callback_script: dict[str, tuple[str, Any]] = {}  # name -> ("ok", payload) | ("fail", ErrorObject)
        self.invoke_script: dict[str, tuple[str, Any]] = {}
        self.cb_counter = itertools.count(1)

    # ---- model -------------------------------------------------------
    def _apply(self, u: OperationUpdate) -> Operation:
        old = self.ops.get(u.operation_id)
        t = u.operation_type
        a = u.action
        common = dict(
            operation_id=u.operation_id,
            operation_type=t,
            parent_id=u.parent_id,
            name=u.name,
            sub_type=u.sub_type,
        )
        if old is not None and old.status in {
            OperationStatus.SUCCEEDED,
            OperationStatus.FAILED,
        }:
            raise RuntimeError(f"update for terminal operation {u.operation_id} {u.name} {a}")
        if t is OperationType.STEP:
            attempt = old.step_details.attempt if old and old.step_details else 0
            prev_result = old.step_details.result if old and old.step_details else None
            if a is OperationAction.START:
                op = Operation(status=OperationStatus.STARTED, step_details=StepDetails(attempt=attempt, result=prev_result), **common)
            elif a is OperationAction.RETRY:
                delay = u.step_options.next_attempt_delay_seconds if u.step_options else 1
                op = Operation(
                    status=OperationStatus.PENDING,
                    step_details=StepDetails(
                        attempt=attempt + 1,
                        next_attempt_timestamp=now() + datetime.timedelta(seconds=delay),
                        result=u.payload,
                        error=u.error,
                    ),
                    **common,
                )
            elif a is OperationAction.SUCCEED:
                op = Operation(status=OperationStatus.SUCCEEDED, step_details=StepDetails(attempt=attempt + 1, result=u.payload), **common)
            elif a is OperationAction.FAIL:
                op = Operation(status=OperationStatus.FAILED, step_details=StepDetails(attempt=attempt + 1, error=u.error), **common)
            else:
                raise RuntimeError(a)
        elif t is OperationType.CONTEXT:
            if a is OperationAction.START:
                op = Operation(status=OperationStatus.STARTED, **common)
            elif a is OperationAction.SUCCEED:
                rc = bool(u.context_options and u.context_options.replay_children)
                op = Operation(status=OperationStatus.SUCCEEDED, context_details=ContextDetails(replay_children=rc, result=u.payload or None), **common)
            elif a is OperationAction.FAIL:
                op = Operation(status=OperationStatus.FAILED, context_details=ContextDetails(error=u.error), **common)
            else:
                raise RuntimeError(a)
        elif t is OperationType.WAIT:
            secs = u.wait_options.wait_seconds if u.wait_options else 1
            op = Operation(status=OperationStatus.STARTED, wait_details=WaitDetails(scheduled_end_timestamp=now() + datetime.timedelta(seconds=secs)), **common)
        elif t is OperationType.CALLBACK:
            op = Operation(status=OperationStatus.STARTED, callback_details=CallbackDetails(callback_id=f"cb-{next(self.cb_counter)}"), **common)
        elif t is OperationType.CHAINED_INVOKE:
            op = Operation(status=OperationStatus.STARTED, chained_invoke_details=ChainedInvokeDetails(), **common)
        elif t is OperationType.EXECUTION:
            return self.exec_op
        else:
            raise RuntimeError(t)
        self.ops[u.operation_id] = op
        return op

    def _tick(self, force: bool = False) -> list[Operation]:
        """Time based transitions (real time, or all of them when force)."""
        changed = []
        n = now()
        for oid, op in list(self.ops.items()):
            new = None
            if op.operation_type is OperationType.WAIT and op.status is OperationStatus.STARTED:
                if force or (op.wait_details and op.wait_details.scheduled_end_timestamp <= n):
                    new = _replace(op, status=OperationStatus.SUCCEEDED)
            elif op.operation_type is OperationType.STEP and op.status is OperationStatus.PENDING:
                if force or op.step_details.next_attempt_timestamp <= n:
                    new = _replace(op, status=OperationStatus.READY)
            if new is not None:
                self.ops[oid] = new
                changed.append(new)
        return changed

    def deliver_external(self) -> list[Operation]:
        """Complete callbacks / invokes according to the script."""
        changed = []
        for oid, op in list(self.ops.items()):
            if op.status is not OperationStatus.STARTED:
                continue
            if op.operation_type is OperationType.CALLBACK:
                kind, val = self.callback_script.get(op.name or "", self.callback_script.get("*", ("ok", '"cbres"')))
                if kind == "hold":
                    continue
                if kind == "ok":
                    new = _replace(op, status=OperationStatus.SUCCEEDED, callback_details=CallbackDetails(op.callback_details.callback_id, result=val))
                else:
                    st = {"fail": OperationStatus.FAILED, "timeout": OperationStatus.TIMED_OUT}[kind]
                    new = _replace(op, status=st, callback_details=CallbackDetails(op.callback_details.callback_id, error=val))
            elif op.operation_type is OperationType.CHAINED_INVOKE:
                kind, val = self.invoke_script.get(op.name or "", self.invoke_script.get("*", ("ok", '"invres"')))
                if kind == "ok":
                    new = _replace(op, status=OperationStatus.SUCCEEDED, chained_invoke_details=ChainedInvokeDetails(result=val))
                else:
                    st = {"fail": OperationStatus.FAILED, "timeout": OperationStatus.TIMED_OUT, "stop": OperationStatus.STOPPED}[kind]
                    new = _replace(op, status=st, chained_invoke_details=ChainedInvokeDetails(error=val))
            else:
                continue
            self.ops[oid] = new
            changed.append(new)
        return changed

    # ---- DurableServiceClient ---------------------------------------
    def checkpoint(self, durable_execution_arn, checkpoint_token, updates, client_token):
        with self.lock:
            self.calls += 1
            mode = self.crash_calls.get(self.calls)
            if mode == "before":
                raise BackendCrash(f"crash before call {self.calls}")
            self.update_log.append(list(updates))
            changed: dict[str, Operation] = {}
            for u in updates:
                op = self._apply(u)
                changed[op.operation_id] = op
            for op in self._tick():
                changed[op.operation_id] = op
            # always report the current version
            out = [self.ops[i] for i in changed if i in self.ops]
            self.token += 1
            if mode == "after":
                raise BackendCrash(f"crash after call {self.calls}")
            return CheckpointOutput(
                checkpoint_token=f"tok-{self.token}",
                new_execution_state=CheckpointUpdatedExecutionState(operations=out),
            )

    def get_execution_state(self, durable_execution_arn, checkpoint_token, next_marker, max_items=1000):
        with self.lock:
            allops = [self.exec_op, *self.ops.values()]
            start = int(next_marker)
            ps = self.page_size or 1000
            page = allops[start : start + ps]
            nm = str(start + ps) if start + ps < len(allops) else None
            return StateOutput(operations=page, next_marker=nm)

    # ---- driver side --------------------------------------------------
    def initial_state(self, first_page_empty: bool = False) -> InitialExecutionState:
        with self.lock:
            allops = [self.exec_op, *self.ops.values()]
            if first_page_empty:
                return InitialExecutionState(operations=[], next_marker="0")
            if self.page_size and len(allops) > self.page_size:
                return InitialExecutionState(operations=allops[: self.page_size], next_marker=str(self.page_size))
            return InitialExecutionState(operations=allops, next_marker="")


def _replace(op: Operation, **kw) -> Operation:
    import dataclasses

    return dataclasses.replace(op, **kw)


class FakeLambdaContext:
    aws_request_id = "req"
    client_context = None
    identity = None
    invoked_function_arn = "arn"
    tenant_id = None
    _epoch_deadline_time_in_ms = 0

    def get_remaining_time_in_millis(self):
        return 100000

    def log(self, *a):
        pass


def fast_batcher(seconds: float = 0.0):
    """Speed up exploration: shrink the batching window (monkeypatch, exploration only)."""
    orig_init = sdk_state.ExecutionState.__init__

    def patched(self, *a, **kw):
        if kw.get("batcher_config") is None:
            kw["batcher_config"] = sdk_state.CheckpointBatcherConfig(max_batch_time_seconds=seconds)
        orig_init(self, *a, **kw)

    sdk_state.ExecutionState.__init__ = patched


class Recorder:
    """Collects what user code observed, per invocation."""

    def __init__(self):
        self.lock = threading.Lock()
        self.invocation = 0
        self.deliveries: dict[str, list[tuple[int, tuple]]] = {}

    def record(self, label: str, outcome: tuple):
        with self.lock:
            self.deliveries.setdefault(label, []).append((self.invocation, outcome))

    def obs(self, label: str, thunk: Callable[[], Any]):
        try:
            v = thunk()
        except Exception as e:  # deliveries only; BaseExceptions are suspensions / crashes
            self.record(label, ("err", type(e).__name__, str(e), getattr(e, "error_type", None)))
            raise
        self.record(label, ("ok", type(v).__name__, canon(v)))
        return v

    def inconsistencies(self):
        bad = {}
        for label, lst in self.deliveries.items():
            outs = {o for _, o in lst}
            if len(outs) > 1:
                bad[label] = lst
        return bad


def canon(v):
    from aws_durable_execution_sdk_python.concurrency.models import BatchResult

    if isinstance(v, BatchResult):
        return (
            "BatchResult",
            tuple(
                (i.index, i.status.value, type(i.result).__name__, canon(i.result), (i.error.type, i.error.message) if i.error else None)
                for i in v.all
            ),
            v.completion_reason.value,
        )
    if isinstance(v, (list, tuple)):
        return (type(v).__name__, tuple(canon(x) for x in v))
    if isinstance(v, dict):
        return ("dict", tuple(sorted((k, canon(x)) for k, x in v.items())))
    return repr(v)


def run_execution(
    workflow: Callable,  # workflow(event, ctx, rec) -> result
    *,
    input_payload: str = "{}",
    crash_calls: dict[int, str] | None = None,
    backend: Backend | None = None,
    max_invocations: int = 60,
    first_page_empty_from: int | None = None,
    page_size: int | None = None,
    user_crash: Callable[[int], None] | None = None,
    verbose: bool = False,
    invocation_timeout: float = 60.0,
):
    """Drive an execution to completion. Returns (final, recorder, backend, trace)."""
    be = backend or Backend(input_payload, page_size=page_size)
    if crash_calls:
        be.crash_calls = dict(crash_calls)
    rec = Recorder()
    trace = []

    @durable_execution
    def handler(event, ctx):
        return workflow(event, ctx, rec)

    final = None
    for inv in range(1, max_invocations + 1):
        rec.invocation = inv
        empty = first_page_empty_from is not None and inv >= first_page_empty_from
        inp = DurableExecutionInvocationInputWithClient(
            durable_execution_arn="arn:test",
            checkpoint_token=f"tok-{be.token}",
            initial_execution_state=be.initial_state(first_page_empty=empty),
            service_client=be,
        )
        result_box = {}

        def target():
            try:
                result_box["out"] = handler(inp, FakeLambdaContext())
            except BaseException as e:  # noqa
                result_box["exc"] = e

        th = threading.Thread(target=target, daemon=True)
        th.start()
        th.join(invocation_timeout)
        if th.is_alive():
            trace.append((inv, "HANG"))
            final = ("HANG", None)
            break
        if "exc" in result_box:
            e = result_box["exc"]
            trace.append((inv, "raised", type(e).__name__, str(e)))
            if verbose:
                print("inv", inv, "raised", type(e).__name__, e)
            # Lambda retries the invocation
            time.sleep(0.01)
            continue
        out = result_box["out"]
        trace.append((inv, out["Status"], out.get("Result"), out.get("Error")))
        if verbose:
            print("inv", inv, out)
        if out["Status"] == "PENDING":
            be._tick(force=True)
            be.deliver_external()
            continue
        final = (out["Status"], out.get("Result"), (out.get("Error") or {}).get("ErrorType"), (out.get("Error") or {}).get("ErrorMessage"))
        break
    return final, rec, be, trace
