"""Scratch harness for the C03 (write-ahead) hunt. Not part of the SDK.

An in-memory fake backend that applies OperationUpdates, a driver for the durable_execution wrapper,
and an instrumented OperationExecutor.process that checks, at the moment an operation call hands an
outcome to user code, that the backend has accepted the corresponding record.
"""

from __future__ import annotations

import datetime
import threading
import time
from typing import Any
from unittest.mock import Mock

from aws_durable_execution_sdk_python.exceptions import (
    BackgroundThreadError,
    OrphanedChildException,
    SuspendExecution,
)
from aws_durable_execution_sdk_python.execution import (
    DurableExecutionInvocationInputWithClient,
    InitialExecutionState,
)
from aws_durable_execution_sdk_python.lambda_service import (
    CallbackDetails,
    ChainedInvokeDetails,
    CheckpointOutput,
    CheckpointUpdatedExecutionState,
    ContextDetails,
    ExecutionDetails,
    Operation,
    OperationAction,
    OperationStatus,
    OperationType,
    StateOutput,
    StepDetails,
    WaitDetails,
)
from aws_durable_execution_sdk_python.operation import base as op_base
from aws_durable_execution_sdk_python.operation.callback import (
    CallbackOperationExecutor,
)
from aws_durable_execution_sdk_python.operation.child import ChildOperationExecutor
from aws_durable_execution_sdk_python.operation.invoke import InvokeOperationExecutor
from aws_durable_execution_sdk_python.operation.wait import WaitOperationExecutor

UTC = datetime.UTC
TERMINAL = {
    OperationStatus.SUCCEEDED,
    OperationStatus.FAILED,
    OperationStatus.CANCELLED,
    OperationStatus.STOPPED,
    OperationStatus.TIMED_OUT,
}


class InjectedFailure(Exception):
    pass


class Backend:
    """Fake durable backend. `ops` only ever changes when a checkpoint call is ACCEPTED."""

    def __init__(self, page_size: int | None = None):
        self.lock = threading.RLock()
        self.ops: dict[str, Operation] = {}
        self.order: list[str] = []
        self.calls = 0
        self.accepted_batches: list[list] = []
        self.hook = None  # hook(call_no, updates) -> may raise / block, runs before applying
        self.post_hook = None  # after applying, before returning
        self.page_size = page_size
        self.exec_op = Operation(
            operation_id="exec-0",
            operation_type=OperationType.EXECUTION,
            status=OperationStatus.STARTED,
            execution_details=ExecutionDetails(input_payload="{}"),
        )
        self.execution_result = None

    # -- DurableServiceClient -------------------------------------------------------------
    def checkpoint(self, durable_execution_arn, checkpoint_token, updates, client_token):
        with self.lock:
            self.calls += 1
            n = self.calls
        if self.hook:
            self.hook(n, updates)
        with self.lock:
            changed = [self._apply(u) for u in updates]
            self.accepted_batches.append(list(updates))
        if self.post_hook:
            self.post_hook(n, updates)
        changed = [c for c in changed if c is not None]
        return CheckpointOutput(
            checkpoint_token=f"tok-{n}",
            new_execution_state=CheckpointUpdatedExecutionState(operations=changed),
        )

    def get_execution_state(self, durable_execution_arn, checkpoint_token, next_marker, max_items=1000):
        with self.lock:
            start = int(next_marker)
            allops = [self.exec_op] + [self.ops[i] for i in self.order]
            ps = self.page_size or 1000
            page = allops[start : start + ps]
            nm = str(start + ps) if start + ps < len(allops) else None
            return StateOutput(operations=page, next_marker=nm)

    # -- state machine ---------------------------------------------------------------------
    def _apply(self, u):
        now = datetime.datetime.now(tz=UTC)
        old = self.ops.get(u.operation_id)
        t, a = u.operation_type, u.action
        if t is OperationType.EXECUTION:
            self.execution_result = (a, u.payload, u.error)
            return None
        common = dict(
            operation_id=u.operation_id,
            operation_type=t,
            parent_id=u.parent_id,
            name=u.name,
            sub_type=u.sub_type,
        )
        if t is OperationType.STEP:
            attempt = old.step_details.attempt if old and old.step_details else 0
            prev_result = old.step_details.result if old and old.step_details else None
            if a is OperationAction.START:
                op = Operation(status=OperationStatus.STARTED, step_details=StepDetails(attempt=attempt, result=prev_result), **common)
            elif a is OperationAction.SUCCEED:
                op = Operation(status=OperationStatus.SUCCEEDED, step_details=StepDetails(attempt=attempt + 1, result=u.payload), **common)
            elif a is OperationAction.FAIL:
                op = Operation(status=OperationStatus.FAILED, step_details=StepDetails(attempt=attempt + 1, error=u.error), **common)
            elif a is OperationAction.RETRY:
                delay = u.step_options.next_attempt_delay_seconds if u.step_options else 1
                op = Operation(
                    status=OperationStatus.PENDING,
                    step_details=StepDetails(
                        attempt=attempt + 1,
                        next_attempt_timestamp=now + datetime.timedelta(seconds=delay or 0),
                        result=u.payload,
                        error=u.error,
                    ),
                    **common,
                )
            else:
                raise AssertionError(a)
        elif t is OperationType.WAIT:
            secs = u.wait_options.wait_seconds if u.wait_options else 1
            op = Operation(
                status=OperationStatus.STARTED,
                wait_details=WaitDetails(scheduled_end_timestamp=now + datetime.timedelta(seconds=secs)),
                **common,
            )
        elif t is OperationType.CALLBACK:
            op = Operation(status=OperationStatus.STARTED, callback_details=CallbackDetails(callback_id=f"cb-{u.operation_id[:8]}"), **common)
        elif t is OperationType.CHAINED_INVOKE:
            op = Operation(status=OperationStatus.STARTED, chained_invoke_details=ChainedInvokeDetails(), **common)
        elif t is OperationType.CONTEXT:
            if a is OperationAction.START:
                op = Operation(status=OperationStatus.STARTED, **common)
            elif a is OperationAction.SUCCEED:
                rc = bool(u.context_options and u.context_options.replay_children)
                op = Operation(status=OperationStatus.SUCCEEDED, context_details=ContextDetails(replay_children=rc, result=u.payload), **common)
            elif a is OperationAction.FAIL:
                op = Operation(status=OperationStatus.FAILED, context_details=ContextDetails(error=u.error), **common)
            else:
                raise AssertionError(a)
        else:
            raise AssertionError(t)
        if u.operation_id not in self.ops:
            self.order.append(u.operation_id)
        self.ops[u.operation_id] = op
        return op

    # -- "the world moves on" between invocations --------------------------------------------
    def deliver(self):
        """Complete waits, make retries ready, succeed callbacks and invokes."""
        with self.lock:
            for i, op in list(self.ops.items()):
                d = dict(operation_id=op.operation_id, operation_type=op.operation_type, parent_id=op.parent_id, name=op.name, sub_type=op.sub_type)
                if op.operation_type is OperationType.WAIT and op.status is OperationStatus.STARTED:
                    self.ops[i] = Operation(status=OperationStatus.SUCCEEDED, wait_details=op.wait_details, **d)
                elif op.operation_type is OperationType.STEP and op.status is OperationStatus.PENDING:
                    self.ops[i] = Operation(status=OperationStatus.READY, step_details=StepDetails(attempt=op.step_details.attempt, result=op.step_details.result, error=op.step_details.error), **d)
                elif op.operation_type is OperationType.CALLBACK and op.status is OperationStatus.STARTED:
                    self.ops[i] = Operation(status=OperationStatus.SUCCEEDED, callback_details=CallbackDetails(callback_id=op.callback_details.callback_id, result='"cb-result"'), **d)
                elif op.operation_type is OperationType.CHAINED_INVOKE and op.status is OperationStatus.STARTED:
                    self.ops[i] = Operation(status=OperationStatus.SUCCEEDED, chained_invoke_details=ChainedInvokeDetails(result='"inv-result"'), **d)

    def status(self, op_id):
        with self.lock:
            op = self.ops.get(op_id)
            return op.status if op else None

    def invocation_input(self, first_page: int | None = None):
        with self.lock:
            allops = [self.exec_op] + [self.ops[i] for i in self.order]
        if first_page is None or first_page >= len(allops):
            return DurableExecutionInvocationInputWithClient(
                durable_execution_arn="arn:test",
                checkpoint_token="tok-init",
                initial_execution_state=InitialExecutionState(operations=allops, next_marker=""),
                service_client=self,
            )
        return DurableExecutionInvocationInputWithClient(
            durable_execution_arn="arn:test",
            checkpoint_token="tok-init",
            initial_execution_state=InitialExecutionState(operations=allops[:first_page], next_marker=str(first_page)),
            service_client=self,
        )


def lambda_context():
    c = Mock()
    c.aws_request_id = "req"
    c.client_context = None
    c.identity = None
    c._epoch_deadline_time_in_ms = 10**12
    c.invoked_function_arn = None
    c.tenant_id = None
    return c


# ------------------------------------------------------------------------------------------
# Instrumentation: check the write-ahead rule where an operation hands its outcome to user code
# ------------------------------------------------------------------------------------------
class Monitor:
    def __init__(self):
        self.backend: Backend | None = None
        self.violations: list[str] = []
        self.events: list[tuple] = []
        self.lock = threading.Lock()

    def note(self, *ev):
        with self.lock:
            self.events.append(ev)

    def violate(self, msg):
        with self.lock:
            self.violations.append(msg)


MON = Monitor()
_orig_process = op_base.OperationExecutor.process


def _checked_process(self):
    be = MON.backend
    op_id = self.operation_identifier.operation_id
    kind = type(self).__name__
    try:
        result = _orig_process(self)
    except SuspendExecution:
        if be is not None and isinstance(self, (WaitOperationExecutor, InvokeOperationExecutor)):
            st = be.status(op_id)
            if st is None:
                MON.violate(f"{kind} {op_id[:8]} suspends but backend has no record of it")
        MON.note("suspend", kind, op_id)
        raise
    except (BackgroundThreadError, OrphanedChildException):
        MON.note("fatal", kind, op_id)
        raise
    except BaseException as e:
        if be is not None:
            st = be.status(op_id)
            if st not in TERMINAL:
                MON.violate(f"{kind} {op_id[:8]} raised {type(e).__name__}({e}) to its caller while backend status is {st}")
        MON.note("raise", kind, op_id, type(e).__name__)
        raise
    else:
        if be is not None:
            st = be.status(op_id)
            if isinstance(self, CallbackOperationExecutor):
                ok = st is not None
            else:
                ok = st is OperationStatus.SUCCEEDED
            if not ok:
                MON.violate(f"{kind} {op_id[:8]} returned {result!r} to its caller while backend status is {st}")
        MON.note("return", kind, op_id)
        return result


def install(backend: Backend):
    MON.backend = backend
    MON.violations = []
    MON.events = []
    op_base.OperationExecutor.process = _checked_process


def run_invocation(handler, backend: Backend, timeout: float = 20.0, first_page: int | None = None):
    """Run one invocation in a thread, return ('ok', output) | ('exc', exception) | ('hang', None)."""
    box: dict[str, Any] = {}

    def target():
        try:
            box["out"] = handler(backend.invocation_input(first_page), lambda_context())
        except BaseException as e:  # noqa: BLE001
            box["exc"] = e

    t = threading.Thread(target=target, daemon=True)
    t.start()
    t.join(timeout)
    if t.is_alive():
        return ("hang", None)
    if "exc" in box:
        return ("exc", box["exc"])
    return ("ok", box["out"])


def drive(handler, backend: Backend, max_invocations: int = 12, timeout: float = 20.0, first_page=None):
    """Invoke until not PENDING. Returns list of per-invocation outcomes."""
    outs = []
    for _ in range(max_invocations):
        kind, val = run_invocation(handler, backend, timeout, first_page)
        outs.append((kind, val))
        if kind != "ok" or val.get("Status") != "PENDING":
            break
        backend.deliver()
    return outs
