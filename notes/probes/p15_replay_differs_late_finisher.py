"""C09 finding 3: a branch that finishes between the completion decision and the parent's checkpoint is reported
STARTED on first delivery but SUCCEEDED (with a result) - and with another completion reason - on replay.

Run:  PYTHONPATH=/tmp/wt/h1_C09/src /venv/bin/python /tmp/wt/h1_C09/finding_3.py

parallel([a, b], first_successful). Branch a returns a 300 KB string (so the BatchResult is stored in ReplayChildren
mode: only a summary is checkpointed and a replay rebuilds the result from the branch checkpoints). Branch b finishes
while the checkpoint call that persists a's SUCCEED is in flight (the fake backend has 0.4 s latency per checkpoint
call and tells b to finish when it receives a's SUCCEED - nothing inside the SDK is touched). b's own SUCCEED passes
the orphan check (the parallel context has not completed yet) and is queued. When a's checkpoint returns, the policy
is decided: ConcurrentExecutor._create_result() sees b RUNNING -> STARTED, reason MIN_SUCCESSFUL_REACHED. The
parallel's SUCCEED is queued behind b's SUCCEED, so history records b as SUCCEEDED.
On the next invocation ConcurrentExecutor.replay() derives the items from the branch checkpoints:
[SUCCEEDED, SUCCEEDED], ALL_COMPLETED.
"""

from __future__ import annotations

import datetime
import sys
import threading
import time
from unittest.mock import Mock

from aws_durable_execution_sdk_python.config import CompletionConfig, MapConfig, ParallelConfig
from aws_durable_execution_sdk_python.execution import (
    DurableExecutionInvocationInputWithClient,
    InitialExecutionState,
    durable_execution,
)
from aws_durable_execution_sdk_python.lambda_service import (
    CheckpointOutput,
    CheckpointUpdatedExecutionState,
    ContextDetails,
    ExecutionDetails,
    Operation,
    OperationAction,
    OperationStatus,
    OperationType,
    StateOutput,
    StepDetails,
)


class FakeBackend:
    """In-memory durable backend: applies checkpoint updates, plays them back as history."""

    def __init__(self):
        self.lock = threading.Lock()
        self.ops: dict[str, Operation] = {}
        self.token = 0
        self.ops["exec-0"] = Operation(
            operation_id="exec-0",
            operation_type=OperationType.EXECUTION,
            status=OperationStatus.STARTED,
            execution_details=ExecutionDetails(input_payload="{}"),
        )

    def checkpoint(self, durable_execution_arn, checkpoint_token, updates, client_token=None):
        changed = []
        with self.lock:
            for u in updates:
                old = self.ops.get(u.operation_id)
                base = dict(
                    operation_id=u.operation_id,
                    operation_type=u.operation_type,
                    parent_id=u.parent_id or (old.parent_id if old else None),
                    name=u.name or (old.name if old else None),
                    sub_type=u.sub_type or (old.sub_type if old else None),
                    start_timestamp=datetime.datetime.now(tz=datetime.UTC),
                )
                details = {}
                if u.operation_type is OperationType.CONTEXT:
                    details["context_details"] = ContextDetails(
                        replay_children=bool(u.context_options and u.context_options.replay_children),
                        result=u.payload,
                        error=u.error,
                    )
                elif u.operation_type is OperationType.STEP:
                    details["step_details"] = StepDetails(attempt=1, result=u.payload, error=u.error)
                status = {
                    OperationAction.START: OperationStatus.STARTED,
                    OperationAction.SUCCEED: OperationStatus.SUCCEEDED,
                    OperationAction.FAIL: OperationStatus.FAILED,
                }[u.action]
                op = Operation(status=status, **base, **details)
                self.ops[u.operation_id] = op
                changed.append(op)
            self.token += 1
            return CheckpointOutput(
                checkpoint_token=f"tok-{self.token}",
                new_execution_state=CheckpointUpdatedExecutionState(operations=changed, next_marker=None),
            )

    def get_execution_state(self, durable_execution_arn, checkpoint_token, next_marker, max_items=1000):
        return StateOutput(operations=[], next_marker=None)

    def history(self):
        with self.lock:
            return list(self.ops.values())


def invoke(handler, backend, timeout=30.0):
    ctx = Mock()
    ctx.aws_request_id = "req"
    ctx.invoked_function_arn = "arn"
    ctx.tenant_id = None
    event = DurableExecutionInvocationInputWithClient(
        durable_execution_arn="arn:exec",
        checkpoint_token="tok",
        initial_execution_state=InitialExecutionState(operations=backend.history(), next_marker=""),
        service_client=backend,
    )
    out = {}

    def run():
        try:
            out["result"] = durable_execution(handler)(event, ctx)
        except BaseException as e:  # noqa: BLE001
            out["exc"] = e

    t = threading.Thread(target=run, daemon=True)
    t.start()
    t.join(timeout)
    assert not t.is_alive(), "invocation hung"
    if "exc" in out:
        raise out["exc"]
    return out["result"]


# --------------------------------------------------------------------------------------------------------------------
BIG = "x" * 300_000
deliveries = []
b_may_finish = threading.Event()


class SlowBackend(FakeBackend):
    """0.4 s per checkpoint call; lets branch b finish while the call carrying branch a's SUCCEED is in flight."""

    def checkpoint(self, durable_execution_arn, checkpoint_token, updates, client_token=None):
        if any(u.name == "parallel-branch-0" and u.action is OperationAction.SUCCEED for u in updates):
            b_may_finish.set()
        time.sleep(0.4)
        return super().checkpoint(durable_execution_arn, checkpoint_token, updates, client_token)


def branch_a(ctx):
    return BIG


def branch_b(ctx):
    b_may_finish.wait(10)
    return "b-result"


def handler(event, context):
    result = context.parallel(
        [branch_a, branch_b],
        config=ParallelConfig(completion_config=CompletionConfig.first_successful()),
    )
    deliveries.append(
        {
            "reason": result.completion_reason.value,
            "items": [(i.index, i.status.value, (i.result or "")[-8:] or None) for i in result.all],
        }
    )
    return "done"


def main():
    backend = SlowBackend()
    print("invocation 1:", invoke(handler, backend))
    time.sleep(1.0)
    hist = {o.name: o for o in backend.history() if o.name}
    par = next(o for o in backend.history() if o.sub_type and o.sub_type.value == "Parallel")
    print("history: parallel", par.status.value, "replay_children =", par.context_details.replay_children,
          "| branch-0", hist["parallel-branch-0"].status.value, "| branch-1", hist["parallel-branch-1"].status.value)
    b_may_finish.set()
    print("invocation 2:", invoke(handler, backend))
    first, second = deliveries
    print("first delivery :", first)
    print("replay delivery:", second)
    assert first["items"][1][1] == "STARTED", (
        "interleaving not hit (branch b was not running at decision time): %r" % (first,)
    )
    assert first == second, "C09 violated: batch result delivered on replay %r differs from first delivery %r" % (
        second,
        first,
    )
    print("OK - property holds")


if __name__ == "__main__":
    try:
        main()
    except AssertionError as e:
        print("ASSERTION FAILED:", e)
        sys.exit(1)
