"""C20 finding 1: an error object whose optional fields are all absent is DROPPED by every codec round trip.

ErrorObject(message=None, type=None, data=None, stack_trace=None) is a well-typed value (all four fields are
declared `... | None`; the backend shape ErrorObject has no required member).  Every encoder writes it as
"Error": {} (the dataclass instance is truthy, so `if self.error:` passes), and every decoder tests the wire
value for truthiness (`if error_raw` / `if data.get("Error")`), so {} is read back as "no error at all".
`error` is one of the fields the property names as influencing replay: a FAILED operation with an (empty)
error object and a FAILED operation with no error object raise different errors on replay.

Run:  PYTHONPATH=/tmp/wt/h1_C20/src /venv/bin/python /tmp/wt/h1_C20/finding_1.py
"""
import json

from aws_durable_execution_sdk_python.execution import (
    DurableExecutionInvocationInput,
    DurableExecutionInvocationOutput,
    InitialExecutionState,
    InvocationStatus,
)
from aws_durable_execution_sdk_python.exceptions import CallableRuntimeError
from aws_durable_execution_sdk_python.lambda_service import (
    CallbackDetails,
    ChainedInvokeDetails,
    ContextDetails,
    ErrorObject,
    Operation,
    OperationAction,
    OperationStatus,
    OperationSubType,
    OperationType,
    OperationUpdate,
    StepDetails,
)
from aws_durable_execution_sdk_python.state import CheckpointedResult

EMPTY = ErrorObject(message=None, type=None, data=None, stack_trace=None)
failures: list[str] = []


def check(label: str, original, back) -> None:
    if back != original:
        failures.append(f"{label}: the error object was replaced by None")
        print(f"LOSSY  {label}")
    else:
        print(f"ok     {label}")


# 1. operation update (wire dict)
upd = OperationUpdate(
    operation_id="1",
    operation_type=OperationType.STEP,
    action=OperationAction.FAIL,
    sub_type=OperationSubType.STEP,
    name="s",
    error=EMPTY,
)
wire = upd.to_dict()
assert wire["Error"] == {}, wire  # the encoder does emit the (empty) error ...
check("OperationUpdate.to_dict/from_dict", upd, OperationUpdate.from_dict(wire))  # ... the decoder discards it

# 2. operation, every details class that nests an error; wire dict and JSON dict
ops = {
    "StepDetails": Operation("1", OperationType.STEP, OperationStatus.FAILED, step_details=StepDetails(attempt=2, error=EMPTY)),
    "ContextDetails": Operation("2", OperationType.CONTEXT, OperationStatus.FAILED, context_details=ContextDetails(error=EMPTY)),
    "CallbackDetails": Operation("3", OperationType.CALLBACK, OperationStatus.FAILED, callback_details=CallbackDetails("cb", error=EMPTY)),
    "ChainedInvokeDetails": Operation("4", OperationType.CHAINED_INVOKE, OperationStatus.FAILED, chained_invoke_details=ChainedInvokeDetails(error=EMPTY)),
}
for name, op in ops.items():
    check(f"Operation[{name}].to_dict/from_dict", op, Operation.from_dict(op.to_dict()))
    check(
        f"Operation[{name}].to_json_dict/from_json_dict",
        op,
        Operation.from_json_dict(json.loads(json.dumps(op.to_json_dict()))),
    )

# 3. invocation input (history handed to a re-invocation)
inp = DurableExecutionInvocationInput("arn", "tok", InitialExecutionState(list(ops.values()), ""))
check("DurableExecutionInvocationInput.to_dict/from_dict", inp, DurableExecutionInvocationInput.from_dict(inp.to_dict()))
check(
    "DurableExecutionInvocationInput.to_json_dict/from_json_dict",
    inp,
    DurableExecutionInvocationInput.from_json_dict(json.loads(json.dumps(inp.to_json_dict()))),
)

# 4. invocation output
out = DurableExecutionInvocationOutput(status=InvocationStatus.FAILED, error=EMPTY)
check("DurableExecutionInvocationOutput.to_dict/from_dict", out, DurableExecutionInvocationOutput.from_dict(out.to_dict()))


# 5. the dropped field does influence replay: the error raised for the FAILED step differs
def replay_error(op: Operation) -> CallableRuntimeError:
    try:
        CheckpointedResult.create_from_operation(op).raise_callable_error()
    except CallableRuntimeError as e:
        return e
    raise AssertionError("unreachable")


before = replay_error(ops["StepDetails"])
after = replay_error(Operation.from_dict(ops["StepDetails"].to_dict()))
print(f"replayed error before round trip: message={before.message!r}")
print(f"replayed error after  round trip: message={after.message!r}")
if before.message != after.message:
    failures.append("replay of the FAILED step raises a different error after the round trip")

assert not failures, "C20 violated (error dropped by round trip):\n  " + "\n  ".join(failures)
