"""C20 finding 2: the JSON (millisecond) codec ALTERS timestamps that are already whole milliseconds.

TimestampConverter.to_unix_millis computes int(dt.timestamp() * 1000).  dt.timestamp() is a binary float, the
product is rounded once more, and int() truncates - so a datetime that is an exact number of milliseconds can
come out one millisecond EARLIER.  That is not "millisecond truncation" (nothing below a millisecond was there
to truncate): the value 07:30:54.378 is written as ...377 and read back as 07:30:54.377.  The codec is not even
idempotent: a second round trip of the already-decoded value can lose a further millisecond.

With IEEE doubles this happens whenever the epoch seconds lie in [2**n, 1.024 * 2**n): for n = 31 that is
2038-01-19 .. 2039-09-06 (about 24 % of all millisecond values in that window), for n = 30 it was
2004-01-10 .. 2004-11-03, and every timestamp before 1970 is affected in the same way.  Inside 2004-11 .. 2038-01
the float error happens to stay below half an ulp, so present-day wall-clock values survive.

Affected fields: StartTimestamp, EndTimestamp, StepDetails.NextAttemptTimestamp (named by the property as
influencing replay), WaitDetails.ScheduledEndTimestamp - in Operation.to_json_dict/from_json_dict and therefore
in InitialExecutionState / DurableExecutionInvocationInput.to_json_dict/from_json_dict.

Run:  PYTHONPATH=/tmp/wt/h1_C20/src /venv/bin/python /tmp/wt/h1_C20/finding_2.py
"""
import datetime
import json
import random

from aws_durable_execution_sdk_python.execution import (
    DurableExecutionInvocationInput,
    InitialExecutionState,
)
from aws_durable_execution_sdk_python.lambda_service import (
    Operation,
    OperationStatus,
    OperationSubType,
    OperationType,
    StepDetails,
    TimestampConverter,
    WaitDetails,
)

UTC = datetime.UTC
EPOCH = datetime.datetime(1970, 1, 1, tzinfo=UTC)
MS = datetime.timedelta(milliseconds=1)

# a step waiting for its next attempt and a wait, both scheduled on a whole millisecond
ts = datetime.datetime(2038, 5, 22, 7, 30, 54, 378000, tzinfo=UTC)
assert ts.microsecond % 1000 == 0
step = Operation(
    operation_id="1",
    operation_type=OperationType.STEP,
    status=OperationStatus.PENDING,
    sub_type=OperationSubType.STEP,
    start_timestamp=ts,
    step_details=StepDetails(attempt=1, next_attempt_timestamp=ts),
)
wait = Operation(
    operation_id="2",
    operation_type=OperationType.WAIT,
    status=OperationStatus.STARTED,
    sub_type=OperationSubType.WAIT,
    start_timestamp=ts,
    wait_details=WaitDetails(scheduled_end_timestamp=ts),
)

exact_ms = (ts - EPOCH) // MS  # integer arithmetic: 2158126254378
wire = json.loads(json.dumps(step.to_json_dict()))
print("exact milliseconds          :", exact_ms)
print("to_json_dict NextAttemptTs  :", wire["StepDetails"]["NextAttemptTimestamp"])

back1 = Operation.from_json_dict(wire)
back2 = Operation.from_json_dict(json.loads(json.dumps(back1.to_json_dict())))
print("original                    :", step.step_details.next_attempt_timestamp.isoformat())
print("after 1 round trip          :", back1.step_details.next_attempt_timestamp.isoformat())
print("after 2 round trips         :", back2.step_details.next_attempt_timestamp.isoformat())

inp = DurableExecutionInvocationInput("arn", "tok", InitialExecutionState([step, wait], ""))
inp_back = DurableExecutionInvocationInput.from_json_dict(json.loads(json.dumps(inp.to_json_dict())))

# how common is it in the window?
random.seed(0)
n = 100_000
bad = sum(
    1
    for ms in (random.randrange(2_147_483_648_000, 2_199_023_255_000) for _ in range(n))
    if TimestampConverter.to_unix_millis(TimestampConverter.from_unix_millis(ms)) != ms
)
print(f"millisecond values in 2038-01-19..2039-09-06 not surviving decode->encode: {bad}/{n}")

assert wire["StepDetails"]["NextAttemptTimestamp"] == exact_ms, (
    "C20 violated: to_json_dict wrote a whole-millisecond next-attempt time as "
    f"{wire['StepDetails']['NextAttemptTimestamp']} instead of {exact_ms}"
)
assert back1 == step, "C20 violated: Operation JSON round trip altered whole-millisecond timestamps"
assert back2 == back1, "C20 violated: the JSON codec is not idempotent on its own output"
assert inp_back == inp, "C20 violated: invocation input JSON round trip altered whole-millisecond timestamps"
