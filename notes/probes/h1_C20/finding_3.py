"""C20 finding 3: a timestamp inside the first millisecond of the epoch comes back from JSON as the int 0.

Operation.to_json_dict writes 1970-01-01T00:00:00(.000xxx)Z as 0 (correct).  Operation.from_json_dict converts a
field only `if ms := data.get(...)` - a truthiness test - so the legal millisecond value 0 is skipped and the
raw integer 0 is handed to Operation.from_dict, which stores it unchanged.  The decoded object is not equal to
the original and is not even well typed any more (an int where a datetime is declared), for StartTimestamp,
EndTimestamp, StepDetails.NextAttemptTimestamp and WaitDetails.ScheduledEndTimestamp alike.

Run:  PYTHONPATH=/tmp/wt/h1_C20/src /venv/bin/python /tmp/wt/h1_C20/finding_3.py
"""
import dataclasses
import datetime
import json

from aws_durable_execution_sdk_python.execution import (
    DurableExecutionInvocationInput,
    InitialExecutionState,
)
from aws_durable_execution_sdk_python.lambda_service import (
    Operation,
    OperationStatus,
    OperationType,
    StepDetails,
    WaitDetails,
)

UTC = datetime.UTC
epoch = datetime.datetime(1970, 1, 1, tzinfo=UTC)

step = Operation(
    operation_id="1",
    operation_type=OperationType.STEP,
    status=OperationStatus.PENDING,
    start_timestamp=epoch,
    end_timestamp=epoch,
    step_details=StepDetails(attempt=1, next_attempt_timestamp=epoch),
)
wait = Operation(
    operation_id="2",
    operation_type=OperationType.WAIT,
    status=OperationStatus.STARTED,
    start_timestamp=epoch + datetime.timedelta(microseconds=999),  # truncates to millisecond 0 as well
    wait_details=WaitDetails(scheduled_end_timestamp=epoch),
)

# the plain wire-dict codec is fine
assert Operation.from_dict(step.to_dict()) == step
assert Operation.from_dict(wait.to_dict()) == wait

problems = []
for op in (step, wait):
    wire = json.loads(json.dumps(op.to_json_dict()))
    back = Operation.from_json_dict(wire)
    fields = {
        "start_timestamp": back.start_timestamp,
        "end_timestamp": back.end_timestamp,
        "next_attempt_timestamp": back.step_details.next_attempt_timestamp if back.step_details else None,
        "scheduled_end_timestamp": back.wait_details.scheduled_end_timestamp if back.wait_details else None,
    }
    print(op.operation_type.value, "wire:", {k: v for k, v in wire.items() if "Timestamp" in k or "Details" in k})
    for name, value in fields.items():
        print(f"   {name:24} -> {value!r}")
        if value is not None and not isinstance(value, datetime.datetime):
            problems.append(f"{op.operation_type.value}.{name} decoded as {value!r} ({type(value).__name__}), not a datetime")
    if back != dataclasses.replace(op, start_timestamp=epoch):  # modulo millisecond truncation
        problems.append(f"{op.operation_type.value}: decoded operation != original")

inp = DurableExecutionInvocationInput("arn", "tok", InitialExecutionState([step], ""))
back_inp = DurableExecutionInvocationInput.from_json_dict(json.loads(json.dumps(inp.to_json_dict())))
if back_inp != inp:
    problems.append("DurableExecutionInvocationInput JSON round trip != original")

assert not problems, "C20 violated (millisecond 0 is not decoded):\n  " + "\n  ".join(problems)
