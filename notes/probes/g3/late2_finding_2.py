"""finding_2: 8c6aeba / 7c2f341 - the negative-product case is only repaired where the POWER overflows,
not where the PRODUCT does.

create_retry_strategy (retries.py) and create_wait_strategy (waits.py) compute
    min(initial_delay * rate ** (attempts - 1), max_delay)
8c6aeba / 7c2f341 handle the OverflowError that a float power raises and answer "0 -> 1 s minimum"
when the product is negative (negative rate, odd exponent).  Just below that threshold the power is
still finite but the float product is not: 5 * (-2.0) ** 1023 == -inf without any exception,
min(-inf, cap) == -inf, and `math.ceil(-inf)` - outside the try - raises OverflowError.  So for a
configuration these two commits explicitly cater for, the packaged strategy returns 1 s for attempt
1022, RAISES for attempt 1024 and returns 1 s again for attempt 1026; with a large rate the hole is
at the second failure.  Driven by a step, the raise is (since 089b20e) taken as "strategy failed":
the step is failed for good although max_attempts is not reached.

Run:  PYTHONPATH=/tmp/wt/g3_late2/src /venv/bin/python /tmp/wt/g3_late2/finding_2.py
"""

from __future__ import annotations

import sys

from aws_durable_execution_sdk_python.config import Duration, JitterStrategy
from aws_durable_execution_sdk_python.retries import (
    RetryStrategyConfig,
    create_retry_strategy,
)
from aws_durable_execution_sdk_python.waits import (
    WaitStrategyConfig,
    create_wait_strategy,
)


def delay_of(kind: str, rate: float, initial: int, attempts_made: int, jitter: JitterStrategy):
    if kind == "retry":
        strategy = create_retry_strategy(
            RetryStrategyConfig(
                max_attempts=10**6,
                initial_delay=Duration.from_seconds(initial),
                max_delay=Duration.from_minutes(5),
                backoff_rate=rate,
                jitter_strategy=jitter,
            )
        )
        decision = strategy(ValueError("x"), attempts_made)
        assert decision.should_retry
    else:
        strategy = create_wait_strategy(
            WaitStrategyConfig(
                should_continue_polling=lambda _r: True,
                max_attempts=10**6,
                initial_delay=Duration.from_seconds(initial),
                max_delay=Duration.from_minutes(5),
                backoff_rate=rate,
                jitter_strategy=jitter,
            )
        )
        decision = strategy(None, attempts_made)
        assert decision.should_wait
    return decision.delay_seconds


def main() -> int:
    problems: list[str] = []
    cases = [
        # (rate, initial delay, attempts_made) - the product is negative in all of them, so the
        # delay must be the 1 s minimum (what the neighbouring attempts get)
        (-2.0, 5, 1022),  # power and product finite           -> 1 s today
        (-2.0, 5, 1024),  # power finite, product -inf         -> raises today
        (-2.0, 5, 1026),  # power overflows (8c6aeba/7c2f341)  -> 1 s today
        (-1e305, 3600, 2),  # the same hole at the second failure
    ]
    for kind in ("retry", "wait"):
        for jitter in (JitterStrategy.NONE, JitterStrategy.FULL, JitterStrategy.HALF):
            for rate, initial, attempts_made in cases:
                label = f"{kind} strategy, rate={rate}, initial={initial}s, attempts_made={attempts_made}, jitter={jitter.value}"
                try:
                    got = delay_of(kind, rate, initial, attempts_made, jitter)
                except Exception as e:  # noqa: BLE001
                    problems.append(f"{label}: raised {type(e).__name__}: {e}")
                    continue
                if got != 1:
                    problems.append(f"{label}: delay {got!r}, expected the 1 s minimum")
    for p in problems:
        print("FAIL:", p)
    assert not problems, (
        f"{len(problems)} case(s): a negative backoff product that overflows to -inf (power still finite) "
        "makes the packaged strategy raise OverflowError from math.ceil instead of returning the 1 s minimum"
    )
    print("OK")
    return 0


if __name__ == "__main__":
    sys.exit(main())
