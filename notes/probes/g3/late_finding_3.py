"""finding_3: the suspend verdict of a map/parallel is still taken against a branch state that a
writer outside 6b4dbfe's lock changes: the resume timer (pre-existing race, NOT a regression;
6b4dbfe's "decide under one lock" does not cover it, and execute() honours the stale verdict).

6b4dbfe put the two writes of a branch *outcome* and the complete-or-suspend decision under
ConcurrentExecutor._decision_lock.  TimerScheduler._timer_loop still takes a parked branch out of
SUSPENDED_WITH_TIMEOUT (ExecutableWithState.reset_to_pending) and resubmits it without that lock,
and ConcurrentExecutor.execute() looks again only at the counters (a134671), not at the branches,
before it raises the recorded suspension.  Interleaving:

  1. branch B parks on a callback a moment before branch A's wait ends; B's done-callback computes
     the verdict "everything parked, earliest timer = A's" (A is SUSPENDED_WITH_TIMEOUT),
  2. before that verdict is published the resume timer fires: A -> PENDING, the timer's refresh
     checkpoint brings wait=SUCCEEDED (delivered to this invocation), A is resubmitted and its
     next step's user function starts running,
  3. the verdict is published, execute() raises it, the invocation answers PENDING.

Result: PENDING while A's step function is executing in a left-behind thread; its result is never
recorded (checkpointing is stopped); the wait it was "parked" on is completed and delivered, the
backend has nothing left to wake the execution for except an unrelated external callback (C07:
PENDING only when durably parked / no in-flight work silently abandoned).

The interleaving is forced by wrapping should_execution_suspend (delay between computing and
returning the verdict, as a pre-empted thread would) - no SDK code is replaced.

Exit code: non-zero (AssertionError) on the current code.
"""

from __future__ import annotations

import datetime
import json
import sys
import threading
import time
from unittest.mock import Mock

from aws_durable_execution_sdk_python.config import Duration
from aws_durable_execution_sdk_python.context import DurableContext
from aws_durable_execution_sdk_python.execution import (
    DurableExecutionInvocationInputWithClient,
    InitialExecutionState,
    durable_execution,
)
from aws_durable_execution_sdk_python.lambda_service import (
    CallbackDetails,
    CheckpointOutput,
    CheckpointUpdatedExecutionState,
    ContextDetails,
    ExecutionDetails,
    Operation,
    OperationAction,
    OperationStatus,
    OperationType,
    StateOutput,
    StepDetails,
    WaitDetails,
)

UTC = datetime.UTC


class FakeBackend:
    """In-memory durable-execution backend: records checkpoints, plays them back as history."""

    def __init__(self) -> None:
        self.lock = threading.RLock()
        self.ops: dict[str, Operation] = {
            "exec": Operation(
                operation_id="exec",
                operation_type=OperationType.EXECUTION,
                status=OperationStatus.STARTED,
                execution_details=ExecutionDetails(input_payload="{}"),
            )
        }
        self.undelivered: set[str] = set()  # completions no invocation has been told about
        self.delivered_in_response: dict[str, int] = {}  # op id -> invocation number
        self.invocation_no = 0
        self.token = 0
        self.log: list[str] = []
        self.t0 = time.time()

    # -- helpers -----------------------------------------------------------------------------
    def _say(self, text: str) -> None:
        self.log.append(f"[{time.time() - self.t0:6.2f}s inv{self.invocation_no}] {text}")

    def _replace(self, op_id: str, **changes) -> None:
        old = self.ops[op_id]
        fields = {f: getattr(old, f) for f in old.__dataclass_fields__}
        fields.update(changes)
        self.ops[op_id] = Operation(**fields)

    def by_name(self, name: str) -> Operation | None:
        with self.lock:
            for op in self.ops.values():
                if op.name == name:
                    return op
        return None

    # -- the events the backend produces itself ---------------------------------------------------
    def fire_timer(self, name: str) -> None:
        """The timer of the named wait fires now."""
        with self.lock:
            op = self.by_name(name)
            assert op is not None and op.operation_type is OperationType.WAIT
            if op.status is OperationStatus.STARTED:
                self._replace(op.operation_id, status=OperationStatus.SUCCEEDED)
                self.undelivered.add(op.operation_id)
                self._say(f"timer of wait '{name}' fired -> SUCCEEDED")

    def send_callback_success(self, name: str, result: str = '"ok"') -> bool:
        with self.lock:
            op = self.by_name(name)
            if op is None or op.status is not OperationStatus.STARTED:
                return False
            self._replace(
                op.operation_id,
                status=OperationStatus.SUCCEEDED,
                callback_details=CallbackDetails(
                    callback_id=op.callback_details.callback_id, result=result
                ),
            )
            self.undelivered.add(op.operation_id)
            self._say(f"callback '{name}' completed by an external caller")
            return True

    def pending_timers(self) -> list[Operation]:
        with self.lock:
            return [
                op
                for op in self.ops.values()
                if op.operation_type is OperationType.WAIT
                and op.status is OperationStatus.STARTED
            ]

    # -- DurableServiceClient ----------------------------------------------------------------
    def checkpoint(self, durable_execution_arn, checkpoint_token, updates, client_token=None):
        with self.lock:
            for op in self.pending_timers():
                if op.wait_details.scheduled_end_timestamp <= datetime.datetime.now(tz=UTC):
                    self.fire_timer(op.name)  # punctual backend timer
            for u in updates:
                self._apply(u)
            self.token += 1
            # everything that is in the response has been handed to the running invocation
            for op_id in list(self.undelivered):
                self.delivered_in_response[op_id] = self.invocation_no
                self._say(
                    f"checkpoint response delivers {self.ops[op_id].operation_type.value} "
                    f"'{self.ops[op_id].name}' = {self.ops[op_id].status.value}"
                )
            self.undelivered.clear()
            return CheckpointOutput(
                checkpoint_token=f"t{self.token}",
                new_execution_state=CheckpointUpdatedExecutionState(
                    operations=list(self.ops.values()), next_marker=None
                ),
            )

    def get_execution_state(self, durable_execution_arn, checkpoint_token, next_marker, max_items=1000):
        return StateOutput(operations=[], next_marker=None)

    def _apply(self, u) -> None:
        now = datetime.datetime.now(tz=UTC)
        existing = self.ops.get(u.operation_id)
        if existing is not None and existing.status not in (
            OperationStatus.STARTED,
            OperationStatus.PENDING,
            OperationStatus.READY,
        ):
            msg = f"update {u.action.value} for terminal operation {u.name}"
            raise AssertionError(msg)
        base = dict(
            operation_id=u.operation_id,
            operation_type=u.operation_type,
            parent_id=u.parent_id,
            name=u.name,
            sub_type=u.sub_type,
            start_timestamp=existing.start_timestamp if existing else now,
        )
        t = u.operation_type
        if t is OperationType.CONTEXT:
            if u.action is OperationAction.START:
                op = Operation(status=OperationStatus.STARTED, **base)
            elif u.action is OperationAction.SUCCEED:
                op = Operation(
                    status=OperationStatus.SUCCEEDED,
                    context_details=ContextDetails(
                        replay_children=bool(
                            u.context_options and u.context_options.replay_children
                        ),
                        result=u.payload,
                    ),
                    **base,
                )
            else:
                op = Operation(
                    status=OperationStatus.FAILED,
                    context_details=ContextDetails(replay_children=False, error=u.error),
                    **base,
                )
        elif t is OperationType.STEP:
            if u.action is OperationAction.START:
                op = Operation(
                    status=OperationStatus.STARTED, step_details=StepDetails(attempt=1), **base
                )
            elif u.action is OperationAction.SUCCEED:
                op = Operation(
                    status=OperationStatus.SUCCEEDED,
                    step_details=StepDetails(attempt=1, result=u.payload),
                    **base,
                )
            elif u.action is OperationAction.FAIL:
                op = Operation(
                    status=OperationStatus.FAILED,
                    step_details=StepDetails(attempt=1, error=u.error),
                    **base,
                )
            else:
                raise AssertionError("step RETRY is not used by this script")
        elif t is OperationType.WAIT:
            assert u.action is OperationAction.START
            end = now + datetime.timedelta(seconds=u.wait_options.wait_seconds)
            op = Operation(
                status=OperationStatus.STARTED,
                wait_details=WaitDetails(scheduled_end_timestamp=end),
                **base,
            )
        elif t is OperationType.CALLBACK:
            assert u.action is OperationAction.START
            op = Operation(
                status=OperationStatus.STARTED,
                callback_details=CallbackDetails(callback_id=f"cb-{u.operation_id[:8]}"),
                **base,
            )
        elif t is OperationType.EXECUTION:
            return
        else:
            raise AssertionError(f"unsupported operation type {t}")
        self.ops[u.operation_id] = op
        self._say(f"recorded {t.value} {u.action.value} '{u.name}'")

    # -- invoking --------------------------------------------------------------------------------
    def invoke(self, handler) -> dict:
        with self.lock:
            self.invocation_no += 1
            history = list(self.ops.values())
            # the history handed to a new invocation tells it about every completion so far
            self.undelivered.clear()
            self.token += 1
            token = f"t{self.token}"
            self._say("invocation starts")
        event = DurableExecutionInvocationInputWithClient(
            durable_execution_arn="arn:fake",
            checkpoint_token=token,
            initial_execution_state=InitialExecutionState(operations=history, next_marker=""),
            service_client=self,
        )
        lambda_context = Mock()
        lambda_context.aws_request_id = "req"
        lambda_context.client_context = None
        lambda_context.identity = None
        lambda_context._epoch_deadline_time_in_ms = 0  # noqa: SLF001
        lambda_context.invoked_function_arn = "arn:fn"
        lambda_context.tenant_id = None

        box: dict = {}

        def run() -> None:
            try:
                box["out"] = handler(event, lambda_context)
            except BaseException as e:  # noqa: BLE001
                box["err"] = e

        th = threading.Thread(target=run, daemon=True)
        th.start()
        th.join(timeout=30)
        assert not th.is_alive(), "invocation hangs (30 s)"
        if "err" in box:
            raise box["err"]
        with self.lock:
            self._say(f"invocation answers {box['out']['Status']}")
        return box["out"]


from aws_durable_execution_sdk_python.concurrency.executor import ConcurrentExecutor
from aws_durable_execution_sdk_python.concurrency.models import ExecutableWithState
from aws_durable_execution_sdk_python.exceptions import TimedSuspendExecution

backend = FakeBackend()
timer_took_branch = threading.Event()
after_wait_running = threading.Event()
after_wait_finished = threading.Event()
verdict_delayed = []

_orig_verdict = ConcurrentExecutor.should_execution_suspend
_orig_reset = ExecutableWithState.reset_to_pending


def delayed_verdict(self):
    result = _orig_verdict(self)
    if (
        result.should_suspend
        and isinstance(result.exception, TimedSuspendExecution)
        and not verdict_delayed
    ):
        # the deciding thread is pre-empted between computing and publishing its verdict
        verdict_delayed.append(time.time())
        timer_took_branch.wait(5)
        after_wait_running.wait(5)
    return result


def observed_reset(self):
    _orig_reset(self)
    timer_took_branch.set()


ConcurrentExecutor.should_execution_suspend = delayed_verdict
ExecutableWithState.reset_to_pending = observed_reset


def branch_a(ctx: DurableContext) -> str:
    ctx.wait(Duration.from_seconds(1), name="pause")

    def after_wait(_):
        after_wait_running.set()
        time.sleep(1.5)  # user code that is executing when the invocation answers
        after_wait_finished.set()
        return "done"

    return ctx.step(after_wait, name="after-wait")


def branch_b(ctx: DurableContext) -> str:
    def work(_):
        # finish so that this branch parks ~0.3 s before the wait of branch A ends
        deadline = time.time() + 10
        while backend.by_name("pause") is None and time.time() < deadline:
            time.sleep(0.01)
        end = backend.by_name("pause").wait_details.scheduled_end_timestamp
        time.sleep(max((end - datetime.datetime.now(tz=UTC)).total_seconds() - 0.55, 0))
        return "worked"

    ctx.step(work, name="work")
    return ctx.create_callback(name="unrelated").result()


@durable_execution
def handler(event, ctx: DurableContext):
    result = ctx.parallel([branch_a, branch_b], name="fan")
    return [item.status.value for item in result.all]


def main() -> int:
    out = backend.invoke(handler)
    answered_at = time.time()
    print("\n".join(backend.log))
    assert verdict_delayed, "scenario not reached: no timed suspend verdict was computed"
    if out["Status"] != "PENDING":
        print("invocation answered", out["Status"], "- the stale verdict was not honoured")
        return 0
    running_when_answered = after_wait_running.is_set() and not after_wait_finished.is_set()
    after_wait_finished.wait(5)
    time.sleep(0.5)
    pause = backend.by_name("pause")
    step = backend.by_name("after-wait")
    delivered_to = backend.delivered_in_response.get(pause.operation_id)
    with backend.lock:
        undelivered = set(backend.undelivered)
    assert not (
        running_when_answered
        and pause.status is OperationStatus.SUCCEEDED
        and delivered_to == backend.invocation_no
        and not undelivered
        and not backend.pending_timers()
        and (step is None or step.status is not OperationStatus.SUCCEEDED)
    ), (
        "C07 violated: the invocation answered PENDING while the user function of step 'after-wait' "
        "(branch A, resumed by the in-process resume timer) was executing; wait 'pause' is SUCCEEDED and "
        f"was delivered to this invocation (no. {delivered_to}) by the timer's refresh checkpoint, the step's "
        f"result was never recorded (status {step.status.value if step else 'not recorded'}), no timer is "
        "pending at the backend: the work is silently abandoned and nothing wakes the execution except "
        "the unrelated external callback. execute() honoured a suspend verdict that was computed before "
        "the resume timer - which does not take _decision_lock - took branch A out of its parked state."
    )
    print("PENDING but sound", answered_at)
    return 0


if __name__ == "__main__":
    sys.exit(main())
