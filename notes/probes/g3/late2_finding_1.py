"""finding_1: eb40115 (and 089b20e) - a retry decision whose *delay* is readable but unusable still
escapes retry_handler without any RETRY / FAIL record.

eb40115 moved the reads of `retry_decision.should_retry` / `.delay_seconds` into the guarded region
of StepOperationExecutor.retry_handler (operation/step.py), so a decision that cannot be *read* is
treated like a failing strategy.  The first *use* of the value that was read - `if delay_seconds < 1`
- is still outside the guard.  A decision whose delay_seconds can be read but is not a number
(None, a str, a Mock) raises TypeError there: ctx.step() raises to user code with no terminal
record, user code that handles the failed step goes on, and the next invocation runs the step
function again (the exact symptom described in 089b20e / eb40115).
wait_for_condition does the same clamp *inside* its try that records FAIL.

Run:  PYTHONPATH=/tmp/wt/g3_late2/src /venv/bin/python /tmp/wt/g3_late2/finding_1.py
"""

from __future__ import annotations

import logging
import sys
import threading
from types import SimpleNamespace
from unittest.mock import MagicMock

from aws_durable_execution_sdk_python.config import StepConfig
from aws_durable_execution_sdk_python.execution import (
    DurableExecutionInvocationInputWithClient,
    InitialExecutionState,
    durable_execution,
)
from aws_durable_execution_sdk_python.lambda_service import (
    CheckpointOutput,
    CheckpointUpdatedExecutionState,
    ExecutionDetails,
    Operation,
    OperationAction,
    OperationStatus,
    OperationType,
    StepDetails,
)

logging.disable(logging.CRITICAL)


class Backend:
    """Minimal in-memory backend: records accepted STEP updates and plays them back as history."""

    def __init__(self) -> None:
        self.ops: dict[str, Operation] = {
            "exec": Operation(
                operation_id="exec",
                operation_type=OperationType.EXECUTION,
                status=OperationStatus.STARTED,
                execution_details=ExecutionDetails(input_payload="{}"),
            )
        }
        self.accepted: list[str] = []
        self.token = 0

    def checkpoint(self, durable_execution_arn, checkpoint_token, updates, client_token=None):
        for u in updates:
            assert u.operation_type is OperationType.STEP, u
            prev = self.ops.get(u.operation_id)
            attempt = prev.step_details.attempt if prev and prev.step_details else 0
            status, details = {
                OperationAction.START: (OperationStatus.STARTED, StepDetails(attempt=attempt)),
                OperationAction.RETRY: (OperationStatus.PENDING, StepDetails(attempt=attempt + 1, error=u.error)),
                OperationAction.SUCCEED: (OperationStatus.SUCCEEDED, StepDetails(attempt=attempt + 1, result=u.payload)),
                OperationAction.FAIL: (OperationStatus.FAILED, StepDetails(attempt=attempt + 1, error=u.error)),
            }[u.action]
            self.ops[u.operation_id] = Operation(
                operation_id=u.operation_id,
                operation_type=u.operation_type,
                status=status,
                parent_id=u.parent_id,
                name=u.name,
                sub_type=u.sub_type,
                step_details=details,
            )
            self.accepted.append(u.action.value)
        self.token += 1
        return CheckpointOutput(
            checkpoint_token=f"t{self.token}",
            new_execution_state=CheckpointUpdatedExecutionState(operations=list(self.ops.values())),
        )

    def get_execution_state(self, *a, **k):  # pragma: no cover - history is never paginated here
        raise AssertionError("not paginated")

    def invocation_input(self):
        return DurableExecutionInvocationInputWithClient(
            durable_execution_arn="arn:test",
            checkpoint_token=f"t{self.token}",
            initial_execution_state=InitialExecutionState(operations=list(self.ops.values()), next_marker=""),
            service_client=self,
        )


def invoke(handler, backend, timeout=20):
    box: dict = {}

    def run():
        try:
            box["out"] = durable_execution(handler)(backend.invocation_input(), None)
        except BaseException as e:  # noqa: BLE001
            box["out"] = {"Status": "RAISED", "exc": e}

    t = threading.Thread(target=run, daemon=True)
    t.start()
    t.join(timeout)
    assert not t.is_alive(), "HANG: invocation did not return"
    return box["out"]


def scenario(label, strategy) -> list[str]:
    runs: list[int] = []
    seen: list[str] = []

    def failing_step(_ctx):
        runs.append(1)
        msg = "the step's own failure"
        raise ValueError(msg)

    def handler(_event, ctx):
        # code that handles the failed step and goes on (the scenario of 089b20e / eb40115)
        try:
            ctx.step(failing_step, name="s", config=StepConfig(retry_strategy=strategy))
        except Exception as e:  # noqa: BLE001
            seen.append(type(e).__name__)
        return "went on"

    backend = Backend()
    first = invoke(handler, backend)
    second = invoke(handler, backend)
    problems = []
    if not {"RETRY", "FAIL"} & set(backend.accepted):
        problems.append(
            f"[{label}] ctx.step() raised {seen[:1]} to user code but the backend holds no RETRY/FAIL "
            f"record for the step (accepted: {backend.accepted}); invocation answered {first.get('Status')}"
        )
    if len(runs) != 1:
        problems.append(
            f"[{label}] the step function ran {len(runs)} times over two invocations although no retry "
            f"was ever recorded (second invocation: {second.get('Status')}, errors seen by user code: {seen})"
        )
    return problems


def main() -> int:
    problems: list[str] = []
    # control: decisions that cannot be READ are handled since eb40115 (FAIL recorded, one run)
    problems += scenario("control: strategy returns None", lambda e, n: None)
    assert not problems, f"control scenario failed - harness broken? {problems}"

    # a hand-made decision object that forgot its delay
    problems += scenario(
        "delay_seconds=None",
        lambda e, n: SimpleNamespace(should_retry=True, delay_seconds=None),
    )
    # a delay that is text instead of a number (e.g. taken from configuration / environment)
    problems += scenario(
        "delay_seconds='5'",
        lambda e, n: SimpleNamespace(should_retry=True, delay_seconds="5"),
    )
    # a test double used as strategy
    problems += scenario("MagicMock strategy", MagicMock())

    for p in problems:
        print("FAIL:", p)
    assert not problems, (
        f"{len(problems)} violation(s): a retry decision whose delay can be read but not used leaves the "
        "step without a terminal record (retry_handler: `if delay_seconds < 1` is outside the guard of eb40115)"
    )
    print("OK")
    return 0


if __name__ == "__main__":
    sys.exit(main())
