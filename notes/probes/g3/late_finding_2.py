"""finding_2: the defect f4da58e describes is repaired for waits only; the same verdict strands
a branch that is parked on a callback (an invoke behaves the same) - incomplete repair, not a regression.

f4da58e: "a sibling's checkpoint brought the completion, the suspend verdict still counted the
branch as parked, and the invocation answered PENDING with nothing left registered".  f4da58e and
a73cf0b change the time a *wait* parks until; ConcurrentExecutor.should_execution_suspend is
unchanged and still trusts BranchStatus.SUSPENDED / SUSPENDED_WITH_TIMEOUT without looking at the
recorded state.  A branch parked on a callback has no resume timer at all, so for it the window is
not one second but the rest of the invocation:

  branch A: create_callback("first").result(); step "forward" (sends callback "second")
  branch B: step "work" (while it runs an external caller completes callback "first");
            create_callback("second").result()

One invocation: A parks on "first" (SUSPENDED). While B's step runs, "first" is completed at the
backend; the response to B's SUCCEED checkpoint carries first=SUCCEEDED into ExecutionState (the
completion is delivered to the running invocation). B parks on "second"; the verdict sees two
parked branches and the invocation answers PENDING. Nothing the backend could wake the execution
for is left: "first" is delivered, "second" is sent only by A's step -> stuck for ever (C07).

Exit code: non-zero (AssertionError) on the current code.
"""

from __future__ import annotations

import datetime
import json
import sys
import threading
import time
from unittest.mock import Mock

from aws_durable_execution_sdk_python.config import Duration
from aws_durable_execution_sdk_python.context import DurableContext
from aws_durable_execution_sdk_python.execution import (
    DurableExecutionInvocationInputWithClient,
    InitialExecutionState,
    durable_execution,
)
from aws_durable_execution_sdk_python.lambda_service import (
    CallbackDetails,
    CheckpointOutput,
    CheckpointUpdatedExecutionState,
    ContextDetails,
    ExecutionDetails,
    Operation,
    OperationAction,
    OperationStatus,
    OperationType,
    StateOutput,
    StepDetails,
    WaitDetails,
)

UTC = datetime.UTC


class FakeBackend:
    """In-memory durable-execution backend: records checkpoints, plays them back as history."""

    def __init__(self) -> None:
        self.lock = threading.RLock()
        self.ops: dict[str, Operation] = {
            "exec": Operation(
                operation_id="exec",
                operation_type=OperationType.EXECUTION,
                status=OperationStatus.STARTED,
                execution_details=ExecutionDetails(input_payload="{}"),
            )
        }
        self.undelivered: set[str] = set()  # completions no invocation has been told about
        self.delivered_in_response: dict[str, int] = {}  # op id -> invocation number
        self.invocation_no = 0
        self.token = 0
        self.log: list[str] = []
        self.t0 = time.time()

    # -- helpers -----------------------------------------------------------------------------
    def _say(self, text: str) -> None:
        self.log.append(f"[{time.time() - self.t0:6.2f}s inv{self.invocation_no}] {text}")

    def _replace(self, op_id: str, **changes) -> None:
        old = self.ops[op_id]
        fields = {f: getattr(old, f) for f in old.__dataclass_fields__}
        fields.update(changes)
        self.ops[op_id] = Operation(**fields)

    def by_name(self, name: str) -> Operation | None:
        with self.lock:
            for op in self.ops.values():
                if op.name == name:
                    return op
        return None

    # -- the events the backend produces itself ---------------------------------------------------
    def fire_timer(self, name: str) -> None:
        """The timer of the named wait fires now."""
        with self.lock:
            op = self.by_name(name)
            assert op is not None and op.operation_type is OperationType.WAIT
            if op.status is OperationStatus.STARTED:
                self._replace(op.operation_id, status=OperationStatus.SUCCEEDED)
                self.undelivered.add(op.operation_id)
                self._say(f"timer of wait '{name}' fired -> SUCCEEDED")

    def send_callback_success(self, name: str, result: str = '"ok"') -> bool:
        with self.lock:
            op = self.by_name(name)
            if op is None or op.status is not OperationStatus.STARTED:
                return False
            self._replace(
                op.operation_id,
                status=OperationStatus.SUCCEEDED,
                callback_details=CallbackDetails(
                    callback_id=op.callback_details.callback_id, result=result
                ),
            )
            self.undelivered.add(op.operation_id)
            self._say(f"callback '{name}' completed by an external caller")
            return True

    def pending_timers(self) -> list[Operation]:
        with self.lock:
            return [
                op
                for op in self.ops.values()
                if op.operation_type is OperationType.WAIT
                and op.status is OperationStatus.STARTED
            ]

    # -- DurableServiceClient ----------------------------------------------------------------
    def checkpoint(self, durable_execution_arn, checkpoint_token, updates, client_token=None):
        with self.lock:
            for u in updates:
                self._apply(u)
            self.token += 1
            # everything that is in the response has been handed to the running invocation
            for op_id in list(self.undelivered):
                self.delivered_in_response[op_id] = self.invocation_no
                self._say(
                    f"checkpoint response delivers {self.ops[op_id].operation_type.value} "
                    f"'{self.ops[op_id].name}' = {self.ops[op_id].status.value}"
                )
            self.undelivered.clear()
            return CheckpointOutput(
                checkpoint_token=f"t{self.token}",
                new_execution_state=CheckpointUpdatedExecutionState(
                    operations=list(self.ops.values()), next_marker=None
                ),
            )

    def get_execution_state(self, durable_execution_arn, checkpoint_token, next_marker, max_items=1000):
        return StateOutput(operations=[], next_marker=None)

    def _apply(self, u) -> None:
        now = datetime.datetime.now(tz=UTC)
        existing = self.ops.get(u.operation_id)
        if existing is not None and existing.status not in (
            OperationStatus.STARTED,
            OperationStatus.PENDING,
            OperationStatus.READY,
        ):
            msg = f"update {u.action.value} for terminal operation {u.name}"
            raise AssertionError(msg)
        base = dict(
            operation_id=u.operation_id,
            operation_type=u.operation_type,
            parent_id=u.parent_id,
            name=u.name,
            sub_type=u.sub_type,
            start_timestamp=existing.start_timestamp if existing else now,
        )
        t = u.operation_type
        if t is OperationType.CONTEXT:
            if u.action is OperationAction.START:
                op = Operation(status=OperationStatus.STARTED, **base)
            elif u.action is OperationAction.SUCCEED:
                op = Operation(
                    status=OperationStatus.SUCCEEDED,
                    context_details=ContextDetails(
                        replay_children=bool(
                            u.context_options and u.context_options.replay_children
                        ),
                        result=u.payload,
                    ),
                    **base,
                )
            else:
                op = Operation(
                    status=OperationStatus.FAILED,
                    context_details=ContextDetails(replay_children=False, error=u.error),
                    **base,
                )
        elif t is OperationType.STEP:
            if u.action is OperationAction.START:
                op = Operation(
                    status=OperationStatus.STARTED, step_details=StepDetails(attempt=1), **base
                )
            elif u.action is OperationAction.SUCCEED:
                op = Operation(
                    status=OperationStatus.SUCCEEDED,
                    step_details=StepDetails(attempt=1, result=u.payload),
                    **base,
                )
            elif u.action is OperationAction.FAIL:
                op = Operation(
                    status=OperationStatus.FAILED,
                    step_details=StepDetails(attempt=1, error=u.error),
                    **base,
                )
            else:
                raise AssertionError("step RETRY is not used by this script")
        elif t is OperationType.WAIT:
            assert u.action is OperationAction.START
            end = now + datetime.timedelta(seconds=u.wait_options.wait_seconds)
            op = Operation(
                status=OperationStatus.STARTED,
                wait_details=WaitDetails(scheduled_end_timestamp=end),
                **base,
            )
        elif t is OperationType.CALLBACK:
            assert u.action is OperationAction.START
            op = Operation(
                status=OperationStatus.STARTED,
                callback_details=CallbackDetails(callback_id=f"cb-{u.operation_id[:8]}"),
                **base,
            )
        elif t is OperationType.EXECUTION:
            return
        else:
            raise AssertionError(f"unsupported operation type {t}")
        self.ops[u.operation_id] = op
        self._say(f"recorded {t.value} {u.action.value} '{u.name}'")

    # -- invoking --------------------------------------------------------------------------------
    def invoke(self, handler) -> dict:
        with self.lock:
            self.invocation_no += 1
            history = list(self.ops.values())
            # the history handed to a new invocation tells it about every completion so far
            self.undelivered.clear()
            self.token += 1
            token = f"t{self.token}"
            self._say("invocation starts")
        event = DurableExecutionInvocationInputWithClient(
            durable_execution_arn="arn:fake",
            checkpoint_token=token,
            initial_execution_state=InitialExecutionState(operations=history, next_marker=""),
            service_client=self,
        )
        lambda_context = Mock()
        lambda_context.aws_request_id = "req"
        lambda_context.client_context = None
        lambda_context.identity = None
        lambda_context._epoch_deadline_time_in_ms = 0  # noqa: SLF001
        lambda_context.invoked_function_arn = "arn:fn"
        lambda_context.tenant_id = None

        box: dict = {}

        def run() -> None:
            try:
                box["out"] = handler(event, lambda_context)
            except BaseException as e:  # noqa: BLE001
                box["err"] = e

        th = threading.Thread(target=run, daemon=True)
        th.start()
        th.join(timeout=30)
        assert not th.is_alive(), "invocation hangs (30 s)"
        if "err" in box:
            raise box["err"]
        with self.lock:
            self._say(f"invocation answers {box['out']['Status']}")
        return box["out"]


backend = FakeBackend()


def branch_a(ctx: DurableContext) -> str:
    first = ctx.create_callback(name="first").result()
    ctx.step(lambda _: backend.send_callback_success("second", '"from-a"'), name="forward")
    return first


def branch_b(ctx: DurableContext) -> str:
    def work(_):
        # give branch A the time to park on "first", then the external system answers "first"
        deadline = time.time() + 10
        while backend.by_name("first") is None and time.time() < deadline:
            time.sleep(0.01)
        time.sleep(0.3)
        assert backend.send_callback_success("first", '"hello"')
        return "worked"

    ctx.step(work, name="work")
    return ctx.create_callback(name="second").result()


@durable_execution
def handler(event, ctx: DurableContext):
    result = ctx.parallel([branch_a, branch_b], name="fan")
    return [item.status.value for item in result.all]


def main() -> int:
    out = None
    for _ in range(10):
        out = backend.invoke(handler)
        if out["Status"] != "PENDING":
            break
        with backend.lock:
            undelivered = set(backend.undelivered)
        if undelivered:
            continue  # the backend re-invokes: something completed that nobody was told about
        timers = backend.pending_timers()
        if timers:
            for op in timers:
                backend.fire_timer(op.name)
            continue
        print("\n".join(backend.log))
        first = backend.by_name("first")
        forward = backend.by_name("forward")
        delivered_to = backend.delivered_in_response.get(first.operation_id)
        assert not (
            first.status is OperationStatus.SUCCEEDED
            and delivered_to == backend.invocation_no
            and forward is None
        ), (
            "C07 violated: the invocation answered PENDING although callback 'first', on which branch A "
            f"was parked, is SUCCEEDED and was delivered to this very invocation (no. {delivered_to}) in the "
            "response to a sibling's checkpoint; A's next step never ran, no timer is pending and the only "
            "open event (callback 'second') is sent by that step: the execution is stuck for ever. "
            "should_execution_suspend() counts A as parked without looking at the recorded state."
        )
        raise AssertionError("PENDING with nothing registered (unexpected shape)")
    print("\n".join(backend.log))
    assert out["Status"] == "SUCCEEDED", out
    print("execution finished:", json.loads(out["Result"]))
    return 0


if __name__ == "__main__":
    sys.exit(main())
