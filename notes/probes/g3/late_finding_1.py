"""finding_1: a73cf0b / f4da58e do not close the defect they describe (incomplete repair).

Defect (message of f4da58e): a branch of a map/parallel parks on a wait that is STARTED; the
backend completes the wait while the invocation is still running; a sibling's checkpoint response
delivers that completion; the suspend verdict of the map/parallel still counts the branch as
"parked on a timer" and the invocation answers PENDING although nothing is registered with the
backend any more for that branch.

After a73cf0b a wait whose recorded end has passed (the backend's timer fires a little late - it
never fires early) is parked for a flat "now + 1 s" re-look.  During that second the branch is
SUSPENDED_WITH_TIMEOUT exactly as before the repairs, and ConcurrentExecutor.should_execution_suspend
never looks at the recorded state of the operation the branch waits for.  A sibling that needs
less than a second to (a) checkpoint something - which brings the wait's SUCCEEDED record into
ExecutionState - and (b) park on a callback, makes the invocation answer PENDING with the wait
completed AND delivered.  In this workflow the parked callback is only ever sent by the step that
follows the wait, so the execution can never finish (C07: PENDING only when durably parked / never stuck).

The script drives the real `durable_execution` wrapper against an in-memory backend:
  * invocation 1: branch A starts wait(1 s) and parks, branch B parks on callback "go" -> PENDING (fine)
  * "go" is sent ~1.05 s later -> invocation 2 starts just after the wait's recorded end, the
    backend's timer has not fired yet (it fires while B's step runs, i.e. ~0.1 s late)
  * invocation 2: A finds the wait STARTED with the end passed -> parks 1 s; B runs a short step
    (its SUCCEED checkpoint response carries wait=SUCCEEDED), creates callback "approval", parks
    -> verdict -> PENDING.
Backend model (the one of the f4da58e message): a completion that was handed to a running
invocation in a checkpoint response is delivered; the backend re-invokes only for completions
that no invocation has been told about, and for timers that are still pending.

Exit code: non-zero (AssertionError) on the current code.
"""

from __future__ import annotations

import datetime
import json
import sys
import threading
import time
from unittest.mock import Mock

from aws_durable_execution_sdk_python.config import Duration
from aws_durable_execution_sdk_python.context import DurableContext
from aws_durable_execution_sdk_python.execution import (
    DurableExecutionInvocationInputWithClient,
    InitialExecutionState,
    durable_execution,
)
from aws_durable_execution_sdk_python.lambda_service import (
    CallbackDetails,
    CheckpointOutput,
    CheckpointUpdatedExecutionState,
    ContextDetails,
    ExecutionDetails,
    Operation,
    OperationAction,
    OperationStatus,
    OperationType,
    StateOutput,
    StepDetails,
    WaitDetails,
)

UTC = datetime.UTC


class FakeBackend:
    """In-memory durable-execution backend: records checkpoints, plays them back as history."""

    def __init__(self) -> None:
        self.lock = threading.RLock()
        self.ops: dict[str, Operation] = {
            "exec": Operation(
                operation_id="exec",
                operation_type=OperationType.EXECUTION,
                status=OperationStatus.STARTED,
                execution_details=ExecutionDetails(input_payload="{}"),
            )
        }
        self.undelivered: set[str] = set()  # completions no invocation has been told about
        self.delivered_in_response: dict[str, int] = {}  # op id -> invocation number
        self.invocation_no = 0
        self.token = 0
        self.log: list[str] = []
        self.t0 = time.time()

    # -- helpers -----------------------------------------------------------------------------
    def _say(self, text: str) -> None:
        self.log.append(f"[{time.time() - self.t0:6.2f}s inv{self.invocation_no}] {text}")

    def _replace(self, op_id: str, **changes) -> None:
        old = self.ops[op_id]
        fields = {f: getattr(old, f) for f in old.__dataclass_fields__}
        fields.update(changes)
        self.ops[op_id] = Operation(**fields)

    def by_name(self, name: str) -> Operation | None:
        with self.lock:
            for op in self.ops.values():
                if op.name == name:
                    return op
        return None

    # -- the events the backend produces itself ---------------------------------------------------
    def fire_timer(self, name: str) -> None:
        """The timer of the named wait fires now."""
        with self.lock:
            op = self.by_name(name)
            assert op is not None and op.operation_type is OperationType.WAIT
            if op.status is OperationStatus.STARTED:
                self._replace(op.operation_id, status=OperationStatus.SUCCEEDED)
                self.undelivered.add(op.operation_id)
                self._say(f"timer of wait '{name}' fired -> SUCCEEDED")

    def send_callback_success(self, name: str, result: str = '"ok"') -> bool:
        with self.lock:
            op = self.by_name(name)
            if op is None or op.status is not OperationStatus.STARTED:
                return False
            self._replace(
                op.operation_id,
                status=OperationStatus.SUCCEEDED,
                callback_details=CallbackDetails(
                    callback_id=op.callback_details.callback_id, result=result
                ),
            )
            self.undelivered.add(op.operation_id)
            self._say(f"callback '{name}' completed by an external caller")
            return True

    def pending_timers(self) -> list[Operation]:
        with self.lock:
            return [
                op
                for op in self.ops.values()
                if op.operation_type is OperationType.WAIT
                and op.status is OperationStatus.STARTED
            ]

    # -- DurableServiceClient ----------------------------------------------------------------
    def checkpoint(self, durable_execution_arn, checkpoint_token, updates, client_token=None):
        with self.lock:
            for u in updates:
                self._apply(u)
            self.token += 1
            # everything that is in the response has been handed to the running invocation
            for op_id in list(self.undelivered):
                self.delivered_in_response[op_id] = self.invocation_no
                self._say(
                    f"checkpoint response delivers {self.ops[op_id].operation_type.value} "
                    f"'{self.ops[op_id].name}' = {self.ops[op_id].status.value}"
                )
            self.undelivered.clear()
            return CheckpointOutput(
                checkpoint_token=f"t{self.token}",
                new_execution_state=CheckpointUpdatedExecutionState(
                    operations=list(self.ops.values()), next_marker=None
                ),
            )

    def get_execution_state(self, durable_execution_arn, checkpoint_token, next_marker, max_items=1000):
        return StateOutput(operations=[], next_marker=None)

    def _apply(self, u) -> None:
        now = datetime.datetime.now(tz=UTC)
        existing = self.ops.get(u.operation_id)
        if existing is not None and existing.status not in (
            OperationStatus.STARTED,
            OperationStatus.PENDING,
            OperationStatus.READY,
        ):
            msg = f"update {u.action.value} for terminal operation {u.name}"
            raise AssertionError(msg)
        base = dict(
            operation_id=u.operation_id,
            operation_type=u.operation_type,
            parent_id=u.parent_id,
            name=u.name,
            sub_type=u.sub_type,
            start_timestamp=existing.start_timestamp if existing else now,
        )
        t = u.operation_type
        if t is OperationType.CONTEXT:
            if u.action is OperationAction.START:
                op = Operation(status=OperationStatus.STARTED, **base)
            elif u.action is OperationAction.SUCCEED:
                op = Operation(
                    status=OperationStatus.SUCCEEDED,
                    context_details=ContextDetails(
                        replay_children=bool(
                            u.context_options and u.context_options.replay_children
                        ),
                        result=u.payload,
                    ),
                    **base,
                )
            else:
                op = Operation(
                    status=OperationStatus.FAILED,
                    context_details=ContextDetails(replay_children=False, error=u.error),
                    **base,
                )
        elif t is OperationType.STEP:
            if u.action is OperationAction.START:
                op = Operation(
                    status=OperationStatus.STARTED, step_details=StepDetails(attempt=1), **base
                )
            elif u.action is OperationAction.SUCCEED:
                op = Operation(
                    status=OperationStatus.SUCCEEDED,
                    step_details=StepDetails(attempt=1, result=u.payload),
                    **base,
                )
            elif u.action is OperationAction.FAIL:
                op = Operation(
                    status=OperationStatus.FAILED,
                    step_details=StepDetails(attempt=1, error=u.error),
                    **base,
                )
            else:
                raise AssertionError("step RETRY is not used by this script")
        elif t is OperationType.WAIT:
            assert u.action is OperationAction.START
            end = now + datetime.timedelta(seconds=u.wait_options.wait_seconds)
            op = Operation(
                status=OperationStatus.STARTED,
                wait_details=WaitDetails(scheduled_end_timestamp=end),
                **base,
            )
        elif t is OperationType.CALLBACK:
            assert u.action is OperationAction.START
            op = Operation(
                status=OperationStatus.STARTED,
                callback_details=CallbackDetails(callback_id=f"cb-{u.operation_id[:8]}"),
                **base,
            )
        elif t is OperationType.EXECUTION:
            return
        else:
            raise AssertionError(f"unsupported operation type {t}")
        self.ops[u.operation_id] = op
        self._say(f"recorded {t.value} {u.action.value} '{u.name}'")

    # -- invoking --------------------------------------------------------------------------------
    def invoke(self, handler) -> dict:
        with self.lock:
            self.invocation_no += 1
            history = list(self.ops.values())
            # the history handed to a new invocation tells it about every completion so far
            self.undelivered.clear()
            self.token += 1
            token = f"t{self.token}"
            self._say("invocation starts")
        event = DurableExecutionInvocationInputWithClient(
            durable_execution_arn="arn:fake",
            checkpoint_token=token,
            initial_execution_state=InitialExecutionState(operations=history, next_marker=""),
            service_client=self,
        )
        lambda_context = Mock()
        lambda_context.aws_request_id = "req"
        lambda_context.client_context = None
        lambda_context.identity = None
        lambda_context._epoch_deadline_time_in_ms = 0  # noqa: SLF001
        lambda_context.invoked_function_arn = "arn:fn"
        lambda_context.tenant_id = None

        box: dict = {}

        def run() -> None:
            try:
                box["out"] = handler(event, lambda_context)
            except BaseException as e:  # noqa: BLE001
                box["err"] = e

        th = threading.Thread(target=run, daemon=True)
        th.start()
        th.join(timeout=30)
        assert not th.is_alive(), "invocation hangs (30 s)"
        if "err" in box:
            raise box["err"]
        with self.lock:
            self._say(f"invocation answers {box['out']['Status']}")
        return box["out"]


backend = FakeBackend()


def branch_escalate(ctx: DurableContext) -> str:
    """After one second, approve on behalf of the absent human."""
    ctx.wait(Duration.from_seconds(1), name="grace-period")
    ctx.step(
        lambda _: backend.send_callback_success("approval", '"auto-approved"'),
        name="auto-approve",
    )
    return "escalated"


def branch_human(ctx: DurableContext) -> str:
    ctx.create_callback(name="go").result()

    def prepare(_):
        # the backend's timer of "grace-period" fires while this step runs: a little after the
        # recorded end of the wait (timers never fire early), and during the invocation
        backend.fire_timer("grace-period")
        return "prepared"

    ctx.step(prepare, name="prepare")
    return ctx.create_callback(name="approval").result()


@durable_execution
def handler(event, ctx: DurableContext):
    result = ctx.parallel([branch_escalate, branch_human], name="approval-flow")
    return [item.status.value for item in result.all]


def main() -> int:
    out = backend.invoke(handler)
    assert out["Status"] == "PENDING", out
    wait_op = backend.by_name("grace-period")
    assert wait_op is not None and wait_op.status is OperationStatus.STARTED

    # an external caller sends "go" just after the recorded end of the wait; the backend's own
    # timer for the wait is (as always) a little late and has not fired yet
    end = wait_op.wait_details.scheduled_end_timestamp
    delay = (end - datetime.datetime.now(tz=UTC)).total_seconds() + 0.05
    time.sleep(max(delay, 0))
    assert backend.send_callback_success("go")

    for _ in range(10):
        out = backend.invoke(handler)
        if out["Status"] != "PENDING":
            break
        with backend.lock:
            undelivered = set(backend.undelivered)
        timers = backend.pending_timers()
        if undelivered:
            continue  # the backend re-invokes: something completed that nobody was told about
        if timers:
            for op in timers:
                backend.fire_timer(op.name)
            continue
        # PENDING, no timer pending, every completion was handed to the invocation that just ended
        wait_op = backend.by_name("grace-period")
        auto = backend.by_name("auto-approve")
        print("\n".join(backend.log))
        delivered_to = backend.delivered_in_response.get(wait_op.operation_id)
        assert not (
            wait_op.status is OperationStatus.SUCCEEDED
            and delivered_to == backend.invocation_no
            and auto is None
        ), (
            "C07 violated: the invocation answered PENDING although the wait 'grace-period' its branch "
            f"was parked on is SUCCEEDED and was delivered to this very invocation (no. {delivered_to}) "
            "in a checkpoint response; the step after the wait never ran, no timer is pending at the "
            "backend, and the only open event (callback 'approval') is sent by that step: "
            "the execution is stuck for ever. The verdict counted the branch as parked because it "
            "was inside the 1 s re-look that a73cf0b gives a wait whose recorded end has passed."
        )
        raise AssertionError("PENDING with nothing registered (unexpected shape)")
    print("\n".join(backend.log))
    assert out["Status"] == "SUCCEEDED", out
    print("execution finished:", json.loads(out["Result"]))
    return 0


if __name__ == "__main__":
    sys.exit(main())
