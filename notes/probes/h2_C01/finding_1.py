"""finding_1 (C01): a completed, summarised child context - and the FAILED callback inside it - are not
replayed from their records when the same program position is reached a second time IN THE SAME
INVOCATION; the call raises OrphanedChildException, the branch is dropped silently and the
invocation hangs.

Run:  PYTHONPATH=/tmp/wt/h2_C01/src /venv/bin/python finding_1.py      (exit code 1 == violation shown)

Program (legal public API only):

    parallel(
      branch 0:  r = run_in_child_context(gather)     # gather: create_callback, result() -> CallbackError is
                                                      #         caught, returns a result > 256 KB  => the context
                                                      #         is recorded SUCCEEDED with ReplayChildren=True
                 wait(1 s)                            # timed suspend of the branch
                 return r[0]
      branch 1:  create_callback().result()           # (only there so that the branch has work left in
                 step(slow, 3 s)                      #  invocation 2: it keeps the invocation alive)
    )

Invocation 1 suspends on both callbacks. The backend delivers: callback of branch 0 FAILED, callback of
branch 1 SUCCEEDED. Invocation 2: branch 0 completes `gather` (SUCCEED + ReplayChildren is sent, i.e. the
context is a completed operation from now on), starts the wait and suspends with a resume time. Branch 1
is still busy, so the executor's resume timer resubmits branch 0 one second later - in the same
invocation. Branch 0 runs from the top again and reaches run_in_child_context(gather) a second time.
Expected by C01: the body is re-traversed (summarised context), create_callback()/result() yield the
recorded failure again, run_in_child_context returns the same value. Actual: OrphanedChildException.

Clause violated: "every later call at the same program position yields the recorded result or raises the
recorded error" / "in the same invocation" (child context recorded SUCCEEDED, callback recorded FAILED).

Code: operation/base.py OperationExecutor.process() asks state.raise_if_orphaned() for every operation that
is "ready to execute" and not recorded SUCCEEDED; operation/callback.py
CallbackOperationExecutor.check_result_status() reports *every* existing callback (also a FAILED one) as
"ready to execute"; state.py ExecutionState._has_completed_ancestor() finds the enclosing context in
_completed_contexts because its completion record was handed over in this very invocation.
concurrency/executor.py _on_task_complete() swallows the OrphanedChildException and leaves the branch
RUNNING, so the parallel neither completes nor suspends: the handler never returns.

Minimal repair (validated on a copy of src: this script passes, 1080 tests pass): an existing callback
needs no resume check (no user code runs, nothing is sent) - in
CallbackOperationExecutor.check_result_status() return
CheckResult.create_completed(checkpointed_result.operation.callback_details.callback_id) for an existing
callback instead of create_is_ready_to_execute(checkpointed_result).

Variant (same root cause, hangs in the very first invocation): the context only creates the callback
(holder["cb"] = cc.create_callback()) and the branch awaits holder["cb"].result() after the wait.
"""

from __future__ import annotations

import dataclasses
import datetime
import logging
import os
import sys
import threading
import time
import traceback

from aws_durable_execution_sdk_python.config import Duration
from aws_durable_execution_sdk_python.exceptions import CallbackError
from aws_durable_execution_sdk_python.execution import (
    DurableExecutionInvocationInputWithClient,
    InitialExecutionState,
    durable_execution,
)
from aws_durable_execution_sdk_python.lambda_service import (
    CallbackDetails,
    CheckpointOutput,
    CheckpointUpdatedExecutionState,
    ContextDetails,
    ErrorObject,
    ExecutionDetails,
    Operation,
    OperationStatus,
    OperationType,
    StateOutput,
    StepDetails,
    WaitDetails,
)

logging.disable(logging.CRITICAL)

S = OperationStatus
TERMINAL = {S.SUCCEEDED, S.FAILED, S.CANCELLED, S.TIMED_OUT, S.STOPPED}


class Backend:
    """Minimal in-memory model of the durable execution service (records updates, plays them back)."""

    def __init__(self):
        self.lock = threading.RLock()
        self.ops: dict[str, Operation] = {}
        self.n = 0
        self.rejected: list[str] = []
        self._put(
            Operation("exec", OperationType.EXECUTION, S.STARTED, execution_details=ExecutionDetails(input_payload="{}"))
        )

    def _put(self, op):
        self.ops[op.operation_id] = op

    def _now(self):
        return datetime.datetime.now(tz=datetime.UTC)

    def fire_timers(self):
        changed = []
        for op in list(self.ops.values()):
            if op.operation_type is OperationType.WAIT and op.status is S.STARTED and op.wait_details.scheduled_end_timestamp <= self._now():
                self._put(dataclasses.replace(op, status=S.SUCCEEDED))
                changed.append(op.operation_id)
        return changed

    def checkpoint(self, durable_execution_arn, checkpoint_token, updates, client_token=None):
        with self.lock:
            changed = self.fire_timers()
            for u in updates:
                w = u.to_dict()  # exactly what the real client puts on the wire
                old = self.ops.get(w["Id"])
                if old is not None and old.status in TERMINAL:
                    self.rejected.append(f"{w['Action']} for terminal {old.name}")
                    raise RuntimeError(self.rejected[-1])
                base = dict(operation_id=w["Id"], operation_type=OperationType(w["Type"]), parent_id=w.get("ParentId"), name=w.get("Name"))
                t, a = w["Type"], w["Action"]
                err = ErrorObject.from_dict(w["Error"]) if w.get("Error") else None
                if t == "CONTEXT":
                    if a == "START":
                        op = Operation(status=S.STARTED, **base)
                    elif a == "SUCCEED":
                        op = Operation(status=S.SUCCEEDED, context_details=ContextDetails(replay_children=bool(w.get("ContextOptions", {}).get("ReplayChildren")), result=w.get("Payload")), **base)
                    else:
                        op = Operation(status=S.FAILED, context_details=ContextDetails(error=err), **base)
                elif t == "STEP":
                    st = {"START": S.STARTED, "SUCCEED": S.SUCCEEDED, "FAIL": S.FAILED}[a]
                    op = Operation(status=st, step_details=StepDetails(attempt=1, result=w.get("Payload"), error=err), **base)
                elif t == "WAIT":
                    end = self._now() + datetime.timedelta(seconds=w["WaitOptions"]["WaitSeconds"])
                    op = Operation(status=S.STARTED, wait_details=WaitDetails(scheduled_end_timestamp=end), **base)
                elif t == "CALLBACK":
                    self.n += 1
                    op = Operation(status=S.STARTED, callback_details=CallbackDetails(callback_id=f"cb-{self.n}"), **base)
                else:
                    raise RuntimeError(f"unexpected update {w}")
                self._put(op)
                changed.append(op.operation_id)
            ops = [self.ops[i] for i in dict.fromkeys(changed)]
            return CheckpointOutput("tok", CheckpointUpdatedExecutionState(operations=ops, next_marker=None))

    def get_execution_state(self, durable_execution_arn, checkpoint_token, next_marker, max_items=1000):
        return StateOutput(operations=[], next_marker=None)

    def by_name(self, name):
        return next(op for op in self.ops.values() if op.name == name)

    def complete_callback(self, name, result=None, error=None):
        with self.lock:
            op = self.by_name(name)
            self._put(
                dataclasses.replace(
                    op,
                    status=S.FAILED if error else S.SUCCEEDED,
                    callback_details=CallbackDetails(op.callback_details.callback_id, result=result, error=error),
                )
            )


class LambdaContext:
    aws_request_id = "r"
    invoked_function_arn = "arn"

    def get_remaining_time_in_millis(self):
        return 60000


BIG = "x" * (300 * 1024)  # > 256 KB: the child context is checkpointed as a summary (ReplayChildren)
visits: list[str] = []  # what run_in_child_context("gather") produced, per visit of that program position
gather_bodies: list[str] = []


def workflow(event, ctx):
    def branch0(c):
        def gather(cc):
            cb = cc.create_callback(name="approval")
            try:
                decision = cb.result()
            except CallbackError as e:
                decision = f"rejected: {e}"
            gather_bodies.append(decision)
            return [decision, BIG]

        try:
            r = c.run_in_child_context(gather, name="gather")
        except BaseException as e:  # observe only, always re-raised
            visits.append(f"raised {type(e).__name__}: {e}")
            raise
        visits.append(f"returned {r[0]!r}")
        c.wait(Duration.from_seconds(1), name="cool-down")
        return r[0]

    def branch1(c):
        c.create_callback(name="go").result()

        def slow(_):
            time.sleep(3)
            return "done"

        return c.step(slow, name="slow")

    res = ctx.parallel([branch0, branch1], name="p")
    return [i.status.value for i in res.all]


handler = durable_execution(workflow)


def invoke(backend, timeout):
    with backend.lock:
        backend.fire_timers()
        ops = list(backend.ops.values())
    event = DurableExecutionInvocationInputWithClient(
        durable_execution_arn="arn:exec",
        checkpoint_token="tok",
        initial_execution_state=InitialExecutionState(operations=ops, next_marker=""),
        service_client=backend,
    )
    box = []
    t = threading.Thread(target=lambda: box.append(handler(event, LambdaContext())), daemon=True)
    t.start()
    t.join(timeout)
    return box[0] if box else None  # None: the invocation did not come back


def main():
    be = Backend()
    out1 = invoke(be, 20)
    assert out1 == {"Status": "PENDING"}, out1
    be.complete_callback("approval", error=ErrorObject("request denied", "Denied", None, None))
    be.complete_callback("go", result="go")

    visits.clear()  # only invocation 2 is of interest
    out2 = invoke(be, 20)
    gather = be.by_name("gather")
    approval = be.by_name("approval")
    print("backend: gather  =", gather.status.value, "ReplayChildren =", gather.context_details.replay_children)
    print("backend: approval =", approval.status.value)
    print("visits of run_in_child_context('gather') in invocation 2:")
    for v in visits:
        print("   ", v)
    print("invocation 2 output:", out2 if out2 is not None else "<none after 20 s: the invocation hangs>")

    assert gather.status is S.SUCCEEDED and approval.status is S.FAILED
    assert len(visits) >= 2 and visits[0].startswith("returned"), f"scenario did not reach the second visit: {visits}"
    assert all(v == visits[0] for v in visits), (
        "C01 violated: the child context 'gather' is recorded SUCCEEDED (summarised) and its callback FAILED, "
        f"but the second call at the same program position, in the same invocation, did not yield the recorded outcome: {visits}"
    )
    assert out2 is not None, "C01 violated: invocation hangs after the completed context was visited again"


if __name__ == "__main__":
    try:
        main()
    except AssertionError:
        traceback.print_exc()
        sys.stdout.flush()
        os._exit(1)  # pool threads of the hung invocation would keep the interpreter alive
    print("no violation observed")
    os._exit(0)
