"""C06 handshake: forced schedule for the check-then-put window of create_checkpoint.

Producer B passes the `_checkpointing_failed.is_set()` test, is then held back (we delay its
queue.put) until the consumer has failed, drained both queues and raised the flag, and only then
enqueues.  Before the repair nobody ever sets B's completion event -> B blocks forever.
Run from a directory outside the package:  /venv/bin/python p5_handshake.py
"""
import threading, time
from aws_durable_execution_sdk_python.state import ExecutionState, CheckpointBatcherConfig
from aws_durable_execution_sdk_python.lambda_service import *
from aws_durable_execution_sdk_python.exceptions import *

class Backend:
    def checkpoint(self, **kw):
        raise CheckpointError("boom", CheckpointErrorCategory.INVOCATION)
    def get_execution_state(self, *a, **k): return StateOutput([], None)

st = ExecutionState("arn", "t0", {}, Backend(), CheckpointBatcherConfig(max_batch_time_seconds=0.01))
real_put = st._checkpoint_queue.put
def slow_put(item):
    if threading.current_thread().name == "B":
        # B already passed the failure check; hold it until the consumer finished failing
        while not st._checkpointing_failed.is_set():
            time.sleep(0.01)
        time.sleep(0.05)
    real_put(item)
st._checkpoint_queue.put = slow_put
res = {}
def producer(name):
    try:
        st.create_checkpoint(OperationUpdate(name, OperationType.STEP, OperationAction.START), is_sync=True)
        res[name] = "returned"
    except BaseException as e:
        res[name] = type(e).__name__
b = threading.Thread(target=producer, args=("B",), name="B", daemon=True); b.start()
time.sleep(0.1)                      # B is now parked inside slow_put, after its flag check
c = threading.Thread(target=st.checkpoint_batches_forever, daemon=True); c.start()
a = threading.Thread(target=producer, args=("A",), name="A", daemon=True); a.start()   # A's update makes the API call fail
a.join(3); b.join(3)
print("A:", res.get("A"), "| B:", res.get("B", "BLOCKED FOREVER (lost wake-up)"))
st.stop_checkpointing()
