"""finding_1: a left-behind branch that runs a nested map/parallel stays blocked for ever.

Related commit: 2d7386f "release callers that wait on a checkpoint after checkpointing was stopped"
(its message: "A thread that outlives the handler - a branch of a map/parallel that completed early ...
In a warm container every such invocation leaked the blocked threads").

That commit releases threads that are blocked in ExecutionState.create_checkpoint(). A left-behind branch
can also be blocked in ConcurrentExecutor.execute() -> self._completion_event.wait() of a NESTED map/parallel:
when the outer map/parallel completes early (min_successful), the inner branches are stopped at their next
checkpoint with OrphanedChildException, and ConcurrentExecutor._on_task_complete() handles that exception with a
bare `return` - it neither counts the branch nor sets the completion event. Once every inner branch has ended that
way nobody ever wakes the outer branch thread: it (plus the idle workers of the inner pool and the inner
TimerScheduler thread, which polls every 100 ms) is leaked by every such invocation, also after the fix.
This is NOT a regression of 2d7386f (the code is in the initial snapshot); it is the variant of the leak the commit
does not close (nested contexts + early completion with left-behind branches).

Run:  PYTHONPATH=/tmp/wt/g1_wrapper/src /venv/bin/python /tmp/wt/g1_wrapper/finding_1.py
Exits 1 with an assertion message on the current code.
"""

from __future__ import annotations

import datetime
import logging
import os
import sys
import threading
import time
import traceback
from unittest.mock import Mock

from aws_durable_execution_sdk_python.config import CompletionConfig, ParallelConfig
from aws_durable_execution_sdk_python.execution import (
    DurableExecutionInvocationInputWithClient,
    InitialExecutionState,
    durable_execution,
)
from aws_durable_execution_sdk_python.lambda_service import (
    CheckpointOutput,
    CheckpointUpdatedExecutionState,
    ContextDetails,
    ExecutionDetails,
    Operation,
    OperationAction,
    OperationStatus,
    OperationType,
    StateOutput,
    StepDetails,
)

logging.disable(logging.CRITICAL)


class FakeBackend:
    """Records every update and plays it back as the new execution state."""

    def __init__(self):
        self.lock = threading.Lock()
        self.calls = []
        self.ops = {
            "exec": Operation(
                operation_id="exec",
                operation_type=OperationType.EXECUTION,
                status=OperationStatus.STARTED,
                execution_details=ExecutionDetails(input_payload="{}"),
            )
        }

    def checkpoint(self, durable_execution_arn, checkpoint_token, updates, client_token=None):
        with self.lock:
            self.calls.append(list(updates))
            changed = []
            for u in updates:
                kw = dict(operation_id=u.operation_id, operation_type=u.operation_type, parent_id=u.parent_id,
                          name=u.name, sub_type=u.sub_type)
                if u.action is OperationAction.START:
                    op = Operation(status=OperationStatus.STARTED, **kw)
                elif u.operation_type is OperationType.STEP:
                    op = Operation(status=OperationStatus.SUCCEEDED,
                                   step_details=StepDetails(attempt=1, result=u.payload), **kw)
                else:
                    op = Operation(status=OperationStatus.SUCCEEDED,
                                   context_details=ContextDetails(result=u.payload), **kw)
                self.ops[u.operation_id] = op
                changed.append(op)
            return CheckpointOutput(
                checkpoint_token=f"t{len(self.calls)}",
                new_execution_state=CheckpointUpdatedExecutionState(operations=changed),
            )

    def get_execution_state(self, durable_execution_arn, checkpoint_token, next_marker, max_items=1000):
        return StateOutput(operations=[], next_marker=None)


def lambda_context():
    c = Mock()
    c.aws_request_id = "rid"
    c.client_context = None
    c.identity = None
    c._epoch_deadline_time_in_ms = 0  # noqa: SLF001
    c.invoked_function_arn = "arn"
    c.tenant_id = None
    return c


inner_running = threading.Semaphore(0)  # released by each inner branch once it runs
outer_done = threading.Event()  # set by the handler after the outer parallel has completed early
inner_outcome: dict[int, str] = {}


@durable_execution
def handler(event, ctx):
    def quick(c):
        # wait until the nested map of the other branch is executing, then finish: min_successful=1 is reached
        inner_running.acquire(timeout=10)
        inner_running.acquire(timeout=10)
        return c.step(lambda sc: "quick", "quick")

    def slow(c):
        def item(cc, value, idx, items):
            inner_running.release()
            outer_done.wait(10)  # ... the outer parallel completes meanwhile
            try:
                return cc.step(lambda sc: value, f"inner-step-{idx}")
            except BaseException as e:  # noqa: BLE001
                inner_outcome[idx] = type(e).__name__
                raise

        return c.map([1, 2], item, "inner-map").get_results()

    result = ctx.parallel(
        [quick, slow], "outer", ParallelConfig(completion_config=CompletionConfig(min_successful=1))
    )
    outer_done.set()
    return result.success_count


def main() -> int:
    backend = FakeBackend()
    event = DurableExecutionInvocationInputWithClient(
        durable_execution_arn="arn:test",
        checkpoint_token="t0",
        initial_execution_state=InitialExecutionState(operations=list(backend.ops.values()), next_marker=""),
        service_client=backend,
    )
    threads_before = set(threading.enumerate())
    box = {}
    invoker = threading.Thread(target=lambda: box.update(r=handler(event, lambda_context())), daemon=True)
    invoker.start()
    invoker.join(30)
    assert not invoker.is_alive(), "the invocation itself hung"
    assert box["r"] == {"Status": "SUCCEEDED", "Result": "1"}, box["r"]

    # the invocation has answered; give every left-behind thread ample time to notice and end
    deadline = time.time() + 6
    leaked = []
    while time.time() < deadline:
        leaked = [t for t in threading.enumerate() if t not in threads_before and t is not invoker and t.is_alive()]
        if not leaked:
            break
        time.sleep(0.2)

    print("inner branches ended with:", inner_outcome)
    if leaked:
        frames = sys._current_frames()  # noqa: SLF001
        for t in leaked:
            where = traceback.extract_stack(frames[t.ident])
            top = [f"{os.path.basename(f.filename)}:{f.lineno}:{f.name}" for f in where[-4:]]
            print(f"  still alive 6 s after the answer: {t.name} daemon={t.daemon} at {top}")
    blocked = [
        t for t in leaked
        if any(f.name == "execute" and f.filename.endswith("concurrency/executor.py")
               for f in traceback.extract_stack(sys._current_frames()[t.ident]))  # noqa: SLF001
    ]
    try:
        assert not blocked, (
            f"{len(blocked)} left-behind branch thread(s) are blocked for ever in ConcurrentExecutor.execute() "
            f"(_completion_event.wait()) after the invocation answered - {len(leaked)} threads leaked in total: "
            "the nested executor's branches ended with OrphanedChildException, which _on_task_complete() swallows "
            "without setting the completion event"
        )
    except AssertionError as e:
        print("FINDING:", e)
        return 1
    print("no leaked thread")
    return 0


if __name__ == "__main__":
    rc = main()
    sys.stdout.flush()
    os._exit(rc)  # the leaked non-daemon pool threads would otherwise hang the interpreter at exit
