"""finding_2: a branch that the resume timer re-runs in-process logs its already-replayed code again.

Commits: 7137dfe / e7e3a56 (the replay boundary they repaired: state.py:ExecutionState.track_replay,
begin_replay_tracking) - the repairs do not cover the "in-process resumption by the resume timer" variant.
Code: state.py:ExecutionState.track_replay (REPLAY -> NEW is global and one-way) together with
concurrency/executor.py:TimerScheduler / ConcurrentExecutor._execute_item_in_child_context (a resumed branch
runs its body again from the top, in a fresh child context).

C17: in an invocation that resumes from a non-empty history the context logger "emits nothing for log calls in
code an earlier invocation already ran, i.e. calls that precede in program order an operation that had completed
before this invocation began".

invocation 1: branch 0 logs, completes step A0, starts a long wait; branch 1 completes A1, starts a long wait.
              (both long waits fire)
invocation 2: branch 0 replays A0 and the long wait (its log calls are muted - correct), starts a 1 s wait and is
              parked by the executor; branch 1 is busy with a slow step, so the parallel does not suspend.  After
              1 s the resume timer resubmits branch 0: its body runs again from the top.  The state is NEW by now,
              so 'b0-before-A0' and 'b0-after-A0' - code that invocation 1 ran, preceding A0 which completed in
              invocation 1 - are emitted in invocation 2.

No interleaving is forced; only real timers are used (takes ~3 s).

Run:  PYTHONPATH=/tmp/wt/g1_history/src:/tmp/wt/g1_history python finding_2.py
"""

from __future__ import annotations

import dataclasses
import sys
import time

import aws_durable_execution_sdk_python.state as state_mod
from aws_durable_execution_sdk_python.config import Duration
from aws_durable_execution_sdk_python.execution import durable_execution
from aws_durable_execution_sdk_python.lambda_service import OperationStatus, OperationType
from harness import FakeBackend, ListLogger, now, run_invocation

_orig_cfg = state_mod.CheckpointBatcherConfig
state_mod.CheckpointBatcherConfig = lambda *a, **k: _orig_cfg(*a, **{"max_batch_time_seconds": 0.0, **k})

backend = FakeBackend(input_payload="{}")
log = ListLogger()


def fire_due_waits(_updates):
    """The backend completes a wait whose time has come; the next checkpoint response reports it."""
    for op in list(backend.ops.values()):
        if (
            op.operation_type is OperationType.WAIT
            and op.status is OperationStatus.STARTED
            and op.wait_details.scheduled_end_timestamp <= now()
        ):
            backend._touch(dataclasses.replace(op, status=OperationStatus.SUCCEEDED))  # noqa: SLF001


backend.checkpoint_hook = fire_due_waits


def branch0(c):
    c.logger.info("b0-before-A0")
    c.step(lambda sc: "a0", name="A0")
    c.logger.info("b0-after-A0")
    c.wait(Duration.from_seconds(300), name="W0-long")
    c.wait(Duration.from_seconds(1), name="W0-short")  # new in invocation 2; resumed in-process
    c.logger.info("b0-after-short-wait")
    return c.step(lambda sc: "x0", name="X0")


def branch1(c):
    c.step(lambda sc: "a1", name="A1")
    c.wait(Duration.from_seconds(300), name="W1-long")

    def slow(sc):
        time.sleep(2.0)
        return "slow"

    return c.step(slow, name="SLOW")


@durable_execution
def handler(event, ctx):
    ctx.set_logger(log)
    return ctx.parallel([branch0, branch1], name="par").get_results()


out1 = run_invocation(handler, backend)
assert out1.get("out", {}).get("Status") == "PENDING", out1
assert log.messages() == ["b0-before-A0", "b0-after-A0"], log.messages()

backend.complete_wait("W0-long")
backend.complete_wait("W1-long")
n = len(log.records)
out2 = run_invocation(handler, backend)
assert out2.get("out", {}).get("Status") == "SUCCEEDED", out2
assert out2["out"]["Result"] == '["x0", "slow"]', out2
assert not backend.violations, backend.violations
emitted = [m for m, _ in log.records[n:]]
print("invocation 2 emitted:", emitted)
assert "b0-after-short-wait" in emitted, "new code must be logged"
again = [m for m in ("b0-before-A0", "b0-after-A0") if m in emitted]
if again:
    print(
        f"FAIL (C17): {again} precede step A0, which had completed before invocation 2 began, but invocation 2 "
        "emitted them (when the resume timer re-ran branch 0 from the top)"
    )
    sys.exit(1)
print("ok")
