"""finding_2 - bd97b72: the resume timer now resubmits into a thread pool that execute() has shut down.

Before bd97b72 TimerScheduler._timer_loop() called the resubmit callback while holding the
scheduler's lock, and TimerScheduler.shutdown() takes that lock (to clear the heap) after its
join(timeout=1.0).  So execute() could not reach `thread_executor.shutdown()` (its `finally`)
while a resubmission was in flight: the `submit()` of the resubmission always found a live pool.

bd97b72 moved the callback out of the lock and did not put anything in its place:
  * _timer_loop() pops the branch and resets it to PENDING under the lock,
  * the callback then makes the refresh checkpoint (a network call that also queues behind whatever
    the single batcher thread is sending at that moment),
  * meanwhile another branch decides the completion policy; execute() leaves the `with
    TimerScheduler` block - shutdown() joins the timer thread for 1.0 s only and the lock is free
    now - and shuts the pool down in its `finally`,
  * the callback returns from the checkpoint and calls submit_task():
        RuntimeError: cannot schedule new futures after shutdown
    is raised in the timer thread, where nothing catches it: the thread dies through
    threading.excepthook (a traceback on stderr / in the Lambda log of an execution that
    SUCCEEDED) and the branch is left PENDING without a future.
  With the code before bd97b72 the same interleaving ends quietly (checked with the commit reverted).

Needs: a map/parallel whose policy is decided (here min_successful=1) while the resume timer is
inside its refresh checkpoint for a branch parked on a timer, and that refresh still being
outstanding 1.0 s after the decision (a slow / throttled call; the SDK's read timeout is 50 s).

This script drives the real `durable_execution` wrapper with an in-memory backend.  Forcing: the
backend holds the call that carries the SUCCEED of branch 1 until the timer thread has queued its
refresh checkpoint, and answers the (empty) refresh call after 1.6 s.

Run:  PYTHONPATH=/tmp/wt/g1_branches/src /venv/bin/python /tmp/wt/g1_branches/finding_2.py
"""

from __future__ import annotations

import datetime
import logging
import sys
import threading
import time

from aws_durable_execution_sdk_python.config import (
    CompletionConfig,
    Duration,
    MapConfig,
)
from aws_durable_execution_sdk_python.context import DurableContext
from aws_durable_execution_sdk_python.execution import (
    DurableExecutionInvocationInputWithClient,
    InitialExecutionState,
    durable_execution,
)
from aws_durable_execution_sdk_python.lambda_service import (
    CheckpointOutput,
    CheckpointUpdatedExecutionState,
    ContextDetails,
    ExecutionDetails,
    Operation,
    OperationAction,
    OperationStatus,
    OperationType,
    StateOutput,
    StepDetails,
    WaitDetails,
)

logging.disable(logging.CRITICAL)
UTC = datetime.UTC


class Backend:
    """In-memory DurableServiceClient: records checkpoints, fires wait timers, plays history back."""

    def __init__(self) -> None:
        self.lock = threading.Lock()
        self.ops: dict[str, Operation] = {
            "exec": Operation(
                operation_id="exec",
                operation_type=OperationType.EXECUTION,
                status=OperationStatus.STARTED,
                execution_details=ExecutionDetails(input_payload="{}"),
            )
        }
        self.token = 0
        self.before_call = None  # hook(updates)
        self.after_call = None  # hook(updates)
        self.latency = 0.0
        self.slow_latency = 0.0

    def _fire_timers(self) -> list[Operation]:
        now = datetime.datetime.now(tz=UTC)
        fired = []
        for op_id, op in list(self.ops.items()):
            if (
                op.operation_type is OperationType.WAIT
                and op.status is OperationStatus.STARTED
                and op.wait_details
                and op.wait_details.scheduled_end_timestamp <= now
            ):
                new = Operation(
                    operation_id=op.operation_id,
                    operation_type=op.operation_type,
                    status=OperationStatus.SUCCEEDED,
                    parent_id=op.parent_id,
                    name=op.name,
                    sub_type=op.sub_type,
                    wait_details=op.wait_details,
                )
                self.ops[op_id] = new
                fired.append(new)
        return fired

    def checkpoint(self, durable_execution_arn, checkpoint_token, updates, client_token):
        if self.before_call:
            self.before_call(updates)
        # an API round trip; the refresh call of the resume timer is a slow one (the SDK allows 50 s)
        time.sleep(self.latency if updates else self.slow_latency)
        with self.lock:
            changed = self._fire_timers()
            for u in updates:
                old = self.ops.get(u.operation_id)
                status = {
                    OperationAction.START: OperationStatus.STARTED,
                    OperationAction.SUCCEED: OperationStatus.SUCCEEDED,
                    OperationAction.FAIL: OperationStatus.FAILED,
                }[u.action]
                kw = {}
                if u.operation_type is OperationType.CONTEXT:
                    kw["context_details"] = ContextDetails(
                        replay_children=bool(
                            u.context_options and u.context_options.replay_children
                        ),
                        result=u.payload,
                        error=u.error,
                    )
                elif u.operation_type is OperationType.WAIT:
                    kw["wait_details"] = WaitDetails(
                        scheduled_end_timestamp=datetime.datetime.now(tz=UTC)
                        + datetime.timedelta(seconds=u.wait_options.wait_seconds)
                    )
                elif u.operation_type is OperationType.STEP:
                    kw["step_details"] = StepDetails(
                        attempt=(old.step_details.attempt if old and old.step_details else 0)
                        + (u.action is not OperationAction.START),
                        result=u.payload,
                        error=u.error,
                    )
                new = Operation(
                    operation_id=u.operation_id,
                    operation_type=u.operation_type,
                    status=status,
                    parent_id=u.parent_id or (old.parent_id if old else None),
                    name=u.name or (old.name if old else None),
                    sub_type=u.sub_type or (old.sub_type if old else None),
                    **kw,
                )
                self.ops[u.operation_id] = new
                changed.append(new)
            self.token += 1
            output = CheckpointOutput(
                checkpoint_token=f"tok-{self.token}",
                new_execution_state=CheckpointUpdatedExecutionState(operations=changed),
            )
        if self.after_call:
            self.after_call(updates)
        return output

    def get_execution_state(self, durable_execution_arn, checkpoint_token, next_marker, max_items=1000):
        return StateOutput(operations=[], next_marker=None)

    def invocation_input(self):
        with self.lock:
            self._fire_timers()
            return DurableExecutionInvocationInputWithClient(
                durable_execution_arn="arn:test",
                checkpoint_token=f"tok-{self.token}",
                initial_execution_state=InitialExecutionState(
                    operations=list(self.ops.values()), next_marker=""
                ),
                service_client=self,
            )


def main() -> int:
    uncaught: list[threading.ExceptHookArgs] = []
    previous_hook = threading.excepthook

    def hook(args):
        uncaught.append(args)
        previous_hook(args)

    threading.excepthook = hook

    backend = Backend()
    backend.latency = 0.2
    backend.slow_latency = 1.6  # longer than the 1.0 s join timeout of TimerScheduler.shutdown()
    parked = threading.Event()  # the wait of branch 0 is registered with the backend
    refresh_queued = threading.Event()  # the timer thread asked for its refresh checkpoint

    def before_call(updates):
        # Hold the call that carries the SUCCEED of branch 1 until the timer thread has queued its refresh
        # checkpoint: the decision (min_successful=1) is then made while that refresh is in flight.
        if any(
            u.action is OperationAction.SUCCEED and u.name == "map-item-1" for u in updates
        ):
            assert refresh_queued.wait(20), "timer thread never asked for its refresh checkpoint"

    def after_call(updates):
        if any(u.operation_type is OperationType.WAIT for u in updates):
            parked.set()

    backend.before_call = before_call
    backend.after_call = after_call

    def item(ctx: DurableContext, value, index, _items):
        if index == 0:
            ctx.wait(Duration.from_seconds(2), name="w")  # parks branch 0 on the resume timer
            return "zero"
        assert parked.wait(20)
        time.sleep(0.1)
        return "one"

    @durable_execution
    def handler(_event, context: DurableContext):
        state = context.state
        original = state.create_checkpoint

        def create_checkpoint(operation_update=None, is_sync=True):  # noqa: FBT002
            if operation_update is None:
                # only the resume timer sends an empty (refresh) checkpoint; report it once it is queued
                threading.Timer(0.05, refresh_queued.set).start()
            return original(operation_update, is_sync)

        state.create_checkpoint = create_checkpoint
        batch = context.map(
            [10, 11],
            item,
            config=MapConfig(completion_config=CompletionConfig(min_successful=1)),
        )
        return [i.status.value for i in batch.all]

    started = time.time()
    out = handler(backend.invocation_input(), None)
    print(f"invocation output after {time.time() - started:.1f}s:", out)
    time.sleep(3)  # give the timer thread the time to come back from its refresh checkpoint
    threading.excepthook = previous_hook

    assert out["Status"] == "SUCCEEDED", out
    assert not uncaught, (
        "bd97b72 regression: the resume timer resubmitted a branch after execute() had shut the "
        "thread pool down - uncaught in thread "
        f"{uncaught[0].thread.name!r}: {uncaught[0].exc_type.__name__}: {uncaught[0].exc_value}"
    )
    return 0


if __name__ == "__main__":
    sys.exit(main())
