"""finding_1: the replay boundary is compared with the LIVE operation map, so new work of a sibling branch keeps the logger muted.

Commits: e7e3a56 (begin_replay_tracking: "evaluate the replay boundary once the history is loaded"), 7137dfe and
020f484 (both rewrote the body of ExecutionState.track_replay). state.py:ExecutionState.track_replay

C17: in a resumed invocation the context logger "emits every log call made once execution has passed the last
[operation that had completed before this invocation began], including calls inside newly executed steps".

track_replay() recomputes `completed_ops` on every call from self.operations - the map into which the checkpoint
thread merges what THIS invocation completes.  As soon as two branches of a map/parallel do new work after the
resume, a step that branch 0 has just completed (merged by the checkpoint thread before branch 0 reaches the
`finally` that marks it visited) is "completed but not visited" when branch 1 leaves its last replayed operation:
the REPLAY -> NEW transition is missed, and branch 1's new log calls - and those inside its newly executed step -
are swallowed.  (With several busy branches the condition chains: every track_replay() finds the newly completed
operation of somebody else; fuzz.py sees this in most runs of a plain 4-item map without any forcing.)

The script runs: invocation 1 = both branches run a step and start a wait; both waits fire; invocation 2 = both
branches continue with new work.  The interleaving is forced only by delaying branch 0 between the return of its
SUCCEED checkpoint and its `finally: track_replay(...)` (a pre-emption point like any other).

Run:  PYTHONPATH=/tmp/wt/g1_history/src:/tmp/wt/g1_history python finding_1.py
"""

from __future__ import annotations

import sys
import threading

import aws_durable_execution_sdk_python.state as state_mod
from aws_durable_execution_sdk_python.config import Duration
from aws_durable_execution_sdk_python.execution import durable_execution
from aws_durable_execution_sdk_python.state import ExecutionState
from harness import FakeBackend, ListLogger, run_invocation

# one checkpoint call per update (keeps the run short; batching is irrelevant here)
_orig_cfg = state_mod.CheckpointBatcherConfig
state_mod.CheckpointBatcherConfig = lambda *a, **k: _orig_cfg(*a, **{"max_batch_time_seconds": 0.0, **k})

backend = FakeBackend(input_payload="{}")
log = ListLogger()
second_invocation = threading.Event()
x0_recorded = threading.Event()  # branch 0's new step X0 is SUCCEEDED in the backend and merged into the state
b1_done = threading.Event()  # branch 1 has made its new log calls


def branch0(c):
    c.step(lambda sc: "a0", name="A0")
    c.wait(Duration.from_seconds(5), name="W0")
    return c.step(lambda sc: "x0", name="X0")  # new work of invocation 2


def branch1(c):
    c.logger.info("b1-replayed-code")  # ran in invocation 1: must be muted in invocation 2
    c.step(lambda sc: "a1", name="A1")
    if second_invocation.is_set():
        x0_recorded.wait(10)  # branch 1 is simply a little slower than branch 0
    c.wait(Duration.from_seconds(5), name="W1")  # the last operation that completed before invocation 2
    c.logger.info("b1-new-code")  # first executed in invocation 2: must be emitted

    def x1(sc):
        sc.logger.info("inside-new-step-X1")  # must be emitted
        return "x1"

    r = c.step(x1, name="X1")
    b1_done.set()
    return r


@durable_execution
def handler(event, ctx):
    ctx.set_logger(log)
    res = ctx.parallel([branch0, branch1], name="par")
    return res.get_results()


# delay branch 0 between "SUCCEED of X0 acknowledged" and "X0 marked visited"
_orig_track = ExecutionState.track_replay


def delayed_track_replay(self, operation_id):
    op = self.operations.get(operation_id)
    if op is not None and op.name == "X0":
        x0_recorded.set()
        b1_done.wait(10)
    return _orig_track(self, operation_id)


ExecutionState.track_replay = delayed_track_replay

out1 = run_invocation(handler, backend)
assert out1.get("out", {}).get("Status") == "PENDING", out1
first = log.messages()
assert "b1-replayed-code" in first, first  # first invocation: everything is emitted

backend.advance()  # both waits fire
second_invocation.set()
n = len(log.records)
out2 = run_invocation(handler, backend)
assert out2.get("out", {}).get("Status") == "SUCCEEDED", out2
assert not backend.violations, backend.violations
emitted = [m for m, _ in log.records[n:]]
print("invocation 2 emitted:", emitted)

assert "b1-replayed-code" not in emitted, "replayed code was logged again"
missing = [m for m in ("b1-new-code", "inside-new-step-X1") if m not in emitted]
if missing:
    print(
        "FAIL (C17): every operation that had completed before invocation 2 (A0, W0, A1, W1) had been passed, "
        f"but these log calls of newly executed code were swallowed: {missing}"
    )
    sys.exit(1)
print("ok")
