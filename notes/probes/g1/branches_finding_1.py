"""finding_1 - d0f7d25 is an incomplete repair (C13).

d0f7d25 made WaitForConditionOperationExecutor.execute() restore a recorded state whose serialised
form is '' (presence test instead of truthiness test).  But the state never reaches the backend in
the first place: the production service client (LambdaClient.checkpoint) puts every update on the
wire with OperationUpdate.to_dict(), and to_dict() still tests the payload for truthiness

        if self.payload:
            result["Payload"] = self.payload

so the RETRY (and SUCCEED) update of a poll that returned '' is sent WITHOUT a Payload.  The backend
records "no state", and the next poll - in the next invocation - is handed the configured initial
state again instead of the state the previous poll returned.

This script drives the real `durable_execution` wrapper with the real LambdaClient on top of an
in-memory boto-like backend that only sees what is on the wire (the Updates dicts) and plays the
recorded operations back as history.

Run:  PYTHONPATH=/tmp/wt/g1_branches/src /venv/bin/python /tmp/wt/g1_branches/finding_1.py
"""

from __future__ import annotations

import datetime
import logging
import sys
import threading

from aws_durable_execution_sdk_python.config import Duration
from aws_durable_execution_sdk_python.context import DurableContext
from aws_durable_execution_sdk_python.execution import durable_execution
from aws_durable_execution_sdk_python.serdes import PassThroughSerDes
from aws_durable_execution_sdk_python.waits import (
    WaitForConditionConfig,
    WaitForConditionDecision,
)

logging.disable(logging.CRITICAL)

UTC = datetime.UTC


class WireBackend:
    """Looks like the boto3 lambda client; only sees the wire form (dicts) of the updates."""

    def __init__(self) -> None:
        self.lock = threading.Lock()
        self.ops: dict[str, dict] = {
            "exec": {
                "Id": "exec",
                "Type": "EXECUTION",
                "Status": "STARTED",
                "ExecutionDetails": {"InputPayload": "{}"},
            }
        }
        self.wire_updates: list[dict] = []
        self.token = 0

    # -- boto3 API -----------------------------------------------------------------------------
    def checkpoint_durable_execution(
        self, DurableExecutionArn, CheckpointToken, Updates, **_kw
    ):  # noqa: N803
        with self.lock:
            changed = []
            for upd in Updates:
                self.wire_updates.append(upd)
                changed.append(self._apply(upd))
            self.token += 1
            return {
                "CheckpointToken": f"tok-{self.token}",
                "NewExecutionState": {"Operations": [dict(o) for o in changed]},
            }

    def get_durable_execution_state(self, **_kw):
        return {"Operations": [], "NextMarker": None}

    # -- backend behaviour ---------------------------------------------------------------------
    def _apply(self, upd: dict) -> dict:
        op = self.ops.get(upd["Id"])
        if op is None:
            op = {"Id": upd["Id"], "Type": upd["Type"], "Status": "STARTED"}
            for k in ("ParentId", "Name", "SubType"):
                if k in upd:
                    op[k] = upd[k]
            self.ops[upd["Id"]] = op
        action = upd["Action"]
        if upd["Type"] == "STEP":
            details = op.setdefault("StepDetails", {"Attempt": 0})
            if action == "START":
                op["Status"] = "STARTED"
            elif action == "RETRY":
                op["Status"] = "PENDING"
                details["Attempt"] = details.get("Attempt", 0) + 1
                delay = upd.get("StepOptions", {}).get("NextAttemptDelaySeconds", 1)
                details["NextAttemptTimestamp"] = datetime.datetime.now(
                    tz=UTC
                ) + datetime.timedelta(seconds=delay)
                # the backend can only record what is on the wire
                if "Payload" in upd:
                    details["Result"] = upd["Payload"]
                else:
                    details.pop("Result", None)
            elif action == "SUCCEED":
                op["Status"] = "SUCCEEDED"
                details["Attempt"] = details.get("Attempt", 0) + 1
                if "Payload" in upd:
                    details["Result"] = upd["Payload"]
                else:
                    details.pop("Result", None)
            elif action == "FAIL":
                op["Status"] = "FAILED"
                details["Error"] = upd.get("Error", {})
        return op

    def fire_timers(self) -> None:
        """What the service does when the retry timer of a PENDING step fires."""
        with self.lock:
            for op in self.ops.values():
                if op["Type"] == "STEP" and op["Status"] == "PENDING":
                    op["Status"] = "READY"

    def event(self) -> dict:
        """The invocation event (JSON form: timestamps in milliseconds)."""
        with self.lock:
            ops = []
            for op in self.ops.values():
                o = {k: (dict(v) if isinstance(v, dict) else v) for k, v in op.items()}
                ts = o.get("StepDetails", {}).get("NextAttemptTimestamp")
                if ts is not None:
                    o["StepDetails"]["NextAttemptTimestamp"] = int(ts.timestamp() * 1000)
                ops.append(o)
            return {
                "DurableExecutionArn": "arn:test",
                "CheckpointToken": f"tok-{self.token}",
                "InitialExecutionState": {"Operations": ops, "NextMarker": ""},
            }


def main() -> int:
    backend = WireBackend()
    polls: list[object] = []  # the state handed to the check function, poll by poll

    def check(state, _ctx):
        polls.append(state)
        # poll 1 returns '', poll 2 returns 'b', poll 3 returns 'done'
        return {1: "", 2: "b"}.get(len(polls), "done")

    def strategy(state, attempt):
        if state == "done":
            return WaitForConditionDecision.stop_polling()
        return WaitForConditionDecision.continue_waiting(Duration.from_seconds(1))

    @durable_execution(boto3_client=backend)
    def handler(_event, context: DurableContext):
        return context.wait_for_condition(
            check,
            WaitForConditionConfig(
                wait_strategy=strategy, initial_state="INITIAL", serdes=PassThroughSerDes()
            ),
            name="cond",
        )

    out = None
    for _ in range(6):
        out = handler(backend.event(), None)
        if out["Status"] != "PENDING":
            break
        backend.fire_timers()

    retry_updates = [u for u in backend.wire_updates if u["Action"] == "RETRY"]
    print("states handed to the check function:", polls)
    print("first RETRY update on the wire    :", retry_updates[0])
    print("final output                      :", out)

    assert out is not None and out["Status"] == "SUCCEEDED", out
    assert polls[0] == "INITIAL", polls
    # C13: every later poll receives exactly the state its previous poll returned
    assert polls[1] == "", (
        "C13 violated: poll 1 returned the state '' but poll 2 was handed "
        f"{polls[1]!r} (the configured initial state): the RETRY update went over the wire "
        f"without a Payload ({retry_updates[0]!r}) because OperationUpdate.to_dict() drops an "
        "empty-string payload, so the presence test added by d0f7d25 never sees a recorded ''"
    )
    return 0


if __name__ == "__main__":
    sys.exit(main())
