"""finding_3: leaving a context marks what is recorded beneath it as visited although a left-behind branch is still replaying it.

Commit: 7137dfe ("Visiting an operation now also marks everything recorded beneath it as visited").
Code: state.py:ExecutionState.track_replay / _recorded_descendants

C17: in a resumed invocation the context logger "emits nothing for log calls in code an earlier invocation already
ran, i.e. calls that precede in program order an operation that had completed before this invocation began".

A map/parallel that completes early (min_successful) is left by the parent while its other branches keep running
in their pool threads.  track_replay(<map id>) now marks every operation recorded beneath the map as visited - also
the completed steps of the left-behind branch that this branch has not reached yet in ITS replay.  If they were the
last unvisited ones the state flips to NEW, and the left-behind branch - which sends no checkpoint while it only
replays, so the orphan check does not stop it - emits the log calls that precede its completed step a second time.
Before 7137dfe these calls were muted (the step was only marked when the branch itself had passed it).

invocation 1: branch 0 starts a wait; branch 1 logs, completes step M1, starts a long wait  -> PENDING
              (branch 0's wait fires)
invocation 2: branch 0 finishes -> min_successful=1 -> the map completes; branch 1 (slower: it is held back until
              the parent has left the map) replays: its log call before M1 must be muted.

Run:  PYTHONPATH=/tmp/wt/g1_history/src:/tmp/wt/g1_history python finding_3.py
"""

from __future__ import annotations

import sys
import threading

import aws_durable_execution_sdk_python.state as state_mod
from aws_durable_execution_sdk_python.config import CompletionConfig, Duration, ParallelConfig
from aws_durable_execution_sdk_python.execution import durable_execution
from harness import FakeBackend, ListLogger, run_invocation

_orig_cfg = state_mod.CheckpointBatcherConfig
state_mod.CheckpointBatcherConfig = lambda *a, **k: _orig_cfg(*a, **{"max_batch_time_seconds": 0.0, **k})

backend = FakeBackend(input_payload="{}")
log = ListLogger()
second_invocation = threading.Event()
parent_left_the_parallel = threading.Event()
branch1_replayed = threading.Event()
branch1_started = threading.Event()


def branch0(c):
    branch1_started.wait(10)  # (otherwise branch 1 may be cancelled before its pool thread picks it up)
    c.wait(Duration.from_seconds(5), name="W0")
    return "b0"


def branch1(c):
    branch1_started.set()
    if second_invocation.is_set():
        parent_left_the_parallel.wait(10)  # this branch is simply slower than its sibling
    c.logger.info("b1-before-M1")  # ran in invocation 1, precedes M1 (completed in invocation 1)
    c.step(lambda sc: "m1", name="M1")
    branch1_replayed.set()
    c.wait(Duration.from_seconds(500), name="W1")
    return "b1"


@durable_execution
def handler(event, ctx):
    ctx.set_logger(log)
    res = ctx.parallel([branch0, branch1], name="par",
                       config=ParallelConfig(completion_config=CompletionConfig(min_successful=1)))
    ctx.logger.info("main-after-parallel")
    parent_left_the_parallel.set()
    if second_invocation.is_set():
        branch1_replayed.wait(10)  # keep the invocation alive until the left-behind branch has replayed
    ctx.wait(Duration.from_seconds(5), name="Wmain")
    return sorted(res.get_results())


out1 = run_invocation(handler, backend)
assert out1.get("out", {}).get("Status") == "PENDING", out1
assert log.messages() == ["b1-before-M1"], log.messages()

backend.complete_wait("W0")
parent_left_the_parallel.clear()
branch1_replayed.clear()
branch1_started.clear()
second_invocation.set()
n = len(log.records)
out2 = run_invocation(handler, backend)
assert out2.get("out", {}).get("Status") == "PENDING", out2
assert not backend.violations, backend.violations
emitted = [m for m, _ in log.records[n:]]
print("invocation 2 emitted:", emitted)
assert "main-after-parallel" in emitted, "new code after the parallel must be logged"
if "b1-before-M1" in emitted:
    print(
        "FAIL (C17): 'b1-before-M1' precedes step M1, which had completed before invocation 2 began, "
        "but it was emitted again: leaving the parallel marked M1 as visited before branch 1 had replayed it"
    )
    sys.exit(1)
print("ok")
