"""finding 1 - incomplete repair of eb35b39 "record a user exception whose __str__ fails".

eb35b39 protected str(exception) in ErrorObject.from_exception only. A *step* that raises such an
exception never gets as far as recording it when one of the packaged retry strategies is in use
(retries.py:create_retry_strategy.retry_strategy - this is also the default a step gets when no
StepConfig is given): the strategy evaluates `pattern.search(str(error))` unprotected, the TypeError
escapes StepOperationExecutor.retry_handler, and neither a RETRY nor a FAIL record is written.

Consequences shown below (real wrapper, in-memory backend that plays its records back as history):
  1. default retry strategy: the invocation ends FAILED with a TypeError and the step is left with a
     bare START record (the strategy would have answered "retry", so C12/C18 want a RETRY record and
     PENDING);
  2. a handler that survives the error (try/except around the step) leaves the step STARTED, so
     every later invocation runs the step function again without any retry record: the function
     runs more often than 1 + recorded retries and is not bounded by max_attempts (C12).
A strategy that does not call str() works - which pins the fault on retries.py, not on
ErrorObject.from_exception.

Run: PYTHONPATH=/tmp/wt/g1_codecs/src /venv/bin/python /tmp/wt/g1_codecs/finding_1.py
"""

from __future__ import annotations

import datetime
import logging
import sys
import threading
from unittest.mock import Mock

from aws_durable_execution_sdk_python.config import Duration, StepConfig
from aws_durable_execution_sdk_python.execution import (
    DurableExecutionInvocationInputWithClient,
    InitialExecutionState,
    durable_execution,
)
from aws_durable_execution_sdk_python.lambda_service import (
    CheckpointOutput,
    CheckpointUpdatedExecutionState,
    ExecutionDetails,
    Operation,
    OperationAction,
    OperationStatus,
    OperationType,
    StateOutput,
    StepDetails,
    WaitDetails,
)
from aws_durable_execution_sdk_python.retries import (
    RetryDecision,
    RetryStrategyConfig,
    create_retry_strategy,
)

logging.disable(logging.CRITICAL)


class FakeBackend:
    """Records updates, turns them into operations and hands them out as history."""

    def __init__(self):
        self.ops = {
            "exec": Operation(
                operation_id="exec",
                operation_type=OperationType.EXECUTION,
                status=OperationStatus.STARTED,
                execution_details=ExecutionDetails(input_payload="{}"),
            )
        }
        self.updates = []

    def checkpoint(self, durable_execution_arn, checkpoint_token, updates, client_token=None):
        changed = []
        now = datetime.datetime.now(datetime.UTC)
        for u in updates:
            self.updates.append(u)
            old = self.ops.get(u.operation_id)
            common = dict(
                operation_id=u.operation_id,
                operation_type=u.operation_type,
                parent_id=u.parent_id,
                name=u.name,
                sub_type=u.sub_type,
            )
            if u.operation_type is OperationType.STEP:
                attempt = old.step_details.attempt if old and old.step_details else 0
                if u.action is OperationAction.START:
                    op = Operation(status=OperationStatus.STARTED, step_details=StepDetails(attempt=attempt), **common)
                elif u.action is OperationAction.SUCCEED:
                    op = Operation(status=OperationStatus.SUCCEEDED, step_details=StepDetails(attempt=attempt + 1, result=u.payload), **common)
                elif u.action is OperationAction.FAIL:
                    op = Operation(status=OperationStatus.FAILED, step_details=StepDetails(attempt=attempt + 1, error=u.error), **common)
                else:  # RETRY
                    op = Operation(
                        status=OperationStatus.PENDING,
                        step_details=StepDetails(
                            attempt=attempt + 1,
                            error=u.error,
                            next_attempt_timestamp=now + datetime.timedelta(seconds=u.step_options.next_attempt_delay_seconds),
                        ),
                        **common,
                    )
            elif u.operation_type is OperationType.WAIT:
                op = Operation(
                    status=OperationStatus.STARTED,
                    wait_details=WaitDetails(scheduled_end_timestamp=now + datetime.timedelta(seconds=u.wait_options.wait_seconds)),
                    **common,
                )
            else:
                continue
            self.ops[u.operation_id] = op
            changed.append(op)
        return CheckpointOutput(
            checkpoint_token="t",  # noqa: S106
            new_execution_state=CheckpointUpdatedExecutionState(operations=changed),
        )

    def get_execution_state(self, durable_execution_arn, checkpoint_token, next_marker, max_items=1000):
        return StateOutput(operations=[], next_marker=None)

    def step_records(self):
        return [u.action.value for u in self.updates if u.operation_type is OperationType.STEP]


def invoke(handler, backend, timeout=60):
    ctx = Mock()
    ctx.aws_request_id = "req"
    ctx.client_context = None
    ctx.identity = None
    ctx._epoch_deadline_time_in_ms = 10**13  # noqa: SLF001
    ctx.invoked_function_arn = None
    ctx.tenant_id = None
    event = DurableExecutionInvocationInputWithClient(
        durable_execution_arn="arn:test",
        checkpoint_token="tok",  # noqa: S106
        initial_execution_state=InitialExecutionState(operations=list(backend.ops.values()), next_marker=""),
        service_client=backend,
    )
    box = {}

    def run():
        try:
            box["r"] = handler(event, ctx)
        except BaseException as e:  # noqa: BLE001
            box["r"] = e

    t = threading.Thread(target=run, daemon=True)
    t.start()
    t.join(timeout)
    assert not t.is_alive(), "invocation hangs"
    return box["r"]


class BadStr(Exception):
    """A user exception class whose __str__ is broken (the trigger eb35b39 describes)."""

    def __str__(self):
        return None


problems = []

# --- control: a strategy that does not look at str(error) records the failure (eb35b39 works here)
runs = []


def failing_step(step_context):
    runs.append(1)
    raise BadStr


@durable_execution
def handler_custom(event, context):
    return context.step(failing_step, name="s", config=StepConfig(retry_strategy=lambda e, n: RetryDecision.no_retry()))


backend = FakeBackend()
out = invoke(handler_custom, backend)
print("control (strategy without str()):", out, backend.step_records())
assert backend.step_records() == ["START", "FAIL"], "control failed: eb35b39 itself does not work"

# --- 1. the default strategy (and every create_retry_strategy() strategy)
for label, config in (
    ("default StepConfig", None),
    ("create_retry_strategy(max_attempts=3)", StepConfig(retry_strategy=create_retry_strategy(RetryStrategyConfig(max_attempts=3)))),
):
    runs.clear()

    @durable_execution
    def handler_default(event, context, config=config):
        return context.step(failing_step, name="s", config=config)

    backend = FakeBackend()
    out = invoke(handler_default, backend)
    print(f"1. {label}: outcome={out!r} step records={backend.step_records()}")
    if not (isinstance(out, dict) and out.get("Status") == "PENDING" and backend.step_records() == ["START", "RETRY"]):
        problems.append(
            f"[{label}] the failure of a step raising an exception with a broken __str__ is not recorded: "
            f"step records {backend.step_records()} (want START, RETRY), outcome {out!r} (want PENDING)"
        )

# --- 2. a handler that survives the error: the step function runs again and again, no retry record
runs.clear()


@durable_execution
def handler_survives(event, context):
    try:
        context.step(failing_step, name="s", config=StepConfig(retry_strategy=create_retry_strategy(RetryStrategyConfig(max_attempts=2))))
    except Exception:  # noqa: BLE001, S110
        pass
    context.wait(Duration.from_seconds(3600), name="w")
    return "done"


backend = FakeBackend()
for i in range(4):
    out = invoke(handler_survives, backend)
    print(f"2. invocation {i + 1}: outcome={out!r} step runs so far={len(runs)} step records={backend.step_records()}")
retries = backend.step_records().count("RETRY")
if len(runs) > 1 + retries or len(runs) > 2:
    problems.append(
        f"the step function ran {len(runs)} times with {retries} recorded retries and max_attempts=2 "
        f"(C12: at most 1 + recorded retries, at most max_attempts runs); step records {backend.step_records()}"
    )

if problems:
    print("\nFINDING 1 reproduced:")
    for p in problems:
        print(" -", p)
    sys.exit(1)
print("finding 1 not reproduced")
