"""finding 2 - incomplete repair of a811a5d "decode nested tuples without a generator frame per level".

a811a5d made ContainerCodec.decode use as many interpreter frames per nesting level as
ContainerCodec.encode (3), and states "the decoder must reach every depth the encoder accepts".
That still does not hold at the leaf: BytesCodec.decode -> base64.b64decode -> base64._bytes_from_decode_data
is one frame deeper than BytesCodec.encode -> base64.b64encode. A nested tuple (or list / dict) with a
bytes value at the bottom whose encoding just fits into the stack is therefore still serialized and
checkpointed by a step - and every replay of that step fails with 'Deserialization failed'
(RecursionError), i.e. exactly the symptom of the commit message (C15: a value that cannot be
reproduced must be rejected when it is serialized).

The step is driven through the real durable_execution wrapper with an in-memory backend that plays its
records back; the depth at which it happens depends on the caller's stack depth modulo 3, so the script
scans depths 300..340 with 0..2 extra caller frames and fails on the first (depth, extra) for which
invocation 1 SUCCEEDED (result checkpointed) and the replaying invocation 2 did not.

Run: PYTHONPATH=/tmp/wt/g1_codecs/src /venv/bin/python /tmp/wt/g1_codecs/finding_2.py
"""

from __future__ import annotations

import logging
import sys
import threading
from unittest.mock import Mock

from aws_durable_execution_sdk_python.execution import (
    DurableExecutionInvocationInputWithClient,
    InitialExecutionState,
    durable_execution,
)
from aws_durable_execution_sdk_python.lambda_service import (
    CheckpointOutput,
    CheckpointUpdatedExecutionState,
    ExecutionDetails,
    Operation,
    OperationAction,
    OperationStatus,
    OperationType,
    StateOutput,
    StepDetails,
)

logging.disable(logging.CRITICAL)


class FakeBackend:
    def __init__(self):
        self.ops = {
            "exec": Operation(
                operation_id="exec",
                operation_type=OperationType.EXECUTION,
                status=OperationStatus.STARTED,
                execution_details=ExecutionDetails(input_payload="{}"),
            )
        }
        self.updates = []

    def checkpoint(self, durable_execution_arn, checkpoint_token, updates, client_token=None):
        changed = []
        for u in updates:
            self.updates.append(u)
            if u.operation_type is not OperationType.STEP:
                continue
            common = dict(operation_id=u.operation_id, operation_type=u.operation_type, parent_id=u.parent_id, name=u.name, sub_type=u.sub_type)
            if u.action is OperationAction.START:
                op = Operation(status=OperationStatus.STARTED, step_details=StepDetails(attempt=0), **common)
            elif u.action is OperationAction.SUCCEED:
                op = Operation(status=OperationStatus.SUCCEEDED, step_details=StepDetails(attempt=1, result=u.payload), **common)
            else:
                op = Operation(status=OperationStatus.FAILED, step_details=StepDetails(attempt=1, error=u.error), **common)
            self.ops[u.operation_id] = op
            changed.append(op)
        return CheckpointOutput(
            checkpoint_token="t",  # noqa: S106
            new_execution_state=CheckpointUpdatedExecutionState(operations=changed),
        )

    def get_execution_state(self, durable_execution_arn, checkpoint_token, next_marker, max_items=1000):
        return StateOutput(operations=[], next_marker=None)


def invoke(handler, backend, timeout=60):
    ctx = Mock()
    ctx.aws_request_id = "req"
    ctx.client_context = None
    ctx.identity = None
    ctx._epoch_deadline_time_in_ms = 10**13  # noqa: SLF001
    ctx.invoked_function_arn = None
    ctx.tenant_id = None
    event = DurableExecutionInvocationInputWithClient(
        durable_execution_arn="arn:test",
        checkpoint_token="tok",  # noqa: S106
        initial_execution_state=InitialExecutionState(operations=list(backend.ops.values()), next_marker=""),
        service_client=backend,
    )
    box = {}

    def run():
        try:
            box["r"] = handler(event, ctx)
        except BaseException as e:  # noqa: BLE001
            box["r"] = e

    t = threading.Thread(target=run, daemon=True)
    t.start()
    t.join(timeout)
    assert not t.is_alive(), "invocation hangs"
    return box["r"]


def nested(kind, depth, leaf):
    value = leaf
    for _ in range(depth):
        value = (value,) if kind == "tuple" else [value] if kind == "list" else {"k": value}
    return value


def call_deeper(extra, fn):
    return fn() if extra == 0 else call_deeper(extra - 1, fn)


def scenario(kind, depth, extra, leaf):
    """Returns None if consistent, else a description of the inconsistency."""
    step_runs = []

    def step_fn(step_context):
        step_runs.append(1)
        return nested(kind, depth, leaf)

    @durable_execution
    def handler(event, context):
        value = call_deeper(extra, lambda: context.step(step_fn, name="s"))
        assert value == nested(kind, depth, leaf)
        return "ok"

    backend = FakeBackend()
    first = invoke(handler, backend)
    if not (isinstance(first, dict) and first.get("Status") == "SUCCEEDED"):
        return None  # the value was rejected when it was produced: fine
    recorded = [u for u in backend.updates if u.action is OperationAction.SUCCEED]
    assert len(recorded) == 1
    second = invoke(handler, backend)
    if isinstance(second, dict) and second.get("Status") == "SUCCEEDED" and len(step_runs) == 1:
        return None
    return (
        f"{kind} nested {depth} deep over a bytes value ({extra} extra caller frames): invocation 1 -> {first}, "
        f"result checkpointed ({len(recorded[0].payload)} chars); replaying invocation 2 -> {second!r}"
    )


problems = []
for kind in ("tuple", "list", "dict"):
    for extra in range(3):
        for depth in range(300, 341):
            problem = scenario(kind, depth, extra, b"x")
            if problem:
                problems.append(problem)
                break

# control: the same scan with an int at the bottom is consistent (that is what a811a5d repaired)
for extra in range(3):
    for depth in range(300, 341):
        assert scenario("tuple", depth, extra, 1) is None, "control failed: plain nested tuples are inconsistent too"

if problems:
    print("FINDING 2 reproduced - accepted and checkpointed, but not replayable:")
    for p in problems:
        print(" -", p)
    sys.exit(1)
print("finding 2 not reproduced")
