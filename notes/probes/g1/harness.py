"""In-memory fake backend + driver for the durable_execution wrapper (scratch harness, not part of the SDK)."""

from __future__ import annotations

import dataclasses
import datetime
import threading
from typing import Any

from aws_durable_execution_sdk_python.execution import (
    DurableExecutionInvocationInputWithClient,
    InitialExecutionState,
)
from aws_durable_execution_sdk_python.lambda_service import (
    CallbackDetails,
    ChainedInvokeDetails,
    CheckpointOutput,
    CheckpointUpdatedExecutionState,
    ContextDetails,
    ErrorObject,
    ExecutionDetails,
    Operation,
    OperationAction,
    OperationStatus,
    OperationType,
    OperationUpdate,
    StateOutput,
    StepDetails,
    WaitDetails,
)

TERMINAL = {
    OperationStatus.SUCCEEDED,
    OperationStatus.FAILED,
    OperationStatus.CANCELLED,
    OperationStatus.STOPPED,
    OperationStatus.TIMED_OUT,
}
ARN = "arn:aws:lambda:us-east-1:123456789012:function:f:1/durable-execution/e/1"


def now():
    return datetime.datetime.now(tz=datetime.UTC)


class FakeBackend:
    """Records checkpoints, validates the update stream (C11) and plays it back as history."""

    def __init__(self, input_payload: str | None = "{}", page_size: int | None = None,
                 empty_first_page: bool = False):
        self.lock = threading.RLock()
        self.ops: dict[str, Operation] = {}
        self.ops["exec-0"] = Operation(
            operation_id="exec-0",
            operation_type=OperationType.EXECUTION,
            status=OperationStatus.STARTED,
            execution_details=ExecutionDetails(input_payload=input_payload),
        )
        self.page_size = page_size
        self.empty_first_page = empty_first_page
        self.token_no = 0
        self.updates: list[tuple[int, OperationUpdate]] = []  # (invocation number, update)
        self.calls: list[list[OperationUpdate]] = []
        self.violations: list[str] = []
        self.invocation_no = 0
        self.dirty: set[str] = set()  # changed by the outside world since the last checkpoint response
        self.fail_checkpoint_at: int | None = None  # index of the checkpoint call that raises
        self.checkpoint_error: Exception | None = None
        self.checkpoint_hook = None  # callable(updates) run inside checkpoint()
        self.execution_record_seen = False
        self.state_calls = 0

    # ---- service client protocol -------------------------------------------------------
    def checkpoint(self, durable_execution_arn, checkpoint_token, updates, client_token=None):
        with self.lock:
            call_index = len(self.calls)
            self.calls.append(list(updates))
            if self.fail_checkpoint_at is not None and call_index >= self.fail_checkpoint_at:
                raise self.checkpoint_error or RuntimeError("checkpoint failed (injected)")
            if self.checkpoint_hook:
                self.checkpoint_hook(updates)
            changed: list[str] = []
            for u in updates:
                self.updates.append((self.invocation_no, u))
                self._apply(u)
                changed.append(u.operation_id)
            changed.extend(self.dirty)
            self.dirty.clear()
            self.token_no += 1
            seen = set()
            ops = []
            for i in changed:
                if i in self.ops and i not in seen:
                    seen.add(i)
                    ops.append(self.ops[i])
            return CheckpointOutput(
                checkpoint_token=f"tok-{self.token_no}",
                new_execution_state=CheckpointUpdatedExecutionState(operations=ops, next_marker=None),
            )

    def get_execution_state(self, durable_execution_arn, checkpoint_token, next_marker, max_items=1000):
        with self.lock:
            self.state_calls += 1
            start = int(next_marker)
            all_ops = self._snapshot
            size = self.page_size or len(all_ops) or 1
            page = all_ops[start:start + size]
            nxt = start + size
            return StateOutput(operations=page, next_marker=str(nxt) if nxt < len(all_ops) else None)

    # ---- model ---------------------------------------------------------------------------
    def _violate(self, msg: str):
        self.violations.append(f"inv{self.invocation_no}: {msg}")

    def _apply(self, u: OperationUpdate):
        cur = self.ops.get(u.operation_id)
        label = f"{u.operation_type.value} {u.action.value} {u.name or u.operation_id[:8]}"
        if self.execution_record_seen:
            self._violate(f"{label}: update after the execution-level result record")
        if u.operation_type is OperationType.EXECUTION:
            if self.execution_record_seen:
                self._violate("second execution-level result record")
            self.execution_record_seen = True
            ex = self.ops["exec-0"]
            self.ops["exec-0"] = dataclasses.replace(
                ex,
                status=OperationStatus.SUCCEEDED if u.action is OperationAction.SUCCEED else OperationStatus.FAILED,
            )
            return
        if cur is not None and cur.status in TERMINAL:
            self._violate(f"{label}: update for an operation the backend holds as {cur.status.value}")
            return
        if u.parent_id:
            parent = self.ops.get(u.parent_id)
            if parent is None:
                self._violate(f"{label}: first update precedes the start of its parent context")
            elif parent.status in TERMINAL and cur is None:
                self._violate(f"{label}: new operation beneath a parent that is {parent.status.value}")
        t = u.operation_type
        a = u.action
        base = dict(operation_id=u.operation_id, operation_type=t, parent_id=u.parent_id, name=u.name,
                    sub_type=u.sub_type)
        if a is OperationAction.START:
            if cur is not None and not (t is OperationType.STEP and cur.status is OperationStatus.READY):
                self._violate(f"{label}: second START (status {cur.status.value})")
            if t is OperationType.STEP:
                attempt = cur.step_details.attempt if cur and cur.step_details else 0
                result = cur.step_details.result if cur and cur.step_details else None
                self.ops[u.operation_id] = Operation(**base, status=OperationStatus.STARTED,
                                                     step_details=StepDetails(attempt=attempt, result=result))
            elif t is OperationType.WAIT:
                secs = u.wait_options.wait_seconds if u.wait_options else 1
                self.ops[u.operation_id] = Operation(
                    **base, status=OperationStatus.STARTED,
                    wait_details=WaitDetails(scheduled_end_timestamp=now() + datetime.timedelta(seconds=secs)))
            elif t is OperationType.CALLBACK:
                self.ops[u.operation_id] = Operation(
                    **base, status=OperationStatus.STARTED,
                    callback_details=CallbackDetails(callback_id="cb-" + u.operation_id[:8]))
            elif t is OperationType.CHAINED_INVOKE:
                self.ops[u.operation_id] = Operation(**base, status=OperationStatus.STARTED,
                                                     chained_invoke_details=ChainedInvokeDetails())
            elif t is OperationType.CONTEXT:
                self.ops[u.operation_id] = Operation(**base, status=OperationStatus.STARTED)
            return
        # not a START
        if cur is None:
            if t is OperationType.CONTEXT:
                # (the SDK sends context START fire-and-forget but always before)
                self._violate(f"{label}: {a.value} without START")
            else:
                self._violate(f"{label}: {a.value} without START")
            cur = Operation(**base, status=OperationStatus.STARTED)
        if t is OperationType.STEP and cur.status is not OperationStatus.STARTED:
            self._violate(f"{label}: {a.value} while status is {cur.status.value} (no START for this attempt)")
        if a is OperationAction.SUCCEED:
            if t is OperationType.STEP:
                self.ops[u.operation_id] = dataclasses.replace(
                    cur, status=OperationStatus.SUCCEEDED,
                    step_details=StepDetails(attempt=(cur.step_details.attempt if cur.step_details else 0) + 1,
                                             result=u.payload))
            elif t is OperationType.CONTEXT:
                self.ops[u.operation_id] = dataclasses.replace(
                    cur, status=OperationStatus.SUCCEEDED,
                    context_details=ContextDetails(
                        replay_children=bool(u.context_options and u.context_options.replay_children),
                        result=u.payload))
            else:
                self._violate(f"{label}: unexpected SUCCEED from the SDK")
        elif a is OperationAction.FAIL:
            if t is OperationType.STEP:
                self.ops[u.operation_id] = dataclasses.replace(
                    cur, status=OperationStatus.FAILED,
                    step_details=StepDetails(attempt=(cur.step_details.attempt if cur.step_details else 0) + 1,
                                             error=u.error))
            elif t is OperationType.CONTEXT:
                self.ops[u.operation_id] = dataclasses.replace(
                    cur, status=OperationStatus.FAILED, context_details=ContextDetails(error=u.error))
            else:
                self._violate(f"{label}: unexpected FAIL from the SDK")
        elif a is OperationAction.RETRY:
            delay = u.step_options.next_attempt_delay_seconds if u.step_options else 1
            self.ops[u.operation_id] = dataclasses.replace(
                cur, status=OperationStatus.PENDING,
                step_details=StepDetails(attempt=(cur.step_details.attempt if cur.step_details else 0) + 1,
                                         next_attempt_timestamp=now() + datetime.timedelta(seconds=delay),
                                         result=u.payload, error=u.error))

    # ---- the outside world -----------------------------------------------------------------
    def _touch(self, op: Operation):
        self.ops[op.operation_id] = op
        self.dirty.add(op.operation_id)

    def advance(self, waits=True, retries=True):
        """Time passes: waits fire, pending retries become READY."""
        with self.lock:
            for op in list(self.ops.values()):
                if waits and op.operation_type is OperationType.WAIT and op.status is OperationStatus.STARTED:
                    self._touch(dataclasses.replace(op, status=OperationStatus.SUCCEEDED))
                if retries and op.operation_type is OperationType.STEP and op.status is OperationStatus.PENDING:
                    self._touch(dataclasses.replace(op, status=OperationStatus.READY))

    def find(self, name: str) -> Operation:
        for op in self.ops.values():
            if op.name == name:
                return op
        raise KeyError(name)

    def complete_wait(self, name):
        with self.lock:
            op = self.find(name)
            self._touch(dataclasses.replace(op, status=OperationStatus.SUCCEEDED))

    def complete_callback(self, name=None, result="\"cbres\"", op_id=None, error: ErrorObject | None = None):
        with self.lock:
            op = self.ops[op_id] if op_id else self.find(name)
            self._touch(dataclasses.replace(
                op, status=OperationStatus.FAILED if error else OperationStatus.SUCCEEDED,
                callback_details=CallbackDetails(callback_id=op.callback_details.callback_id, result=result,
                                                 error=error)))

    def complete_invoke(self, name, result="\"invres\"", error: ErrorObject | None = None):
        with self.lock:
            op = self.find(name)
            self._touch(dataclasses.replace(
                op, status=OperationStatus.FAILED if error else OperationStatus.SUCCEEDED,
                chained_invoke_details=ChainedInvokeDetails(result=result, error=error)))

    def open_ops(self, t: OperationType):
        return [o for o in self.ops.values() if o.operation_type is t and o.status not in TERMINAL]

    # ---- driving ---------------------------------------------------------------------------
    def make_event(self) -> DurableExecutionInvocationInputWithClient:
        with self.lock:
            self.invocation_no += 1
            self.dirty.clear()
            self._snapshot = list(self.ops.values())
            all_ops = self._snapshot
            if self.empty_first_page:
                first, marker = [], "0"
            elif self.page_size and self.page_size < len(all_ops):
                first, marker = all_ops[: self.page_size], str(self.page_size)
            else:
                first, marker = all_ops, ""
            self.token_no += 1
            return DurableExecutionInvocationInputWithClient(
                durable_execution_arn=ARN,
                checkpoint_token=f"tok-{self.token_no}",
                initial_execution_state=InitialExecutionState(operations=first, next_marker=marker),
                service_client=self,
            )


class LambdaCtx:
    aws_request_id = "req-1"
    log_group_name = None
    log_stream_name = None
    function_name = "f"
    memory_limit_in_mb = "128"
    function_version = "1"
    invoked_function_arn = "arn"
    tenant_id = None
    client_context = None
    identity = None

    def get_remaining_time_in_millis(self):
        return 100000

    def log(self, msg):
        pass


class ListLogger:
    """LoggerInterface that collects what actually gets emitted."""

    def __init__(self):
        self.records: list[tuple[str, dict]] = []
        self._lock = threading.Lock()

    def _add(self, msg, *args, extra=None):
        with self._lock:
            self.records.append((str(msg) % args if args else str(msg), dict(extra or {})))

    debug = info = warning = error = exception = _add

    def messages(self):
        with self._lock:
            return [m for m, _ in self.records]


def run_invocation(wrapped, backend: FakeBackend, timeout: float = 20.0) -> dict[str, Any]:
    """One invocation in a worker thread; returns {'out':..} or {'raised':..} or {'hang': True}."""
    event = backend.make_event()
    box: dict[str, Any] = {}

    def target():
        try:
            box["out"] = wrapped(event, LambdaCtx())
        except BaseException as e:  # noqa: BLE001
            box["raised"] = e

    t = threading.Thread(target=target, daemon=True)
    t.start()
    t.join(timeout)
    if t.is_alive():
        box["hang"] = True
    return box


def run_to_completion(wrapped, backend: FakeBackend, between=None, max_invocations: int = 25,
                      timeout: float = 20.0) -> list[dict[str, Any]]:
    outs = []
    for _ in range(max_invocations):
        box = run_invocation(wrapped, backend, timeout)
        outs.append(box)
        if box.get("hang"):
            break
        if "out" in box and box["out"]["Status"] != "PENDING":
            break
        if between:
            between(backend, len(outs))
        else:
            backend.advance()
    return outs
