"""In-memory fake backend for driving durable_execution (scratch helper)."""

from __future__ import annotations

import dataclasses
import datetime
import threading
import time
from typing import Any

from aws_durable_execution_sdk_python.execution import (
    DurableExecutionInvocationInputWithClient,
    InitialExecutionState,
)
from aws_durable_execution_sdk_python.lambda_service import (
    CallbackDetails,
    ChainedInvokeDetails,
    CheckpointOutput,
    CheckpointUpdatedExecutionState,
    ContextDetails,
    ExecutionDetails,
    Operation,
    OperationAction,
    OperationStatus,
    OperationType,
    StateOutput,
    StepDetails,
    WaitDetails,
)

UTC = datetime.timezone.utc


class FakeBackend:
    def __init__(self, input_payload: str = "{}", page_size: int | None = None):
        self.lock = threading.RLock()
        self.ops: dict[str, Operation] = {}
        self.order: list[str] = []
        self.log: list[tuple[int, Any]] = []  # (call_no, update)
        self.calls = 0
        self.page_size = page_size
        self.fail_on_call = None  # callable(call_no, updates) -> Exception | None
        self.on_update = None  # callable(update) hook, called while applying
        self._put(
            Operation(
                operation_id="exec",
                operation_type=OperationType.EXECUTION,
                status=OperationStatus.STARTED,
                execution_details=ExecutionDetails(input_payload=input_payload),
            )
        )

    def _put(self, op: Operation):
        if op.operation_id not in self.ops:
            self.order.append(op.operation_id)
        self.ops[op.operation_id] = op

    # -- time driven transitions
    def fire_timers(self, now: datetime.datetime | None = None, force: bool = False):
        changed = []
        with self.lock:
            now = now or datetime.datetime.now(UTC)
            for oid in list(self.order):
                op = self.ops[oid]
                if (
                    op.operation_type is OperationType.WAIT
                    and op.status is OperationStatus.STARTED
                    and (force or op.wait_details.scheduled_end_timestamp <= now)
                ):
                    self._put(dataclasses.replace(op, status=OperationStatus.SUCCEEDED))
                    changed.append(oid)
                elif (
                    op.operation_type is OperationType.STEP
                    and op.status is OperationStatus.PENDING
                    and (force or op.step_details.next_attempt_timestamp <= now)
                ):
                    self._put(dataclasses.replace(op, status=OperationStatus.READY))
                    changed.append(oid)
        return changed

    def complete_callback(self, name_or_id: str, result: str = '"ok"'):
        with self.lock:
            for op in self.ops.values():
                if op.operation_type is OperationType.CALLBACK and (
                    op.name == name_or_id or op.operation_id == name_or_id
                ):
                    self._put(
                        dataclasses.replace(
                            op,
                            status=OperationStatus.SUCCEEDED,
                            callback_details=CallbackDetails(
                                callback_id=op.callback_details.callback_id,
                                result=result,
                            ),
                        )
                    )
                    return
        raise KeyError(name_or_id)

    # -- DurableServiceClient
    def checkpoint(self, durable_execution_arn, checkpoint_token, updates, client_token):
        with self.lock:
            self.calls += 1
            call_no = self.calls
            if self.fail_on_call is not None:
                exc = self.fail_on_call(call_no, updates)
                if exc is not None:
                    raise exc
            touched = []
            for u in updates:
                self.log.append((call_no, u))
                if self.on_update:
                    self.on_update(u)
                self._apply(u)
                touched.append(u.operation_id)
            touched.extend(self.fire_timers())
            seen = set()
            out = []
            for oid in touched:
                if oid not in seen:
                    seen.add(oid)
                    out.append(self.ops[oid])
            return CheckpointOutput(
                checkpoint_token=f"tok-{call_no}",
                new_execution_state=CheckpointUpdatedExecutionState(
                    operations=out, next_marker=None
                ),
            )

    def get_execution_state(self, durable_execution_arn, checkpoint_token, next_marker, max_items=1000):
        with self.lock:
            start = int(next_marker)
            ids = self.order[start : start + (self.page_size or 10**9)]
            nxt = start + len(ids)
            return StateOutput(
                operations=[self.ops[i] for i in ids],
                next_marker=str(nxt) if nxt < len(self.order) else None,
            )

    def _apply(self, u):
        now = datetime.datetime.now(UTC)
        old = self.ops.get(u.operation_id)
        t = u.operation_type
        a = u.action
        base = dict(
            operation_id=u.operation_id,
            operation_type=t,
            parent_id=u.parent_id if u.parent_id else (old.parent_id if old else None),
            name=u.name or (old.name if old else None),
            sub_type=u.sub_type or (old.sub_type if old else None),
        )
        if t is OperationType.EXECUTION:
            self._put(
                dataclasses.replace(
                    self.ops["exec"],
                    status=OperationStatus.SUCCEEDED
                    if a is OperationAction.SUCCEED
                    else OperationStatus.FAILED,
                )
            )
            self.execution_result = u.payload
            return
        if t is OperationType.CONTEXT:
            if a is OperationAction.START:
                op = Operation(status=OperationStatus.STARTED, **base)
            elif a is OperationAction.SUCCEED:
                op = Operation(
                    status=OperationStatus.SUCCEEDED,
                    context_details=ContextDetails(
                        replay_children=bool(
                            u.context_options and u.context_options.replay_children
                        ),
                        result=u.payload,
                    ),
                    **base,
                )
            else:
                op = Operation(
                    status=OperationStatus.FAILED,
                    context_details=ContextDetails(error=u.error),
                    **base,
                )
        elif t is OperationType.STEP:
            attempt = old.step_details.attempt if old and old.step_details else 0
            prev_result = old.step_details.result if old and old.step_details else None
            if a is OperationAction.START:
                op = Operation(
                    status=OperationStatus.STARTED,
                    step_details=StepDetails(attempt=attempt, result=prev_result),
                    **base,
                )
            elif a is OperationAction.SUCCEED:
                op = Operation(
                    status=OperationStatus.SUCCEEDED,
                    step_details=StepDetails(attempt=attempt + 1, result=u.payload),
                    **base,
                )
            elif a is OperationAction.FAIL:
                op = Operation(
                    status=OperationStatus.FAILED,
                    step_details=StepDetails(attempt=attempt + 1, error=u.error),
                    **base,
                )
            else:  # RETRY
                delay = u.step_options.next_attempt_delay_seconds if u.step_options else 1
                op = Operation(
                    status=OperationStatus.PENDING,
                    step_details=StepDetails(
                        attempt=attempt + 1,
                        next_attempt_timestamp=now + datetime.timedelta(seconds=delay),
                        result=u.payload,
                        error=u.error,
                    ),
                    **base,
                )
        elif t is OperationType.WAIT:
            secs = u.wait_options.wait_seconds if u.wait_options else 1
            op = Operation(
                status=OperationStatus.STARTED,
                wait_details=WaitDetails(
                    scheduled_end_timestamp=now + datetime.timedelta(seconds=secs)
                ),
                **base,
            )
        elif t is OperationType.CALLBACK:
            op = Operation(
                status=OperationStatus.STARTED,
                callback_details=CallbackDetails(callback_id=f"cb-{u.operation_id[:8]}"),
                **base,
            )
        elif t is OperationType.CHAINED_INVOKE:
            op = Operation(
                status=OperationStatus.STARTED,
                chained_invoke_details=ChainedInvokeDetails(),
                **base,
            )
        else:
            raise AssertionError(t)
        self._put(op)

    # -- driver
    def invocation_input(self):
        with self.lock:
            ids = self.order[: self.page_size] if self.page_size else list(self.order)
            nxt = len(ids)
            return DurableExecutionInvocationInputWithClient(
                durable_execution_arn="arn:test",
                checkpoint_token=f"tok-{self.calls}",
                initial_execution_state=InitialExecutionState(
                    operations=[self.ops[i] for i in ids],
                    next_marker=str(nxt) if nxt < len(self.order) else "",
                ),
                service_client=self,
            )

    def by_name(self, name):
        with self.lock:
            for op in self.ops.values():
                if op.name == name:
                    return op
        return None


def run_with_timeout(fn, timeout):
    box = {}

    def target():
        try:
            box["result"] = fn()
        except BaseException as e:  # noqa: BLE001
            box["error"] = e

    t = threading.Thread(target=target, daemon=True)
    t.start()
    t.join(timeout)
    if t.is_alive():
        return "HANG", None
    if "error" in box:
        return "ERROR", box["error"]
    return "OK", box["result"]
