"""finding 3 (minor) - commit 728d12e: an orphaned branch is no longer stopped at a resumed callback.

C10: "... a still-running orphaned branch is stopped at its next durable operation ...".

Between a3ddc98 and 728d12e every operation that resumes without sending a checkpoint asked
ExecutionState.raise_if_orphaned(), so an orphaned branch whose next durable operation is
create_callback() on a callback that already exists (found STARTED in a re-invocation) was stopped there.
728d12e (operation/base.py: OperationExecutor.process, `runs_user_code`) removed the question for callback,
wait and invoke altogether, to keep a LIVE branch that traverses a completed summarised context again from
being rejected at a callback that is still open in it.  The exemption is again unconditional: in an ORPHANED
branch create_callback() now returns normally and the branch's code goes on running (here: the plain user
code that would hand the callback id to an external system) until the next operation that asks or suspends.
wait / invoke found STARTED merely suspend, so only the callback lets the branch continue.

Severity: low - a callback has no user function of its own, and neither a3ddc98's message nor C10's second
half ("before that operation's user function runs") names callbacks; it is, literally, a branch that is not
stopped at its next durable operation although it was before 728d12e.  Same root cause and same correction as
finding 1: decide "orphaned?" at the nearest enclosing context that is not recorded SUCCEEDED instead of
exempting operations wholesale.

Scenario (two invocations, real durable_execution wrapper, in-memory backend):
  invocation 1: parallel P (min_successful=1)
                  branch 0: waits for callback cbA
                  branch 1: step s1; create_callback cb1; <plain user code>; cb1.result()
                -> PENDING
  cbA is delivered
  invocation 2: branch 0 completes -> P completes; branch 1 is in plain user code at that moment, its next
                durable operation is create_callback(cb1), found STARTED.
  expected    : branch 1 is stopped at create_callback (as at 728d12e^)
  observed    : create_callback returns, the code after it runs in the orphaned branch

Run:  PYTHONPATH=/tmp/wt/g1_orphan/src /venv/bin/python finding_3.py
"""

from __future__ import annotations

import dataclasses
import logging
import os
import sys
import threading

from aws_durable_execution_sdk_python.config import CompletionConfig, ParallelConfig
from aws_durable_execution_sdk_python.execution import (
    DurableExecutionInvocationInputWithClient,
    InitialExecutionState,
    durable_execution,
)
from aws_durable_execution_sdk_python.lambda_service import (
    CallbackDetails,
    CheckpointOutput,
    CheckpointUpdatedExecutionState,
    ContextDetails,
    ExecutionDetails,
    Operation,
    OperationAction,
    OperationStatus,
    OperationType,
    StateOutput,
    StepDetails,
)

logging.disable(logging.CRITICAL)


class FakeBackend:
    """Records every update and plays the resulting operations back as history."""

    def __init__(self) -> None:
        self.lock = threading.RLock()
        self.ops: dict[str, Operation] = {}
        self.log: list = []
        self.calls = 0
        self.ops["exec"] = Operation(
            operation_id="exec",
            operation_type=OperationType.EXECUTION,
            status=OperationStatus.STARTED,
            execution_details=ExecutionDetails(input_payload="{}"),
        )

    def checkpoint(self, durable_execution_arn, checkpoint_token, updates, client_token):
        with self.lock:
            self.calls += 1
            touched = []
            for u in updates:
                self.log.append(u)
                self._apply(u)
                touched.append(self.ops[u.operation_id])
            return CheckpointOutput(
                checkpoint_token=f"tok-{self.calls}",
                new_execution_state=CheckpointUpdatedExecutionState(
                    operations=touched, next_marker=None
                ),
            )

    def get_execution_state(self, durable_execution_arn, checkpoint_token, next_marker, max_items=1000):
        return StateOutput(operations=[], next_marker=None)

    def _apply(self, u) -> None:
        old = self.ops.get(u.operation_id)
        base = dict(
            operation_id=u.operation_id,
            operation_type=u.operation_type,
            parent_id=u.parent_id or (old.parent_id if old else None),
            name=u.name or (old.name if old else None),
            sub_type=u.sub_type or (old.sub_type if old else None),
        )
        t, a = u.operation_type, u.action
        if t is OperationType.CONTEXT:
            if a is OperationAction.START:
                op = Operation(status=OperationStatus.STARTED, **base)
            elif a is OperationAction.SUCCEED:
                op = Operation(
                    status=OperationStatus.SUCCEEDED,
                    context_details=ContextDetails(result=u.payload),
                    **base,
                )
            else:
                op = Operation(
                    status=OperationStatus.FAILED,
                    context_details=ContextDetails(error=u.error),
                    **base,
                )
        elif t is OperationType.STEP:
            if a is OperationAction.START:
                op = Operation(status=OperationStatus.STARTED, step_details=StepDetails(), **base)
            elif a is OperationAction.SUCCEED:
                op = Operation(
                    status=OperationStatus.SUCCEEDED,
                    step_details=StepDetails(attempt=1, result=u.payload),
                    **base,
                )
            else:
                raise AssertionError(f"unexpected step action {a}")
        elif t is OperationType.CALLBACK:
            op = Operation(
                status=OperationStatus.STARTED,
                callback_details=CallbackDetails(callback_id=f"id-{u.name}"),
                **base,
            )
        else:
            raise AssertionError(f"unexpected operation type {t}")
        self.ops[u.operation_id] = op

    def complete_callback(self, name: str) -> None:
        with self.lock:
            for op in self.ops.values():
                if op.name == name:
                    self.ops[op.operation_id] = dataclasses.replace(
                        op,
                        status=OperationStatus.SUCCEEDED,
                        callback_details=CallbackDetails(
                            callback_id=op.callback_details.callback_id, result='"go"'
                        ),
                    )
                    return
        raise KeyError(name)

    def invocation_input(self):
        with self.lock:
            return DurableExecutionInvocationInputWithClient(
                durable_execution_arn="arn:test",
                checkpoint_token=f"tok-{self.calls}",
                initial_execution_state=InitialExecutionState(
                    operations=list(self.ops.values()), next_marker=""
                ),
                service_client=self,
            )


def invoke(handler, backend: FakeBackend, timeout: float = 30.0):
    box: dict = {}

    def target() -> None:
        try:
            box["out"] = handler(backend.invocation_input(), None)
        except BaseException as e:  # noqa: BLE001
            box["err"] = e

    t = threading.Thread(target=target, daemon=True)
    t.start()
    t.join(timeout)
    assert not t.is_alive(), "the invocation did not return (hang)"
    assert "err" not in box, f"the invocation raised {box.get('err')!r}"
    return box["out"]


def main() -> int:
    backend = FakeBackend()
    invocation = {"n": 0}
    parallel_returned = threading.Event()
    branch1_left = threading.Event()
    after_callback: list[tuple[int, bool]] = []

    def branch0(c):
        return c.create_callback(name="cbA").result()

    def branch1(c):
        try:
            c.step(lambda _: 1, name="s1")
            if invocation["n"] == 2:
                # plain user code that is still running while the parallel completes
                assert parallel_returned.wait(20), "P never completed"
            cb = c.create_callback(name="cb1")  # next durable operation (found STARTED in invocation 2)
            # e.g. hand cb.callback_id to an external system
            after_callback.append((invocation["n"], parallel_returned.is_set()))
            return cb.result()
        finally:
            branch1_left.set()

    @durable_execution
    def handler(event, ctx):
        result = ctx.parallel(
            [branch0, branch1],
            name="P",
            config=ParallelConfig(completion_config=CompletionConfig(min_successful=1)),
        )
        parallel_returned.set()
        return result.success_count

    invocation["n"] = 1
    out = invoke(handler, backend)
    assert out["Status"] == "PENDING", out
    assert after_callback == [(1, False)], after_callback

    backend.complete_callback("cbA")
    invocation["n"] = 2
    branch1_left.clear()
    out = invoke(handler, backend)
    assert out["Status"] == "SUCCEEDED", out
    assert branch1_left.wait(10), "the orphaned branch never left"

    orphan_runs = [r for r in after_callback if r[0] == 2]
    assert not orphan_runs, (
        "the orphaned branch 1 was not stopped at its next durable operation: create_callback() on the "
        "existing callback returned and the code after it ran AFTER the parallel P had been handed its "
        f"completion record: {orphan_runs} (invocation, P-already-complete). Callback / wait / invoke "
        "executors no longer ask raise_if_orphaned() at all (728d12e)."
    )
    print("ok: the orphaned branch was stopped at create_callback")
    return 0


if __name__ == "__main__":
    try:
        rc = main()
    except AssertionError as e:
        print(f"FINDING 3 REPRODUCED: {e}", file=sys.stderr)
        rc = 1
    sys.stdout.flush()
    sys.stderr.flush()
    os._exit(rc)
