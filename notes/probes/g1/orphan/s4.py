"""stress for 05fcdc6: no descendant update after the ancestor's completion record."""
import os, sys, threading, time, logging
sys.path.insert(0, os.path.dirname(__file__))
from fake import FakeBackend
from aws_durable_execution_sdk_python.state import ExecutionState, CheckpointBatcherConfig
from aws_durable_execution_sdk_python.identifier import OperationIdentifier
from aws_durable_execution_sdk_python.lambda_service import OperationUpdate, OperationSubType
from aws_durable_execution_sdk_python.exceptions import OrphanedChildException

logging.disable(logging.CRITICAL)
sys.setswitchinterval(1e-6)
bad = 0
for rnd in range(200):
    be = FakeBackend()
    st = ExecutionState("arn", "t0", {}, be, CheckpointBatcherConfig(max_batch_time_seconds=0.001))
    bg = threading.Thread(target=st.checkpoint_batches_forever, daemon=True)
    bg.start()
    M = OperationIdentifier("M", None, "M")
    st.create_checkpoint(OperationUpdate.create_context_start(M, OperationSubType.PARALLEL), is_sync=False)
    B = OperationIdentifier("B", "M", "B")
    st.create_checkpoint(OperationUpdate.create_context_start(B, OperationSubType.PARALLEL_BRANCH), is_sync=False)
    go = threading.Event()

    def spam(k):
        go.wait()
        i = 0
        try:
            while True:
                i += 1
                st.create_checkpoint(OperationUpdate.create_step_start(OperationIdentifier(f"s{k}-{i}", "B", None)), is_sync=False)
        except OrphanedChildException:
            pass

    ts = [threading.Thread(target=spam, args=(k,)) for k in range(4)]
    for t in ts:
        t.start()
    go.set()
    time.sleep(0.002)
    st.create_checkpoint(OperationUpdate.create_context_succeed(M, "1", OperationSubType.PARALLEL), is_sync=True)
    for t in ts:
        t.join()
    st.create_checkpoint()  # flush
    st.stop_checkpointing()
    ids = [u.operation_id + ":" + u.action.value for _, u in be.log]
    k = ids.index("M:SUCCEED")
    if ids[k + 1 :]:
        bad += 1
        print("round", rnd, "after completion:", ids[k + 1 : k + 5])
print("bad rounds:", bad)
os._exit(0)
