"""Random workflows against the fake backend; checks hangs, C10 ordering, user code in orphans, termination."""
import os, sys, threading, time, logging, random, json, traceback
sys.path.insert(0, os.path.dirname(__file__))
from fake import FakeBackend, run_with_timeout
from aws_durable_execution_sdk_python.config import (
    CompletionConfig, Duration, ParallelConfig, StepConfig, StepSemantics, MapConfig,
)
from aws_durable_execution_sdk_python.retries import RetryDecision
from aws_durable_execution_sdk_python.waits import WaitForConditionDecision, WaitForConditionConfig
from aws_durable_execution_sdk_python.execution import durable_execution
from aws_durable_execution_sdk_python.lambda_service import OperationAction, OperationType, OperationStatus

logging.disable(logging.CRITICAL)
BIG = "x" * 270_000


def gen(rng, depth, budget):
    """list of nodes"""
    nodes = []
    n = rng.randint(2, 5)
    for _ in range(n):
        if budget[0] <= 0:
            break
        budget[0] -= 1
        kinds = ["step", "step", "slow", "retry", "wait", "cb_open", "wfc", "cb_wait", "gate", "gate"]
        if depth < 3:
            kinds += ["child", "child", "par", "par", "par", "map"]
        k = rng.choice(kinds)
        if k == "child":
            nodes.append(("child", rng.random() < 0.5, gen(rng, depth + 1, budget)))
        elif k in ("par", "map"):
            nb = rng.randint(2, 3)
            nodes.append((k, rng.choice([None, 1, 1]), rng.random() < 0.4,
                          [gen(rng, depth + 1, budget) for _ in range(nb)]))
        elif k == "step":
            nodes.append(("step", rng.choice(["alo", "amo"])))
        elif k == "slow":
            nodes.append(("slow", rng.choice([0.05, 0.3, 1.2])))
        elif k == "retry":
            nodes.append(("retry", rng.choice(["alo", "amo"])))
        elif k == "wfc":
            nodes.append(("wfc", rng.randint(1, 2)))
        elif k == "gate":
            nodes.append(("gate", rng.choice([0.2, 0.6, 1.3])))
        else:
            nodes.append((k,))
    return nodes


class Run:
    def __init__(self, spec):
        self.spec = spec
        self.be = FakeBackend()
        self.lock = threading.Lock()
        self.fn_starts = []  # (time, opname, kind)
        self.success_counts = {}
        self.attempts = {}
        self.ack = {}  # op_id -> time of context completion ack
        self.be.on_update = self._on_update
        self.problems = []
        self.inv = 0
        self.ack_inv = {}
        self.fail_calls = set()
        self.injected = 0

    def _on_update(self, u):
        if u.operation_type is OperationType.CONTEXT and u.action in (OperationAction.SUCCEED, OperationAction.FAIL):
            self.ack.setdefault(u.operation_id, time.time())
            self.ack_inv.setdefault(u.operation_id, self.inv)

    def started(self, name, kind, inv):
        with self.lock:
            self.fn_starts.append((time.time(), name, kind, inv))

    def run_nodes(self, c, nodes, path, inv=0):
        out = []
        for i, node in enumerate(nodes):
            name = f"{path}/{i}{node[0]}"
            k = node[0]
            if k in ("step", "slow", "retry"):
                sem = StepSemantics.AT_MOST_ONCE_PER_RETRY if (len(node) > 1 and node[1] == "amo") else StepSemantics.AT_LEAST_ONCE_PER_RETRY

                def fn(_, name=name, node=node):
                    self.started(name, "step", inv)
                    if node[0] == "slow":
                        time.sleep(node[1])
                    if node[0] == "retry":
                        with self.lock:
                            a = self.attempts[name] = self.attempts.get(name, 0) + 1
                        if a == 1:
                            raise ValueError("first attempt fails")
                    with self.lock:
                        self.success_counts[name] = self.success_counts.get(name, 0) + 1
                    return name

                out.append(c.step(fn, name=name, config=StepConfig(
                    step_semantics=sem,
                    retry_strategy=lambda e, a: RetryDecision.retry(Duration.from_seconds(1)) if a < 3 else RetryDecision.no_retry())))
            elif k == "gate":
                time.sleep(node[1])  # plain user code between durable operations
            elif k == "wait":
                c.wait(Duration.from_seconds(1), name=name)
            elif k == "cb_open":
                c.create_callback(name=name)
            elif k == "cb_wait":
                cb = c.create_callback(name=name)
                out.append(cb.result())
            elif k == "wfc":
                polls = node[1]

                def check(s, _, name=name):
                    self.started(name, "check", inv)
                    return s + 1

                out.append(c.wait_for_condition(check, WaitForConditionConfig(
                    wait_strategy=lambda s, a, polls=polls: WaitForConditionDecision.stop_polling() if s >= polls else WaitForConditionDecision.continue_waiting(Duration.from_seconds(1)),
                    initial_state=0), name=name))
            elif k == "child":
                def body(cc, name=name, node=node):
                    self.started(name, "child", inv)
                    r = self.run_nodes(cc, node[2], name, inv)
                    return [r, BIG] if node[1] else r

                out.append(c.run_in_child_context(body, name=name))
            elif k in ("par", "map"):
                _, min_s, big, branches = node
                cfgc = CompletionConfig(min_successful=min_s) if min_s else CompletionConfig()

                def mk(bi, bnodes, name=name):
                    def bfn(cc):
                        self.started(f"{name}#{bi}", "branch", inv)
                        r = self.run_nodes(cc, bnodes, f"{name}#{bi}", inv)
                        return [r, BIG] if big else r
                    return bfn

                if k == "par":
                    r = c.parallel([mk(bi, b) for bi, b in enumerate(branches)], name=name,
                                   config=ParallelConfig(completion_config=cfgc))
                else:
                    fns = [mk(bi, b) for bi, b in enumerate(branches)]
                    r = c.map(list(range(len(branches))), lambda cc, item, idx, items: fns[idx](cc), name=name,
                              config=MapConfig(completion_config=cfgc))
                out.append([r.success_count, r.failure_count, r.started_count])
        return out

    def drive(self, max_inv=40, inv_timeout=40):
        @durable_execution
        def handler(event, ctx):
            return self.run_nodes(ctx, self.spec, "r", self.inv)

        status = None
        from aws_durable_execution_sdk_python.exceptions import CheckpointError, CheckpointErrorCategory

        def fail_on_call(call_no, updates):
            if call_no in self.fail_calls:
                self.injected += 1
                return CheckpointError("injected", CheckpointErrorCategory.EXECUTION)
            return None

        self.be.fail_on_call = fail_on_call
        for n in range(max_inv):
            self.inv = n + 1
            st, val = run_with_timeout(lambda: handler(self.be.invocation_input(), None), inv_timeout)
            if st == "HANG":
                self.problems.append(f"HANG in invocation {n+1}")
                return "HANG"
            if st == "ERROR" and isinstance(val, CheckpointError) and "injected" in str(val):
                time.sleep(0.3)
                continue
            if st == "ERROR":
                self.problems.append(f"ERROR in invocation {n+1}: {val!r}")
                return "ERROR"
            status = val["Status"]
            if status != "PENDING":
                break
            # backend side: deliver every awaited callback, fire timers that are due
            with self.be.lock:
                for op in list(self.be.ops.values()):
                    if op.operation_type is OperationType.CALLBACK and op.status is OperationStatus.STARTED and op.name.endswith("cb_wait"):
                        self.be.complete_callback(op.operation_id)
            time.sleep(1.05)
            self.be.fire_timers()
        else:
            self.problems.append(f"not finished after {max_inv} invocations")
        time.sleep(0.5)  # let left-behind branches run into their next operation
        self.check()
        return status

    def ancestors(self, op_id):
        res = []
        op = self.be.ops.get(op_id)
        while op and op.parent_id:
            res.append(op.parent_id)
            op = self.be.ops.get(op.parent_id)
        return res

    def check(self):
        # C10: no update after an ancestor's completion record
        done = {}
        parent = {}
        for idx, (_, u) in enumerate(self.be.log):
            if u.parent_id:
                parent[u.operation_id] = u.parent_id
            p = parent.get(u.operation_id)
            while p:
                if p in done:
                    self.problems.append(f"C10: update {u.name}:{u.action.value} (log #{idx}) after completion of ancestor {self.be.ops[p].name} (log #{done[p]})")
                    break
                p = parent.get(p)
            if u.operation_type is OperationType.CONTEXT and u.action in (OperationAction.SUCCEED, OperationAction.FAIL):
                if u.operation_id in done:
                    self.problems.append(f"duplicate completion of {u.name}")
                done[u.operation_id] = idx
        # steps executed successfully at most once
        for name, cnt in self.success_counts.items():
            if cnt > 1 and not self.injected:
                self.problems.append(f"step {name} succeeded {cnt} times")
        # user function started well after an ancestor context was handed its completion record
        byname = {}
        for op in self.be.ops.values():
            byname.setdefault(op.name, op)
        for t, name, kind, inv in self.fn_starts:
            if kind == "branch":
                pname, bi = name.rsplit("#", 1)
                pop = byname.get(pname)
                op = None
                if pop:
                    for o in self.be.ops.values():
                        if o.parent_id == pop.operation_id and o.name and o.name.endswith(f"-{bi}"):
                            op = o
            else:
                op = byname.get(name)
            if not op:
                continue
            chain = self.ancestors(op.operation_id)
            if kind in ("child", "branch"):
                chain = [op.operation_id] + chain

            def is_open(a):
                return a not in self.ack or self.ack[a] > t

            # nearest enclosing thing that is really being executed (not replayed from a completed record)
            i = -1 if kind in ("step", "check") else next((k for k, a in enumerate(chain) if is_open(a)), None)
            if i is None:
                continue
            for a in chain[i + 1:]:
                if a in self.ack and self.ack[a] + 0.1 < t:
                    same = self.ack_inv[a] == inv
                    self.problems.append(f"ORPHAN-USERCODE[{'same-inv' if same else 'other-inv'}]: {kind} {name} started {t - self.ack[a]:.2f}s after ancestor {self.be.ops[a].name} completed (inv {inv})")
                    break


FAIL = len(sys.argv) > 3 and sys.argv[3] == "fail"
CRASH = len(sys.argv) > 3 and sys.argv[3] == "crash"


def main():
    seed0 = int(sys.argv[1])
    count = int(sys.argv[2])
    for seed in range(seed0, seed0 + count):
        rng = random.Random(seed)
        spec = gen(rng, 0, [rng.randint(8, 30)])
        run = Run(spec)
        if FAIL:
            for _ in range(rng.randint(1, 3)):
                run.fail_calls.add(rng.randint(2, 40))
        t0 = time.time()
        try:
            status = run.drive()
        except BaseException as e:  # noqa: BLE001
            status = f"DRIVER-EXC {e!r}"
            traceback.print_exc()
        probs = list(run.problems)
        if CRASH and status in ("SUCCEEDED", "FAILED"):
            full_log = [u for _, u in run.be.log]
            for trial in range(4):
                k = rng.randint(1, max(1, len(full_log) - 1))
                r2 = Run(spec)
                for u in full_log[:k]:
                    r2.be._apply(u)
                    if u.operation_type is OperationType.CONTEXT and u.action in (OperationAction.SUCCEED, OperationAction.FAIL):
                        r2.ack[u.operation_id] = 0.0
                        r2.ack_inv[u.operation_id] = 0
                r2.be.fire_timers(force=True)
                try:
                    st2 = r2.drive()
                except BaseException as e:  # noqa: BLE001
                    st2 = f"DRIVER-EXC {e!r}"
                print(f"   crash@{k}/{len(full_log)}: {st2} inv={r2.inv} problems={len(r2.problems)}", flush=True)
                probs += [f"[crash@{k}] {p}" for p in r2.problems]
        print(f"seed {seed}: {status} inj={run.injected} inv={run.inv} calls={run.be.calls} {time.time()-t0:.1f}s problems={len(probs)}", flush=True)
        for p in probs[:8]:
            print("    ", p, flush=True)
        if probs:
            print("    spec:", json.dumps(spec), flush=True)
    os._exit(0)


main()
